"""Independent implementation of WhatsApp's media encryption layout (no yowsup / axolotl code):
  D = HKDF-SHA256(ikm = media key, salt = 32 zero bytes, info = "WhatsApp <Kind> Keys", L = 112)
  iv = D[0:16], cipher key = D[16:48], mac key = D[48:80]
  ct = AES-256-CBC(key, iv, PKCS7(plaintext))            # ALWAYS padded: 1..16 bytes
  out = ct || HMAC-SHA256(mac key, iv || ct)[0:10]
"""
import hmac, hashlib
from cryptography.hazmat.primitives.ciphers import Cipher, algorithms, modes
from cryptography.hazmat.backends import default_backend

INFO = {"image": b"WhatsApp Image Keys", "audio": b"WhatsApp Audio Keys", "video": b"WhatsApp Video Keys", "document": b"WhatsApp Document Keys"}


def hkdf_sha256(ikm, info, length, salt=None):
    salt = salt if salt is not None else b"\x00" * 32
    prk = hmac.new(salt, ikm, hashlib.sha256).digest()
    out, t, i = b"", b"", 1
    while len(out) < length:
        t = hmac.new(prk, t + info + bytes([i]), hashlib.sha256).digest()
        out += t
        i += 1
    return out[:length]


def pkcs7(p):
    k = 16 - len(p) % 16
    return p + bytes([k]) * k


def encrypt(plaintext, media_key, kind):
    d = hkdf_sha256(media_key, INFO[kind], 112)
    iv, key, mac_key = d[0:16], d[16:48], d[48:80]
    enc = Cipher(algorithms.AES(key), modes.CBC(iv), backend=default_backend()).encryptor()
    ct = enc.update(pkcs7(plaintext)) + enc.finalize()
    return ct + hmac.new(mac_key, iv + ct, hashlib.sha256).digest()[:10]


def decrypt(blob, media_key, kind):
    d = hkdf_sha256(media_key, INFO[kind], 112)
    iv, key, mac_key = d[0:16], d[16:48], d[48:80]
    ct, tag = blob[:-10], blob[-10:]
    if not hmac.compare_digest(tag, hmac.new(mac_key, iv + ct, hashlib.sha256).digest()[:10]):
        raise ValueError("bad mac")
    dec = Cipher(algorithms.AES(key), modes.CBC(iv), backend=default_backend()).decryptor()
    p = dec.update(ct) + dec.finalize()
    k = p[-1]
    if not 1 <= k <= 16 or p[-k:] != bytes([k]) * k:
        raise ValueError("bad padding")
    return p[:-k]
