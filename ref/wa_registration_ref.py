"""Independent reference for the registration request pieces (no yowsup code):
 token(phone)   = base64( HMAC-SHA1( key[:64], signature || classes_md5 || phone ) )      -- WhatsApp's keyed SHA-1 construction
 percent-encode = every UTF-8 byte that is not [A-Za-z0-9.] becomes %xx (lower-case hex)
"""
import hmac, hashlib, base64


def token(key_b64, sig_b64, cls_b64, phone):
    key = base64.b64decode(key_b64)[:64]
    data = base64.b64decode(sig_b64) + base64.b64decode(cls_b64) + phone.encode()
    return base64.b64encode(hmac.new(key, data, hashlib.sha1).digest())


def _keep(b):
    return (48 <= b and b <= 57) or (65 <= b and b <= 90) or (97 <= b and b <= 122) or b == 46


def utf8_codes(cp):
    """UTF-8 bytes of one code point, arithmetic only (so it also runs on symbolic code points)"""
    if cp < 0x80:
        return [cp]
    if cp < 0x800:
        return [192 + cp // 64, 128 + cp % 64]
    if cp < 0x10000:
        return [224 + cp // 4096, 128 + cp // 64 % 64, 128 + cp % 64]
    return [240 + cp // 262144, 128 + cp // 4096 % 64, 128 + cp // 64 % 64, 128 + cp % 64]


def hexdigit(v):
    return 48 + v if v < 10 else 87 + v


def encode_bytes(bs):
    out = []
    for b in bs:
        if _keep(b):
            out.append(b)
        else:
            out += [37, hexdigit(b // 16), hexdigit(b % 16)]
    return out


def encode_value(v):
    """-> list of code points of the percent-encoded text"""
    if isinstance(v, (bytes, bytearray)):
        return encode_bytes(list(v))
    if not isinstance(v, str):
        v = str(v)
    out = []
    for ch in v:
        out += encode_bytes(utf8_codes(ord(ch)))
    return out


def decode_to_bytes(codes):
    out, i = [], 0
    while i < len(codes):
        if codes[i] == 37:
            out.append(_hexval(codes[i + 1]) * 16 + _hexval(codes[i + 2]))
            i += 3
        else:
            out.append(codes[i])
            i += 1
    return out


def _hexval(c):
    if 48 <= c <= 57:
        return c - 48
    if 97 <= c <= 102:
        return c - 87
    return c - 55
