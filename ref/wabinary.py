"""Independent implementation of the WhatsApp binary-XML stanza format (encoder with an explicit
choice vector, and decoder), written from the format description and NOT derived from yowsup's coder:

  frame   := flags:u8 node                 flags & 2: the rest of the frame is zlib-deflated
  node    := list(size) string(tag) { string(key) string(value) }*  [content]
             size = 1 + 2*n_attrs + (1 if content present)
  list    := 0x00                          (size 0)
           | 0xF8 size:u8 | 0xF9 size:u16be
  string  := t:u8 (3 <= t <= 235)          primary dictionary token
           | (0xEC+k):u8 i:u8              secondary dictionary k (0..3), entry i
           | 0xFA (string | 0x00) string   JID: user (or none) '@' server
           | 0xFB h:u8 packed              hex-packed    (0-9 A-F), h = odd<<7 | n_bytes, filler nibble 0xF
           | 0xFF h:u8 packed              nibble-packed (0-9 - .)
           | 0xFC n:u8 bytes | 0xFD n:u20be bytes | 0xFE n:u31be bytes
  content := list(n) node*n | 0xFC/0xFD/0xFE binary | string (token/JID/packed: its Latin-1 bytes)

Trees are plain tuples: (tag, [(key, value), ...], children_or_None, data_or_None).
The module is written so that it can run both on plain bytes/str and (loaded through the sx
instrumenting hook) on symbolic ropes and character lists.
"""
import json, os, zlib

_D = json.load(open(os.path.join(os.path.dirname(os.path.abspath(__file__)), "wa_tokens.json")))
PRIMARY = _D["primary"]
SECONDARY = _D["secondary"]

LIST_EMPTY, LIST_8, LIST_16 = 0, 248, 249
DICT_0 = 236
JID_PAIR, HEX_8, BINARY_8, BINARY_20, BINARY_32, NIBBLE_8 = 250, 251, 252, 253, 254, 255
NIBBLE_ALPHABET = "0123456789-."
HEX_ALPHABET = "0123456789ABCDEF"


class FormatError(Exception):
    pass


def RNode(tag, attrs=(), children=None, data=None):
    return (tag, list(attrs), children, data)


# ------------------------------------------------------------------------------------------------
class Choices(object):
    """the encoder's free choices; each is consulted where the format allows an alternative"""

    def __init__(self, list16=False, len_form=None, literal=False, packed=True, jid=True, string_content=False, deflate=False, bare_jid=False):
        self.list16 = list16                  # 16-bit list header even when the size fits 8 bits
        self.len_form = len_form              # None = shortest; 20 or 31 = force that width if the length fits
        self.literal = literal                # literal bytes instead of a dictionary token
        self.packed = packed                  # pack digit/hex strings
        self.jid = jid                        # JID pair form for user@server
        self.string_content = string_content  # node content as a string (token/packed/JID) instead of binary
        self.deflate = deflate
        self.bare_jid = bare_jid              # a string without '@' (a server name) as a JID pair without user part: 0xFA 0x00 string


SHORTEST = Choices()


def _codes(s):
    """Latin-1 code points / byte values of a str or bytes"""
    out = []
    for c in s:
        out.append(c if type(c) is int else ord(c))
    return out


class Encoder(object):
    def __init__(self, choices=SHORTEST):
        self.ch = choices
        self.out = []          # list of ints and byte-sequences (kept as parts so symbolic blobs stay whole)

    def u8(self, v):
        self.out.append(v)

    def list_header(self, n):
        if n == 0 and not self.ch.list16:
            self.u8(LIST_EMPTY)
        elif n < 256 and not self.ch.list16:
            self.u8(LIST_8)
            self.u8(n)
        else:
            self.u8(LIST_16)
            self.u8(n // 256)
            self.u8(n % 256)

    def raw(self, codes_or_blob, n):
        """length-prefixed binary; n = its length (may be symbolic)"""
        form = self.ch.len_form
        if form is None:
            if n < 256:
                form = 8
            elif n < (1 << 20):
                form = 20
            else:
                form = 31
        elif form == 20 and not (n < (1 << 20)):
            form = 31
        if form == 8:
            self.u8(BINARY_8)
            self.u8(n)
        elif form == 20:
            self.u8(BINARY_20)
            self.u8(n // 65536)
            self.u8(n // 256 % 256)
            self.u8(n % 256)
        else:
            self.u8(BINARY_32)
            self.u8(n // 16777216)
            self.u8(n // 65536 % 256)
            self.u8(n // 256 % 256)
            self.u8(n % 256)
        self.out.append(codes_or_blob)

    def try_pack(self, codes, value_of, marker):
        if len(codes) == 0 or len(codes) > 254:
            return False
        vals = []
        for c in codes:
            k = value_of(c)
            if k is None:
                return False
            vals.append(k)
        if len(vals) % 2:
            vals.append(15)
        nbytes = len(vals) // 2
        if nbytes > 127:
            return False
        self.u8(marker)
        self.u8((len(codes) % 2) * 128 + nbytes)
        for i in range(0, len(vals), 2):
            self.u8(vals[i] * 16 + vals[i + 1])
        return True

    def string(self, s, allow_jid=True):
        if not self.ch.literal:
            i = _index_in(PRIMARY, s)
            if i is not None and i > 2:
                self.u8(i)
                return
            j = _index_in(SECONDARY, s)
            if j is not None:
                self.u8(DICT_0 + j // 256)
                self.u8(j % 256)
                return
        codes = _codes(s)
        if allow_jid and self.ch.bare_jid and _find_code(codes, 64) is None:
            self.u8(JID_PAIR)
            self.u8(0)
            self.string(s, allow_jid=False)
            return
        if allow_jid and self.ch.jid:
            at = _find_code(codes, 64)
            if at is not None and at >= 1 and at < len(codes) - 1:
                self.u8(JID_PAIR)
                self.string(s[:at], allow_jid=False)
                self.string(s[at + 1:], allow_jid=True)
                return
        if self.ch.packed:
            if self.try_pack(codes, nibble_value, NIBBLE_8):
                return
            if self.try_pack(codes, hex_value, HEX_8):
                return
        self.raw(codes, len(codes))

    def node(self, n):
        tag, attrs, children, data = n
        has_content = (children is not None and len(children) > 0) or data is not None
        self.list_header(1 + 2 * len(attrs) + (1 if has_content else 0))
        self.string(tag)
        for k, v in attrs:
            self.string(k)
            self.string(v)
        if data is not None:
            if self.ch.string_content:
                self.string(_latin1(data))
            else:
                self.raw(data, _len(data))
        elif has_content:
            self.list_header(len(children))
            for c in children:
                self.node(c)

    def parts(self):
        return self.out


def _len(x):
    return len(x)


def _latin1(data):
    return "".join([chr(c) for c in data])


def nibble_value(c):
    if 48 <= c and c <= 57:
        return c - 48
    if c == 45:
        return 10
    if c == 46:
        return 11
    return None


def hex_value(c):
    if 48 <= c and c <= 57:
        return c - 48
    if 65 <= c and c <= 70:
        return c - 55
    return None


def nibble_char(v):
    if v < 10:
        return 48 + v
    if v < 12:
        return 35 + v
    raise FormatError("bad packed digit")


def hex_char(v):
    if v < 10:
        return 48 + v
    return 55 + v


def _find_code(codes, x):
    for i in range(len(codes)):
        if codes[i] == x:
            return i
    return None


def _index_in(table, s):
    n = len(s)
    for i in range(len(table)):
        w = table[i]
        if len(w) == n and w == s:
            return i
    return None


def encode_parts(tree, choices=SHORTEST):
    """-> list of parts (ints and byte sequences) of the frame, flags byte included; deflate is applied by
    the caller on concrete bytes (see encode)"""
    e = Encoder(choices)
    e.u8(0)
    e.node(tree)
    return e.parts()


def flatten(parts):
    out = bytearray()
    for p in parts:
        if type(p) is int:
            out.append(p)
        else:
            out.extend(bytes(bytearray(p)))
    return bytes(out)


def encode(tree, choices=SHORTEST):
    b = flatten(encode_parts(tree, choices))
    if choices.deflate:
        return b"\x02" + zlib.compress(b[1:])
    return b


# ------------------------------------------------------------------------------------------------
class Decoder(object):
    def __init__(self, buf):
        self.buf = buf

    def u8(self):
        if len(self.buf) < 1:
            raise FormatError("truncated")
        v = self.buf[0]
        self.buf = self.buf[1:]
        return v

    def take(self, n):
        if len(self.buf) < n:
            raise FormatError("truncated binary")
        out = self.buf[:n]
        self.buf = self.buf[n:]
        return out

    def list_size(self, marker):
        if marker == LIST_EMPTY:
            return 0
        if marker == LIST_8:
            return self.u8()
        if marker == LIST_16:
            hi = self.u8()
            return hi * 256 + self.u8()
        raise FormatError("not a list marker: %s" % (marker,))

    def binary_len(self, marker):
        if marker == BINARY_8:
            return self.u8()
        if marker == BINARY_20:
            a = self.u8()
            b = self.u8()
            return (a % 16) * 65536 + b * 256 + self.u8()
        if marker == BINARY_32:
            a = self.u8()
            b = self.u8()
            c = self.u8()
            return (a % 128) * 16777216 + b * 65536 + c * 256 + self.u8()
        raise FormatError("not a binary marker")

    def packed(self, char_of):
        h = self.u8()
        nbytes = h % 128
        odd = h >= 128
        raw = self.take(nbytes)
        out = []
        count = nbytes * 2 - (1 if odd else 0)
        for i in range(count):
            b = raw[i // 2]
            v = b // 16 if i % 2 == 0 else b % 16
            out.append(chr(char_of(v)))
        return "".join(out)

    def string(self, marker):
        """-> str, or None for the 'no user' marker 0"""
        if 2 < marker and marker < DICT_0:
            if marker >= len(PRIMARY):
                raise FormatError("token out of range")
            return PRIMARY[marker]
        if marker >= DICT_0 and marker < DICT_0 + 4:
            idx = (marker - DICT_0) * 256 + self.u8()
            if idx >= len(SECONDARY):
                raise FormatError("secondary token out of range")
            return SECONDARY[idx]
        if marker == JID_PAIR:
            m = self.u8()
            user = None if m == 0 else self.string(m)
            server = self.string(self.u8())
            if server is None:
                raise FormatError("JID without server")
            return server if user is None else user + "@" + server
        if marker == HEX_8:
            return self.packed(hex_char)
        if marker == NIBBLE_8:
            return self.packed(nibble_char)
        if marker == BINARY_8 or marker == BINARY_20 or marker == BINARY_32:
            n = self.binary_len(marker)
            return _latin1(self.take(n))
        if marker == 0:
            return None
        raise FormatError("bad string marker %s" % (marker,))

    def node(self):
        size = self.list_size(self.u8())
        if size == 0:
            raise FormatError("empty node")
        tag = self.string(self.u8())
        if tag is None:
            raise FormatError("node without tag")
        attrs = []
        for _ in range((size - 1) // 2):
            k = self.string(self.u8())
            v = self.string(self.u8())
            attrs.append((k, v))
        children, data = None, None
        if size % 2 == 0:
            m = self.u8()
            if m == LIST_EMPTY or m == LIST_8 or m == LIST_16:
                children = []
                for _ in range(self.list_size(m)):
                    children.append(self.node())
            elif m == BINARY_8 or m == BINARY_20 or m == BINARY_32:
                data = bytes(self.take(self.binary_len(m)))
            else:
                s = self.string(m)
                data = s.encode("latin-1")
        return (tag, attrs, children, data)


def decode(frame):
    """frame: bytes-like (flags byte first) -> tree; raises FormatError when bytes are left over"""
    flags = frame[0]
    body = frame[1:]
    if type(flags) is int and flags & 2:
        body = zlib.decompress(bytes(body))
    d = Decoder(body)
    t = d.node()
    if len(d.buf) != 0:
        raise FormatError("trailing bytes after the stanza")
    return t
