"""independent reference mapping attribute objects -> WhatsApp e2e protobuf message (what a peer client puts on the wire).

Reflective: an attribute object's field `x` is the same-named field of the schema's message; the message kinds hang under
Message.<kind>_message; DownloadableMediaMessageAttributes is flattened into its owner; quoted messages recurse.  Works on any
message class with the protobuf API (the real generated classes or the descriptor-generated stub)."""

KIND_FIELD = dict(image="image_message", contact="contact_message", location="location_message", extended_text="extended_text_message", document="document_message",
                  audio="audio_message", video="video_message", sticker="sticker_message", sender_key_distribution_message="sender_key_distribution_message",
                  protocol="protocol_message")


def _is_attrs(x):
    return hasattr(x, "__dict__") and type(x).__module__.startswith("yowsup.layers.protocol_messages.protocolentities.attributes")


def _present(sub):
    """an attribute object that is set yields a present (possibly empty) sub-message"""
    if hasattr(sub, "SetInParent"):
        sub.SetInParent()
    else:
        sub._mark_present()


def fill(msg, attrs, raw=None):
    """set on protobuf message `msg` every field the attribute object has set.  `raw` optionally maps id(attribute object) to the
    scalar values the composer handed to its constructor (a peer puts those on the wire, not what the library's object made of them)"""
    desc = msg.DESCRIPTOR
    given = (raw or {}).get(id(attrs), {})
    for name, v in vars(attrs).items():
        name = name.lstrip("_")
        if v is None:
            continue
        if name in given and not _is_attrs(v) and not isinstance(v, (list, tuple)):
            v = given[name]
        if _is_attrs(v):
            if name in desc.fields_by_name:
                sub = getattr(msg, name)
                if desc.fields_by_name[name].message_type.name == "Message":
                    message(sub, v, raw)
                else:
                    fill(sub, v, raw)
                _present(sub)
            else:
                fill(msg, v, raw)          # flattened part (downloadable media)
        elif isinstance(v, (list, tuple)):
            getattr(msg, name).extend(list(v))
        else:
            setattr(msg, name, v)
    return msg


def message(msg, attrs, raw=None):
    for name, v in vars(attrs).items():
        name = name.lstrip("_")
        if v is None:
            continue
        if name == "conversation":
            msg.conversation = v
        else:
            sub = getattr(msg, KIND_FIELD[name])
            fill(sub, v, raw)
            _present(sub)
    return msg
