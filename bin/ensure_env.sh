#!/bin/sh
# Idempotently (re)create the overlay venv used by every check. Offline: wheelhouse only.
# /venv pins six==1.10 whose six.moves does not import on py3.12; the overlay shadows it with six 1.17
# and adds z3-solver (+cvc5 when available). /venv and /repo are not modified.
set -e
D=$(cd "$(dirname "$0")/.." && pwd)
V="$D/.venv"
STAMP="$V/.ok3"
if [ -f "$STAMP" ] && "$V/bin/python" -c 'import z3, six, six.moves' >/dev/null 2>&1; then exit 0; fi
(
  flock 9
  if [ -f "$STAMP" ] && "$V/bin/python" -c 'import z3, six, six.moves' >/dev/null 2>&1; then exit 0; fi
  rm -rf "$V"
  /venv/bin/python -m venv "$V" >/dev/null
  SP=$("$V/bin/python" -c 'import sysconfig; print(sysconfig.get_paths()["purelib"])')
  printf "import site; site.addsitedir('/venv/lib/python3.12/site-packages')\n" > "$SP/zz_venv_overlay.pth"
  PIP_NO_INDEX=1 "$V/bin/pip" install -q --no-index --find-links /opt/veriftools/wheels --ignore-installed six z3-solver >/dev/null 2>&1 \
    || PIP_NO_INDEX=1 "$V/bin/pip" install --no-index --find-links /opt/veriftools/wheels --ignore-installed six z3-solver
  PIP_NO_INDEX=1 "$V/bin/pip" install -q --no-index --find-links /opt/veriftools/wheels cvc5 >/dev/null 2>&1 || true
  "$V/bin/python" -c 'import z3, six, six.moves; import google.protobuf'
  touch "$STAMP"
) 9>"$D/.venv.lock"
