"""symsql -- a small SQL engine with sqlite3's Python API whose cell values may be symbolic.

It interprets the statements the code under test really issues (the SQL text is parsed at run time, nothing is
hard-wired to yowsup's schema): CREATE TABLE / CREATE [UNIQUE] INDEX, INSERT [OR REPLACE], SELECT (columns, max()),
UPDATE, DELETE with WHERE conditions built from =, !=, IS [NOT] NULL, AND, OR over columns, literals and '?'.
Comparisons between cells and parameters are ordinary Python comparisons, so a symbolic operand makes the engine branch
through the explorer; everything else is concrete bookkeeping.

Transactions follow Python's sqlite3 module in its default (legacy) mode: a data-modifying statement opens a transaction
implicitly unless isolation_level is None (autocommit); commit() makes the connection's changes durable; closing or
abandoning a connection discards what was not committed; DDL is durable at once.  `Disk` objects are the durable state
(one per path), `crash()` of a connection models the death of its process.

The engine is validated against the real sqlite3 library by sx/selftest.py (same statement sequences, concrete values)."""
import re
import sqlite3 as _real
from .core import Unsupported

IntegrityError = _real.IntegrityError
OperationalError = _real.OperationalError
ProgrammingError = _real.ProgrammingError
Binary = _real.Binary


class Table(object):
    def __init__(self, name, cols):
        self.name = name
        self.cols = cols            # [dict(name, affinity, unique, notnull, pk, autoinc)]
        self.rows = []              # [dict col -> value]
        self.seq = 0                # AUTOINCREMENT high-water mark
        self.uniques = []           # [(index name, (cols...))]
        for c in cols:
            if c["unique"] or c["pk"]:
                self.uniques.append(("auto_" + c["name"], (c["name"],)))

    def colnames(self):
        return [c["name"] for c in self.cols]


class Disk(object):
    """durable state behind one database path"""

    def __init__(self):
        self.tables = {}


_DISKS = {}


def reset():
    _DISKS.clear()


def disk(path):
    if path not in _DISKS:
        _DISKS[path] = Disk()
    return _DISKS[path]


# ---- tokenizer / parser ------------------------------------------------------------------------------------------------------------
_TOK = re.compile(r"\s*(?:(?P<num>-?\d+)|(?P<str>'(?:[^']|'')*')|(?P<id>[A-Za-z_][A-Za-z_0-9]*)|(?P<op>!=|<>|<=|>=|[=(),;?*<>]))")


def _tokens(sql):
    out, i = [], 0
    sql = sql.strip()
    while i < len(sql):
        m = _TOK.match(sql, i)
        if not m:
            raise Unsupported("symsql: cannot tokenize %r" % sql[i:i + 20])
        i = m.end()
        if m.group("num") is not None:
            out.append(("num", int(m.group("num"))))
        elif m.group("str") is not None:
            out.append(("str", m.group("str")[1:-1].replace("''", "'")))
        elif m.group("id") is not None:
            out.append(("id", m.group("id")))
        else:
            out.append(("op", m.group("op")))
    return out


class _P(object):
    def __init__(self, toks):
        self.t, self.i = toks, 0

    def peek(self, k=0):
        return self.t[self.i + k] if self.i + k < len(self.t) else ("eof", None)

    def kw(self, *words):
        """consume the keyword sequence if present (case-insensitive)"""
        for j, w in enumerate(words):
            k, v = self.peek(j)
            if k != "id" or v.upper() != w:
                return False
        self.i += len(words)
        return True

    def need_kw(self, *words):
        if not self.kw(*words):
            raise Unsupported("symsql: expected %s near %r" % (" ".join(words), self.peek()))

    def op(self, o):
        if self.peek() == ("op", o):
            self.i += 1
            return True
        return False

    def need_op(self, o):
        if not self.op(o):
            raise Unsupported("symsql: expected %r near %r" % (o, self.peek()))

    def ident(self):
        k, v = self.peek()
        if k != "id":
            raise Unsupported("symsql: expected identifier near %r" % (self.peek(),))
        self.i += 1
        return v

    def end(self):
        self.op(";")
        if self.peek()[0] != "eof":
            raise Unsupported("symsql: trailing tokens %r" % (self.t[self.i:],))


_KEYWORDS = ("AND", "OR", "IS", "NOT", "NULL", "WHERE", "FROM", "SET", "VALUES", "INTO")


def _affinity(typ):
    t = typ.upper()
    if "INT" in t:
        return "INTEGER"
    if "CHAR" in t or "CLOB" in t or "TEXT" in t:
        return "TEXT"
    if "BLOB" in t or t == "":
        return "BLOB"
    if "REAL" in t or "FLOA" in t or "DOUB" in t:
        return "REAL"
    return "NUMERIC"


def _parse_value(p):
    k, v = p.peek()
    if k == "op" and v == "?":
        p.i += 1
        return ("param",)
    if k == "num":
        p.i += 1
        return ("lit", v)
    if k == "str":
        p.i += 1
        return ("lit", v)
    if k == "id" and v.upper() == "NULL":
        p.i += 1
        return ("lit", None)
    if k == "id":
        p.i += 1
        return ("col", v)
    raise Unsupported("symsql: value expected near %r" % (p.peek(),))


def _parse_cmp(p):
    if p.op("("):
        e = _parse_or(p)
        p.need_op(")")
        return e
    a = _parse_value(p)
    if p.kw("IS", "NOT", "NULL"):
        return ("notnull", a)
    if p.kw("IS", "NULL"):
        return ("isnull", a)
    for o in ("=", "!=", "<>", "<=", ">=", "<", ">"):
        if p.op(o):
            return ("cmp", {"<>": "!="}.get(o, o), a, _parse_value(p))
    raise Unsupported("symsql: comparison expected near %r" % (p.peek(),))


def _parse_and(p):
    e = _parse_cmp(p)
    while p.kw("AND"):
        e = ("and", e, _parse_cmp(p))
    return e


def _parse_or(p):
    e = _parse_and(p)
    while p.kw("OR"):
        e = ("or", e, _parse_and(p))
    return e


_CACHE = {}


def parse(sql):
    if sql in _CACHE:
        return _CACHE[sql]
    p = _P(_tokens(sql))
    st = _parse_stmt(p)
    _CACHE[sql] = st
    return st


def _parse_stmt(p):
    if p.kw("CREATE", "TABLE"):
        ine = p.kw("IF", "NOT", "EXISTS")
        name = p.ident()
        p.need_op("(")
        cols = []
        while True:
            cname = p.ident()
            typ = ""
            c = dict(name=cname, unique=False, notnull=False, pk=False, autoinc=False)
            while p.peek() not in (("op", ","), ("op", ")")):
                if p.kw("PRIMARY", "KEY"):
                    c["pk"] = True
                elif p.kw("AUTOINCREMENT"):
                    c["autoinc"] = True
                elif p.kw("UNIQUE"):
                    c["unique"] = True
                elif p.kw("NOT", "NULL"):
                    c["notnull"] = True
                else:
                    typ += p.ident() + " "
            c["affinity"] = _affinity(typ.strip())
            cols.append(c)
            if p.op(")"):
                break
            p.need_op(",")
        p.end()
        return ("create_table", name, cols, ine)
    if p.kw("CREATE", "UNIQUE", "INDEX") or p.kw("CREATE", "INDEX"):
        unique = p.t[p.i - 2][1].upper() == "UNIQUE"
        ine = p.kw("IF", "NOT", "EXISTS")
        iname = p.ident()
        p.need_kw("ON")
        tname = p.ident()
        p.need_op("(")
        cols = [p.ident()]
        while p.op(","):
            cols.append(p.ident())
        p.need_op(")")
        p.end()
        return ("create_index", iname, tname, tuple(cols), unique, ine)
    if p.kw("INSERT"):
        replace = "replace" if p.kw("OR", "REPLACE") else "ignore" if p.kw("OR", "IGNORE") else False
        if not replace:
            p.kw("OR", "ABORT") or p.kw("OR", "FAIL") or p.kw("OR", "ROLLBACK")
        p.need_kw("INTO")
        tname = p.ident()
        p.need_op("(")
        cols = [p.ident()]
        while p.op(","):
            cols.append(p.ident())
        p.need_op(")")
        p.need_kw("VALUES")
        p.need_op("(")
        vals = [_parse_value(p)]
        while p.op(","):
            vals.append(_parse_value(p))
        p.need_op(")")
        p.end()
        if len(vals) != len(cols):
            raise OperationalError("%d values for %d columns" % (len(vals), len(cols)))
        return ("insert", tname, cols, vals, replace)
    if p.kw("DELETE", "FROM"):
        tname = p.ident()
        where = _parse_or(p) if p.kw("WHERE") else None
        p.end()
        return ("delete", tname, where)
    if p.kw("UPDATE"):
        tname = p.ident()
        p.need_kw("SET")
        sets = []
        while True:
            c = p.ident()
            p.need_op("=")
            sets.append((c, _parse_value(p)))
            if not p.op(","):
                break
        where = _parse_or(p) if p.kw("WHERE") else None
        p.end()
        return ("update", tname, sets, where)
    if p.kw("SELECT"):
        cols = []
        while True:
            if p.op("*"):
                cols.append(("star",))
            elif p.peek()[0] in ("num", "str"):
                cols.append(("lit", p.peek()[1]))
                p.i += 1
            else:
                name = p.ident()
                if p.op("("):
                    arg = p.ident()
                    p.need_op(")")
                    cols.append(("agg", name.lower(), arg))
                else:
                    cols.append(("col", name))
            if not p.op(","):
                break
        p.need_kw("FROM")
        tname = p.ident()
        where = _parse_or(p) if p.kw("WHERE") else None
        p.end()
        return ("select", tname, cols, where)
    if p.kw("PRAGMA"):
        name = p.ident().lower()
        val = None
        if p.op("=") or p.op("("):
            k, v = p.peek()
            if k not in ("id", "num", "str"):
                raise Unsupported("symsql: PRAGMA value near %r" % (p.peek(),))
            p.i += 1
            val = v
            p.op(")")
        p.end()
        return ("pragma", name, val)
    raise Unsupported("symsql: unsupported statement near %r" % (p.peek(),))


# the pragmas that decide what a process death leaves behind (everything else sqlite accepts is accepted and ignored here)
JOURNAL_MODES = ("delete", "truncate", "persist", "memory", "wal", "off")
SYNCHRONOUS = {"off": 0, "normal": 1, "full": 2, "extra": 3, 0: 0, 1: 1, 2: 2, 3: 3}


# ---- evaluation --------------------------------------------------------------------------------------------------------------------
def _truth(x):
    """Python truth of a comparison result (a symbolic result branches in the explorer)"""
    return bool(x)


def _coerce(aff, v):
    """column affinity applied to a concrete value (symbolic values are stored as they are)"""
    if aff in ("INTEGER", "NUMERIC") and isinstance(v, str):
        try:
            return int(v)
        except ValueError:
            try:
                return float(v)
            except ValueError:
                return v
    if aff in ("INTEGER", "NUMERIC") and isinstance(v, bool):
        return int(v)
    if aff == "TEXT" and isinstance(v, int) and not isinstance(v, bool):
        return str(v)
    if isinstance(v, (bytearray, memoryview)):
        return bytes(v)
    return v


def _same_class(a, b):
    """storage classes that can compare equal at all (INTEGER/REAL, TEXT, BLOB)"""
    def cls(x):
        n = type(x).__name__
        if isinstance(x, (int, float)) or n in ("SymInt", "SymReal", "SymBool"):
            return "num"
        if isinstance(x, str) or n in ("ZStr", "SymStr", "NumStr", "SymChar"):
            return "text"
        return "blob"
    return cls(a) == cls(b)


class _Eval(object):
    def __init__(self, table, params):
        self.table, self.params, self.pi = table, list(params), 0
        self.aff = {c["name"]: c["affinity"] for c in table.cols}

    def bind(self, node):
        """replace ? by the next parameter (left to right, once per statement)"""
        k = node[0]
        if k == "param":
            if self.pi >= len(self.params):
                raise ProgrammingError("Incorrect number of bindings supplied")
            v = self.params[self.pi]
            self.pi += 1
            return ("lit", v)
        if k in ("and", "or"):
            return (k, self.bind(node[1]), self.bind(node[2]))
        if k == "cmp":
            return ("cmp", node[1], self.bind(node[2]), self.bind(node[3]))
        if k in ("isnull", "notnull"):
            return (k, self.bind(node[1]))
        return node

    def done(self):
        if self.pi != len(self.params):
            raise ProgrammingError("Incorrect number of bindings supplied. The current statement uses %d, and there are %d supplied." % (self.pi, len(self.params)))

    def val(self, node, row):
        if node[0] == "lit":
            return node[1]
        if node[0] == "col":
            if node[1] not in self.aff:
                raise OperationalError("no such column: %s" % node[1])
            return row[node[1]]
        raise Unsupported("symsql: bad value node %r" % (node,))

    def cond(self, node, row):
        k = node[0]
        if k == "and":
            return self.cond(node[1], row) and self.cond(node[2], row)
        if k == "or":
            return self.cond(node[1], row) or self.cond(node[2], row)
        if k == "isnull":
            return self.val(node[1], row) is None
        if k == "notnull":
            return self.val(node[1], row) is not None
        op, a, b = node[1], node[2], node[3]
        x, y = self.val(a, row), self.val(b, row)
        # affinity of the column side is applied to the other side (sqlite's comparison rule)
        if a[0] == "col" and b[0] != "col":
            y = _coerce(self.aff[a[1]], y)
        elif b[0] == "col" and a[0] != "col":
            x = _coerce(self.aff[b[1]], x)
        if x is None or y is None:
            return False                      # NULL compares as unknown
        if not _same_class(x, y):
            return op == "!="
        if op == "=":
            return _truth(x == y)
        if op == "!=":
            return _truth(x != y)
        if op == "<":
            return _truth(x < y)
        if op == "<=":
            return _truth(x <= y)
        if op == ">":
            return _truth(x > y)
        return _truth(x >= y)


class Connection(object):
    def __init__(self, path, isolation_level="", **kw):
        self.path = path
        self.disk = disk(path)
        self.isolation_level = isolation_level
        self.text_factory = str
        self.row_factory = None
        self._work = None               # tables of the open transaction (None = no transaction)
        self._closed = False
        self.boundary = None            # optional callable(what) invoked before every statement / commit (crash injection)
        self.in_transaction = False
        self.pragmas = {"journal_mode": "wal" if getattr(self.disk, "wal", False) else "delete", "synchronous": 2}      # WAL is a property of the file

    # -- transaction plumbing
    def _tables(self, write):
        if self._closed:
            raise ProgrammingError("Cannot operate on a closed database.")
        if write and self.isolation_level is not None and self._work is None:
            self._work = _copy_tables(self.disk.tables)
            self.in_transaction = True
        return self._work if self._work is not None else self.disk.tables

    def commit(self):
        if self._closed:
            raise ProgrammingError("Cannot operate on a closed database.")
        if self.boundary:
            self.boundary("commit")
        if self._work is not None:
            self.disk.tables = self._work
            self._work = None
            self.in_transaction = False

    def rollback(self):
        self._work = None
        self.in_transaction = False

    def close(self):
        self.rollback()
        self._closed = True

    crash = close                           # the process dies: nothing that was not committed survives

    def cursor(self):
        return Cursor(self)

    def execute(self, sql, params=()):
        return Cursor(self).execute(sql, params)

    def __enter__(self):
        return self

    def __exit__(self, et, ev, tb):
        if et is None:
            self.commit()
        else:
            self.rollback()
        return False


def _copy_tables(tables):
    """copy of the table structures; cell values (possibly proxies) are shared, they are immutable"""
    out = {}
    for n, t in tables.items():
        c = Table.__new__(Table)
        c.name, c.cols, c.seq = t.name, t.cols, t.seq
        c.uniques = list(t.uniques)
        c.rows = [dict(r) for r in t.rows]
        out[n] = c
    return out


class Cursor(object):
    def __init__(self, conn):
        self.conn = conn
        self._rows = []
        self.rowcount = -1
        self.lastrowid = None
        self.description = None

    def execute(self, sql, params=()):
        conn = self.conn
        if conn.boundary:
            conn.boundary("execute " + sql.split()[0].upper())
        st = parse(sql)
        kind = st[0]
        self._rows = []
        if kind == "create_table":
            _, name, cols, ine = st
            tables = conn._tables(False)
            if name in tables:
                if not ine:
                    raise OperationalError("table %s already exists" % name)
                return self
            tables[name] = Table(name, cols)
            return self
        if kind == "create_index":
            _, iname, tname, cols, unique, ine = st
            tables = conn._tables(False)
            if tname not in tables:
                raise OperationalError("no such table: main.%s" % tname)
            t = tables[tname]
            for c in cols:
                if c not in t.colnames():
                    raise OperationalError("no such column: %s" % c)
            if any(n == iname for n, _ in t.uniques) or iname in getattr(t, "plain_indexes", ()):
                if not ine:
                    raise OperationalError("index %s already exists" % iname)
                return self
            if unique:
                t.uniques.append((iname, cols))
            else:
                t.plain_indexes = getattr(t, "plain_indexes", ()) + (iname,)
            return self
        if kind == "pragma":
            _, name, val = st
            if name == "journal_mode":
                if val is not None:
                    v = str(val).lower()
                    if v in JOURNAL_MODES and not conn.in_transaction:          # sqlite: the mode cannot change inside a transaction
                        conn.pragmas["journal_mode"] = v
                        conn.disk.wal = v == "wal"
                self._rows = [(self._out(conn.pragmas["journal_mode"]),)]
            elif name == "synchronous":
                if val is not None:
                    v = val.lower() if isinstance(val, str) else val
                    if v in SYNCHRONOUS:
                        conn.pragmas["synchronous"] = SYNCHRONOUS[v]
                else:
                    self._rows = [(conn.pragmas["synchronous"],)]
            elif val is not None:
                conn.pragmas[name] = val
            return self
        tname = st[1]
        write = kind in ("insert", "update", "delete")
        tables = conn._tables(write)
        if tname not in tables:
            raise OperationalError("no such table: %s" % tname)
        t = tables[tname]
        ev = _Eval(t, params)
        if kind == "insert":
            _, _, cols, vals, replace = st
            for c in cols:
                if c not in t.colnames():
                    raise OperationalError("table %s has no column named %s" % (tname, c))
            row = {c["name"]: None for c in t.cols}
            for c, v in zip(cols, vals):
                v = ev.bind(v)
                row[c] = _coerce(ev.aff[c], ev.val(v, None) if v[0] == "lit" else None)
            ev.done()
            for c in t.cols:
                if c["notnull"] and row[c["name"]] is None and not c["pk"]:
                    raise IntegrityError("NOT NULL constraint failed: %s.%s" % (tname, c["name"]))
            pk = [c for c in t.cols if c["pk"] and c["affinity"] == "INTEGER"]
            if pk and row[pk[0]["name"]] is None:
                mx = max([r[pk[0]["name"]] for r in t.rows] + [0])
                rid = max(mx, t.seq if pk[0]["autoinc"] else 0) + 1
                row[pk[0]["name"]] = rid
            # uniqueness
            conflicts = []
            for iname, ucols in t.uniques:
                if any(row[c] is None for c in ucols):
                    continue                 # NULLs never conflict
                for r in t.rows:
                    if r in conflicts:
                        continue
                    if all(r[c] is not None and _same_class(r[c], row[c]) and _truth(r[c] == row[c]) for c in ucols):
                        if not replace:
                            raise IntegrityError("UNIQUE constraint failed: %s" % ", ".join("%s.%s" % (tname, c) for c in ucols))
                        conflicts.append(r)
            if conflicts and replace == "ignore":
                self.rowcount = 0
                self._autocommit(write)
                return self
            for r in conflicts:
                t.rows.remove(r)
            t.rows.append(row)
            if pk:
                t.seq = max(t.seq, row[pk[0]["name"]]) if isinstance(row[pk[0]["name"]], int) else t.seq
                self.lastrowid = row[pk[0]["name"]]
            self.rowcount = 1
            self._autocommit(write)
            return self
        if kind == "delete":
            where = ev.bind(st[2]) if st[2] is not None else None
            ev.done()
            keep = [r for r in t.rows if not (where is None or ev.cond(where, r))]
            self.rowcount = len(t.rows) - len(keep)
            t.rows = keep
            self._autocommit(write)
            return self
        if kind == "update":
            _, _, sets, where = st
            sets = [(c, ev.bind(v)) for c, v in sets]
            where = ev.bind(where) if where is not None else None
            ev.done()
            n = 0
            for c, _v in sets:
                if c not in t.colnames():
                    raise OperationalError("no such column: %s" % c)
            for r in t.rows:
                if where is None or ev.cond(where, r):
                    new = dict(r)
                    for c, v in sets:
                        new[c] = _coerce(ev.aff[c], ev.val(v, r))
                    for iname, ucols in t.uniques:
                        if any(c in ucols for c, _ in sets) and not any(new[c] is None for c in ucols):
                            for o in t.rows:
                                if o is not r and all(o[c] is not None and _same_class(o[c], new[c]) and _truth(o[c] == new[c]) for c in ucols):
                                    raise IntegrityError("UNIQUE constraint failed: %s" % ", ".join("%s.%s" % (tname, c) for c in ucols))
                    r.update(new)
                    n += 1
            self.rowcount = n
            self._autocommit(write)
            return self
        if kind == "select":
            _, _, cols, where = st
            where = ev.bind(where) if where is not None else None
            ev.done()
            for c in cols:
                if c[0] == "col" and c[1] not in t.colnames():
                    raise OperationalError("no such column: %s" % c[1])
                if c[0] == "agg" and c[2] not in t.colnames():
                    raise OperationalError("no such column: %s" % c[2])
            hits = [r for r in t.rows if where is None or ev.cond(where, r)]
            if any(c[0] == "agg" for c in cols):
                out = []
                for c in cols:
                    if c[0] != "agg":
                        raise Unsupported("symsql: mixing aggregates and columns")
                    vals = [r[c[2]] for r in hits if r[c[2]] is not None]
                    if c[1] == "max":
                        m = None
                        for v in vals:
                            m = v if m is None else (v if _truth(v >= m) else m)
                        out.append(m)
                    elif c[1] == "min":
                        m = None
                        for v in vals:
                            m = v if m is None else (v if _truth(v <= m) else m)
                        out.append(m)
                    elif c[1] == "count":
                        out.append(len(vals))
                    else:
                        raise Unsupported("symsql: aggregate %s" % c[1])
                self._rows = [tuple(out)]
            else:
                self._rows = []
                for r in hits:
                    row = []
                    for c in cols:
                        if c[0] == "star":
                            row += [self._out(r[n]) for n in t.colnames()]
                        elif c[0] == "lit":
                            row.append(self._out(c[1]))
                        else:
                            row.append(self._out(r[c[1]]))
                    self._rows.append(tuple(row))
            return self
        raise Unsupported("symsql: unsupported statement kind %s" % kind)

    def _autocommit(self, write):
        conn = self.conn
        if write and conn.isolation_level is None and conn._work is not None:
            conn.disk.tables = conn._work
            conn._work = None

    def _out(self, v):
        if isinstance(v, str) and self.conn.text_factory is bytes:
            return v.encode("utf-8")
        return v

    def fetchone(self):
        return self._rows.pop(0) if self._rows else None

    def fetchall(self):
        r, self._rows = self._rows, []
        return r

    def __iter__(self):
        return iter(self.fetchall())

    def close(self):
        pass


def connect(path, **kw):
    kw.pop("check_same_thread", None)
    kw.pop("timeout", None)
    if kw.pop("uri", False) and isinstance(path, str) and path.startswith("file:"):
        # sqlite URI file names: the file is what stands between "file:" and the first '?' or '#' (percent-escapes are not modelled)
        path = path[5:]
        for sep in ("?", "#"):
            if sep in path:
                path = path[:path.index(sep)]
    return Connection(path, **kw)


def committed_rows(path, table):
    """what a process started now would read: [dict] of the durable rows"""
    t = disk(path).tables.get(table)
    return [dict(r) for r in t.rows] if t is not None else []
