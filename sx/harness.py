"""helpers shared by the harnesses; every factory works in both modes (symbolic ctx -> proxy value,
concrete replay ctx -> plain Python value built from the solver model)"""
import sys
import z3
from . import core
from .core import SymInt, SymBool, Ctx, toint
from .vals import SymSeq, Piece, Fill, SymStr, SymChar, ZStr, NumStr, Term, blob as _blob


def reset_yowsup():
    """process-wide state that would make re-execution non-deterministic"""
    from . import state
    state.restore()
    m = sys.modules.get("yowsup.structs.protocolentity")
    if m is not None:
        m.ProtocolEntity._ProtocolEntity__ID_GEN = 0
    m = sys.modules.get("yowsup.layers.protocol_messages.protocolentities.attributes.converter")
    if m is not None and hasattr(m, "AttributesConverter"):
        try:
            m.AttributesConverter._AttributesConverter__instance = None
        except Exception:
            pass
    m = sys.modules.get("yowsup.stacks.yowstack")
    if m is not None:
        try:
            q = m.YowStack._YowStack__detachedQueue
            while not q.empty():
                q.get_nowait()
        except Exception:
            pass


def sym(ctx):
    return getattr(ctx, "symbolic", False)


def pattern_bytes(name, n):
    k = sum(name.encode()) % 251
    pat = bytes(((i * 7 + k) % 256) for i in range(256))
    return (pat * (n // 256 + 1))[:n]


def blob(ctx, name, length, kind="bytes"):
    """arbitrary bytes of the given (possibly symbolic) length"""
    if sym(ctx):
        return SymSeq([Piece(name, 0, toint(length))], kind)
    b = bytearray(pattern_bytes(name, int(length)))
    for i, v in (ctx.values.get("arr!%s" % name) or {}).items():      # bytes the violating path looked at (solver model)
        if 0 <= int(i) < len(b):
            b[int(i)] = int(v)
    return bytes(b) if kind == "bytes" else b


def chars(ctx, name, n, lo=0, hi=255):
    """string of n characters with arbitrary code points in [lo, hi]"""
    cs = [ctx.int("%s_%d" % (name, i), lo, hi) for i in range(n)]
    if sym(ctx):
        return SymStr([SymChar(c) for c in cs])
    return "".join(chr(c) for c in cs)


def symbytes(ctx, name, n):
    """n arbitrary byte values (concrete length)"""
    cs = [ctx.int("%s_%d" % (name, i), 0, 255) for i in range(n)]
    if sym(ctx):
        return SymSeq(cs, "bytes")
    return bytes(cs)


def zstr(ctx, name, nonempty=True, maxlen=None, charset=None):
    if sym(ctx):
        t = z3.String(name)
        ctx.vars[name] = ("str", t, None)
        if nonempty:
            ctx.assume(z3.Length(t) > 0)
        if maxlen is not None:
            ctx.assume(z3.Length(t) <= maxlen)
        if charset is not None:
            ctx.assume(z3.InRe(t, charset))
        return ZStr(t)
    return ctx._val(name) if hasattr(ctx, "_val") else ctx.values[name]


def numstr(ctx, name, lo=0, hi=None):
    n = ctx.int(name, lo, hi)
    if sym(ctx):
        return NumStr(n.t)
    return str(n)


def eq(a, b):
    return core.eq(a, b)


def all_of(obs):
    return core.conj(*obs)


def is_true(x):
    """python truth of an obligation-like value in concrete mode; z3 term otherwise"""
    if isinstance(x, SymBool):
        return x.t
    return x


def rope_eq(a, b):
    """equality of two byte strings (ropes or bytes) as an obligation term"""
    if isinstance(a, SymSeq):
        return a.eq_term(b)
    if isinstance(b, SymSeq):
        return b.eq_term(a)
    if a is None or b is None:
        return a is b
    if type(a).__name__ == "ZBytes" or type(b).__name__ == "ZBytes":
        return core.eq(a, b)
    return bytes(a) == bytes(b)


def length_of(x):
    if isinstance(x, SymSeq):
        return x.length()
    if isinstance(x, ZStr):
        return x.length()
    return len(x)
