"""sx core: path exploration by re-execution over z3, symbolic booleans and integers.

The code under test is ordinary Python (instrumented by sx.loader); it runs natively on proxy values.
A branch on a symbolic condition happens in SymBool.__bool__, which asks the current context.  The
context explores all feasible paths depth-first by re-running the harness from scratch with a
recorded decision prefix.  The same harness can also be run with a ConcreteCtx (plain Python values,
uninstrumented code) -- that is how every solver model is replayed against the real code.
"""
import time, signal
import z3


class SxControl(BaseException):
    """engine control flow; BaseException so that `except Exception` in the code under test does not eat it"""


class Infeasible(SxControl):
    pass


class Unsupported(SxControl):
    pass


class Unknown(SxControl):
    """solver returned unknown / budget exceeded: the case is inconclusive"""


class Unrealisable(SxControl):
    """replay only: the harness could not construct a concrete input matching the solver model within its budget
    (e.g. a real key pair whose public key has three given bytes); the counterexample stays unconfirmed"""


class ReplayMismatch(SxControl):
    pass


class Sym(object):
    """marker base class of all proxy values"""
    __slots__ = ()


def is_sym(x):
    return isinstance(x, Sym)


# ---------------------------------------------------------------------------------------------
CTX = None           # current context (symbolic or concrete)
QUERY_TIMEOUT_MS = 20000
QUERY_RLIMIT = 0     # 0 = unlimited
import os as _os
DEBUG_SLOW = float(_os.environ.get('SX_DEBUG_SLOW', '0') or 0)


def cur():
    return CTX


def symbolic_mode():
    return isinstance(CTX, Ctx)


class Ctx:
    """symbolic context of ONE path"""

    def __init__(self, decisions):
        self.solver = z3.Solver()
        self.solver.set("timeout", QUERY_TIMEOUT_MS)
        if QUERY_RLIMIT:
            self.solver.set("rlimit", QUERY_RLIMIT)
        self.decisions = decisions     # list of [value, alt_pending, cond]
        self.pos = 0
        self.pc = []
        self.queries = 0
        self.solver_s = 0.0
        self.vars = {}                 # name -> (kind, term, extra)
        self.notes = []                # free-form per path notes (go to samples)
        self.fresh = 0
        self.selects = {}              # array name -> [(index term, select term)] of named input blobs
        self.symbolic = True
        self._grp = {}                 # union-find parent: var key -> var key
        self._cons = {}                # root var key -> list of constraints
        self._novars = []              # constraints without free variables
        self._gsolver = {}             # root var key -> [solver, number of group constraints already added]

    # -- solver -------------------------------------------------------------------------------
    def _find(self, v):
        g = self._grp
        r = v
        while g.get(r, r) != r:
            r = g[r]
        while g.get(v, v) != r:
            g[v], v = r, g[v]
        return r

    def add(self, c):
        """add a constraint to the path condition (full solver + independence groups)"""
        self.solver.add(c)
        self.pc.append(c)
        vs = free_vars(c)
        if not vs:
            self._novars.append(c)
            return
        roots = set(self._find(v) for v in vs)
        it = iter(roots)
        r0 = next(it)
        self._grp.setdefault(r0, r0)
        lst = self._cons.setdefault(r0, [])
        for r in it:
            self._grp[r] = r0
            lst.extend(self._cons.pop(r, []))
            self._gsolver.pop(r, None)
            self._gsolver.pop(r0, None)
        for v in vs:
            if v not in self._grp:
                self._grp[v] = r0
        lst.append(c)

    def relevant(self, extra):
        """constraints of the path condition that share variables (transitively) with the query"""
        roots = set()
        for e in extra:
            for v in free_vars(e):
                if v in self._grp:
                    roots.add(self._find(v))
        out = list(self._novars)
        for r in roots:
            out.extend(self._cons.get(r, ()))
        return out

    def check(self, *extra):
        t = time.time()
        if DEADLINE and t > DEADLINE:
            raise CaseTimeout()
        self.queries += 1
        if extra and SLICING:
            # constraint independence: the path condition is satisfiable as a whole (invariant), so only the
            # constraints connected to the query through shared variables can influence the answer
            roots = set()
            for e in extra:
                for v in free_vars(e):
                    if v in self._grp:
                        roots.add(self._find(v))
            nrel = sum(len(self._cons.get(r, ())) for r in roots) + len(self._novars)
            if nrel < len(self.pc):
                if len(roots) == 1 and not self._novars:
                    # incremental solver per independence group
                    (r0,) = roots
                    lst = self._cons.get(r0, [])
                    gs = self._gsolver.get(r0)
                    if gs is None:
                        s2 = z3.Solver()
                        s2.set("timeout", QUERY_TIMEOUT_MS)
                        gs = self._gsolver[r0] = [s2, 0]
                    s2 = gs[0]
                    if gs[1] < len(lst):
                        s2.add(lst[gs[1]:])
                        gs[1] = len(lst)
                else:
                    s2 = z3.Solver()
                    s2.set("timeout", QUERY_TIMEOUT_MS)
                    s2.add(self.relevant(extra))
                r = s2.check(*extra)
                self._last = s2
                dt = time.time() - t
                self.solver_s += dt
                if DEBUG_SLOW and dt > DEBUG_SLOW:
                    import sys
                    sys.stderr.write("SLOW(sliced %d/%d) %.1fs %s extra=%s\n" % (nrel, len(self.pc), dt, r, [str(e)[:300] for e in extra]))
                return r
        self._last = self.solver
        r = self.solver.check(*extra)
        dt = time.time() - t
        self.solver_s += dt
        if DEBUG_SLOW and dt > DEBUG_SLOW:
            import sys
            sys.stderr.write("SLOW %.1fs %s extra=%s\n   pc=%s\n" % (dt, r, [str(e)[:300] for e in extra], [str(p)[:200] for p in self.pc][-12:]))
        return r

    def is_sat(self, *extra):
        r = self.check(*extra)
        if r == z3.unknown:
            raise Unknown("solver unknown: %s" % self.solver.reason_unknown())
        return r == z3.sat

    def branch(self, cond):
        if isinstance(cond, bool):
            return cond
        cond = z3.simplify(cond)
        if z3.is_true(cond):
            return True
        if z3.is_false(cond):
            return False
        if self.pos < len(self.decisions):
            d = self.decisions[self.pos]
            v = d[0]
            if not d[2].eq(cond):
                raise ReplayMismatch("decision %d: recorded %s, now %s" % (self.pos, d[2], cond))
        else:
            can_t = self.is_sat(cond)
            can_f = True if not can_t else self.is_sat(z3.Not(cond))
            if can_t and can_f:
                self.decisions.append([True, True, cond])
                v = True
            elif can_t:
                self.decisions.append([True, False, cond])
                v = True
            else:
                # the path condition is satisfiable (invariant), so not(cond) must be
                self.decisions.append([False, False, cond])
                v = False
        self.pos += 1
        c = cond if v else z3.Not(cond)
        self.add(c)
        return v

    def assume(self, cond):
        if isinstance(cond, SymBool):
            cond = cond.t
        if isinstance(cond, bool):
            if not cond:
                raise Infeasible()
            return
        self.add(cond)
        if self.pos >= len(self.decisions):      # only check on the frontier; replayed prefixes were checked
            if not self.is_sat(cond):
                raise Infeasible()

    # -- declaring symbolic inputs ------------------------------------------------------------
    def int(self, name, lo=None, hi=None):
        """symbolic integer in [lo, hi] (inclusive)"""
        t = z3.Int(name)
        self.vars[name] = ("int", t, None)
        if lo is not None:
            self.assume(t >= lo)
        if hi is not None:
            self.assume(t <= hi)
        ub = hi + 1 if (hi is not None and lo is not None and lo >= 0) else None
        return SymInt(t, ub=ub)

    def bool(self, name):
        t = z3.Bool(name)
        self.vars[name] = ("bool", t, None)
        return SymBool(t)

    def real(self, name, lo=None, hi=None):
        t = z3.Real(name)
        self.vars[name] = ("real", t, None)
        if lo is not None:
            self.assume(t >= lo)
        if hi is not None:
            self.assume(t <= hi)
        return SymReal(t)

    def choice(self, name, options):
        """solver-driven discrete choice: returns one element of options per path (all are explored)"""
        options = list(options)
        if len(options) == 1:
            self.vars[name] = ("const", None, 0)
            return options[0]
        t = z3.Int(name)
        self.vars[name] = ("int", t, None)
        self.assume(z3.And(t >= 0, t < len(options)))
        for i in range(len(options) - 1):
            if self.branch(t == i):
                return options[i]
        return options[-1]

    def flag(self, name):
        """solver-driven Boolean choice made concrete on each path"""
        return bool(self.bool(name))

    def note(self, x):
        self.notes.append(x)

    def fresh_name(self, prefix):
        self.fresh += 1
        return "%s!%d" % (prefix, self.fresh)

    # -- models ------------------------------------------------------------------------------
    def model_values(self, model):
        out = {}
        for name, (kind, t, extra) in self.vars.items():
            if kind == "const":
                out[name] = extra
                continue
            v = model.eval(t, model_completion=True)
            if kind == "int":
                out[name] = v.as_long()
            elif kind == "bool":
                out[name] = bool(z3.is_true(v))
            elif kind == "real":
                out[name] = float(v.numerator_as_long()) / float(v.denominator_as_long()) if z3.is_rational_value(v) else 0.0
            elif kind == "str":
                out[name] = zstr_value(v)
            elif kind == "blob":
                ln = model.eval(extra, model_completion=True).as_long()
                out[name] = {"blob_len": ln}
        for name, sel in self.selects.items():
            d = {}
            for idx, t in sel:
                i = model.eval(idx, model_completion=True)
                v = model.eval(t, model_completion=True)
                if z3.is_int_value(i) and z3.is_int_value(v):
                    d[str(i.as_long())] = v.as_long()
            if d:
                out[name] = d
        return out


SLICING = True
DEADLINE = 0
_FV_CACHE = {}


def free_vars(e):
    """keys of the uninterpreted symbols (constants, arrays, functions) occurring in a z3 expression"""
    k = e.get_id()
    r = _FV_CACHE.get(k)
    if r is not None:
        return r[1]
    out = set()
    seen = set()
    stack = [e]
    while stack:
        x = stack.pop()
        i = x.get_id()
        if i in seen:
            continue
        seen.add(i)
        c = _FV_CACHE.get(i)
        if c is not None:
            out |= c[1]
            continue
        if z3.is_app(x):
            d = x.decl()
            if d.kind() == z3.Z3_OP_UNINTERPRETED:
                out.add(d.name())
            stack.extend(x.children())
        elif z3.is_quantifier(x):
            stack.append(x.body())
    r = frozenset(out)
    if len(_FV_CACHE) > 200000:
        _FV_CACHE.clear()
    _FV_CACHE[k] = (e, r)      # the entry keeps the AST alive, so its id cannot be reused while cached
    return r


def zstr_value(v):
    try:
        return v.as_string() if not hasattr(v, "py_value") else v.py_value()
    except Exception:
        s = v.as_string()
        return s


class ConcreteCtx:
    """replay context: declared inputs take the values of a solver model; code under test is the
    uninstrumented real code"""
    symbolic = False

    def __init__(self, values):
        self.values = values
        self.notes = []
        self.vars = {}

    def branch(self, cond):
        return bool(cond)

    def assume(self, cond):
        if not bool(cond):
            raise Infeasible()

    def _val(self, name):
        if name not in self.values:
            raise Unrealisable("the stored model has no value for input %r (recorded by an older version of the harness)" % name)
        return self.values[name]

    def int(self, name, lo=None, hi=None):
        v = int(self._val(name))
        if (lo is not None and v < lo) or (hi is not None and v > hi):
            raise Infeasible()
        return v

    def bool(self, name):
        return bool(self._val(name))

    def real(self, name, lo=None, hi=None):
        return float(self._val(name))

    flag = bool

    def choice(self, name, options):
        options = list(options)
        if len(options) == 1:
            return options[0]
        return options[int(self._val(name))]

    def note(self, x):
        self.notes.append(x)


# ---------------------------------------------------------------------------------------------
class SymBool(Sym):
    __slots__ = ("t",)

    def __init__(self, t):
        self.t = t

    def __bool__(self):
        return CTX.branch(self.t)

    def __invert__(self):
        return SymBool(z3.Not(self.t))

    def __and__(self, o):
        return SymBool(z3.And(self.t, tobool(o)))
    __rand__ = __and__

    def __or__(self, o):
        return SymBool(z3.Or(self.t, tobool(o)))
    __ror__ = __or__

    def __eq__(self, o):
        return SymBool(self.t == tobool(o))

    def __ne__(self, o):
        return SymBool(self.t != tobool(o))

    def __hash__(self):
        raise Unsupported("hash of symbolic bool")

    def __int__(self):
        return SymInt(z3.If(self.t, z3.IntVal(1), z3.IntVal(0)), ub=2)

    def __repr__(self):
        return "SymBool(%s)" % self.t


def tobool(x):
    if isinstance(x, SymBool):
        return x.t
    if isinstance(x, z3.BoolRef):
        return x
    if isinstance(x, bool):
        return z3.BoolVal(x)
    if isinstance(x, SymInt):
        return x.t != 0
    raise Unsupported("tobool %r" % (x,))


def toint(x):
    """python int / SymInt / z3 Int term -> z3 Int term"""
    if isinstance(x, SymInt):
        return x.t
    if isinstance(x, bool):
        return z3.IntVal(int(x))
    if isinstance(x, int):
        return z3.IntVal(x)
    if isinstance(x, z3.ArithRef):
        return x
    if isinstance(x, SymBool):
        return z3.If(x.t, z3.IntVal(1), z3.IntVal(0))
    raise Unsupported("toint %r" % (type(x),))


def _ub(x):
    if isinstance(x, SymInt):
        return x.ub
    if isinstance(x, int) and x >= 0:
        return x + 1
    return None


def _tz(x):
    if isinstance(x, SymInt):
        return x.tz
    if isinstance(x, int):
        if x == 0:
            return 1 << 30
        return (x & -x).bit_length() - 1
    return 0


def _is_contig_mask(m):
    """m = 2^h - 2^l for some h > l >= 0  -> (l, h) else None"""
    if m <= 0:
        return None
    l = (m & -m).bit_length() - 1
    x = m >> l
    if x & (x + 1) == 0:
        return l, l + x.bit_length()
    return None


class SymInt(Sym):
    """mathematical integer term; `ub` = known exclusive upper bound of a value known to be >= 0
    (None = nothing known), `tz` = number of low bits known to be zero"""
    __slots__ = ("t", "ub", "tz", "nib")     # nib: the hex digit value this character code was rendered from (hexlify/format), if any

    def __init__(self, t, ub=None, tz=0):
        self.t = t
        self.ub = ub
        self.tz = tz

    def _mk(self, t, ub=None, tz=0):
        return SymInt(z3.simplify(t), ub, tz)

    # arithmetic
    def __add__(s, o):
        if not _intlike(o):
            return NotImplemented
        ub = None
        if s.ub is not None and _ub(o) is not None:
            ub = s.ub + _ub(o) - 1
        return s._mk(s.t + toint(o), ub, min(s.tz, _tz(o)))
    __radd__ = __add__

    def __sub__(s, o):
        if not _intlike(o):
            return NotImplemented
        return s._mk(s.t - toint(o))

    def __rsub__(s, o):
        if not _intlike(o):
            return NotImplemented
        return s._mk(toint(o) - s.t)

    def __neg__(s):
        return s._mk(-s.t)

    def __mul__(s, o):
        if isinstance(o, list) and len(o) == 1:
            return FillList(o[0], s)          # [x] * n with symbolic n
        if not _intlike(o):
            return NotImplemented
        ub = None
        if isinstance(o, int) and not isinstance(o, bool) and o > 0 and s.ub is not None:
            ub = (s.ub - 1) * o + 1
        return s._mk(s.t * toint(o), ub)
    __rmul__ = __mul__

    def __floordiv__(s, o):
        if not _intlike(o):
            return NotImplemented
        if isinstance(o, int) and o > 0:
            return s._mk(s.t / o, None if s.ub is None else (s.ub - 1) // o + 1)
        return s._mk(pyfloordiv(s.t, toint(o)))

    def __rfloordiv__(s, o):
        return s._mk(pyfloordiv(toint(o), s.t))

    def __mod__(s, o):
        if not _intlike(o):
            return NotImplemented
        if isinstance(o, int) and o > 0:
            return s._mk(s.t % o, o)
        return s._mk(pymod(s.t, toint(o)))

    def __rmod__(s, o):
        return s._mk(pymod(toint(o), s.t))

    def __truediv__(s, o):
        return SymReal(z3.ToReal(s.t) / toreal(o))

    def __rtruediv__(s, o):
        return SymReal(toreal(o) / z3.ToReal(s.t))

    # bit operations, lowered to div/mod by constants
    def __and__(s, o):
        if isinstance(o, SymInt):
            return s._bv(o, lambda a, b: a & b)
        if not isinstance(o, int):
            return NotImplemented
        if o == 0:
            return 0
        if o < 0:
            return s._bv(o, lambda a, b: a & b)
        if o & (o + 1) == 0:
            return s._mk(s.t % (o + 1), min(o + 1, s.ub) if s.ub else o + 1)
        lh = _is_contig_mask(o)
        if lh:
            l, h = lh
            return s._mk(s.t % (1 << h) - s.t % (1 << l), (1 << h) - (1 << l) + 1, l)
        return s._bv(o, lambda a, b: a & b)
    __rand__ = __and__

    def __lshift__(s, o):
        if not isinstance(o, int):
            raise Unsupported("shift by symbolic amount")
        return s._mk(s.t * (1 << o), None if s.ub is None else ((s.ub - 1) << o) + 1, s.tz + o)

    def __rshift__(s, o):
        if not isinstance(o, int):
            raise Unsupported("shift by symbolic amount")
        return s._mk(s.t / (1 << o), None if s.ub is None else ((s.ub - 1) >> o) + 1, max(s.tz - o, 0))

    def __rlshift__(s, o):
        raise Unsupported("shift by symbolic amount")
    __rrshift__ = __rlshift__

    def __or__(s, o):
        if not _intlike(o):
            return NotImplemented
        if isinstance(o, int) and o == 0:
            return s
        # disjoint bit ranges -> plus
        ua, ub_ = s.ub, _ub(o)
        if ub_ is not None and s.tz >= (ub_ - 1).bit_length():
            return s + o
        if ua is not None and _tz(o) >= (ua - 1).bit_length():
            return s + o
        # metadata insufficient: ask the solver whether, under the current path condition, one operand fits below
        # the other's known trailing zero bits (then a|b == a+b)
        if CTX is not None and symbolic_mode():
            for a, b in ((s, o), (o, s)):
                k = _tz(a)
                if 0 < k < (1 << 20):
                    bt = toint(b)
                    if not CTX.is_sat(z3.Or(bt < 0, bt >= (1 << k))):
                        return s + o
        return s._bv(o, lambda a, b: a | b)
    __ror__ = __or__

    def __xor__(s, o):
        if not _intlike(o):
            return NotImplemented
        return s._bv(o, lambda a, b: a ^ b)
    __rxor__ = __xor__

    def _bv(s, o, f, W=64):
        """fallback: 64-bit round trip; sound only for 0 <= operands < 2^63, which is checked"""
        a, b = s.t, toint(o)
        for x in (a, b):
            if CTX is not None and symbolic_mode():
                if CTX.is_sat(z3.Or(x < 0, x >= (1 << 63))):
                    raise Unsupported("bit operation on value outside [0,2^63)")
        r = z3.BV2Int(f(z3.Int2BV(a, W), z3.Int2BV(b, W)), False)
        return s._mk(r)

    # comparisons
    def _c(s, o, f):
        if isinstance(o, SymReal):
            return SymBool(f(z3.ToReal(s.t), o.t))
        if isinstance(o, float):
            return SymBool(f(z3.ToReal(s.t), z3.RealVal(o)))
        if not _intlike(o):
            return NotImplemented
        return SymBool(z3.simplify(f(s.t, toint(o))))

    def __eq__(s, o):
        r = s._c(o, lambda a, b: a == b)
        return False if r is NotImplemented else r

    def __ne__(s, o):
        r = s._c(o, lambda a, b: a != b)
        return True if r is NotImplemented else r

    def __lt__(s, o): return s._c(o, lambda a, b: a < b)
    def __le__(s, o): return s._c(o, lambda a, b: a <= b)
    def __gt__(s, o): return s._c(o, lambda a, b: a > b)
    def __ge__(s, o): return s._c(o, lambda a, b: a >= b)

    def __bool__(s):
        return CTX.branch(s.t != 0)

    def __hash__(self):
        raise Unsupported("hash of symbolic int")

    def __index__(self):
        raise Unsupported("concretisation of SymInt at a C boundary (__index__)")

    def __int__(self):
        raise Unsupported("int() of SymInt outside the call hook")

    def __abs__(s):
        return s._mk(z3.If(s.t >= 0, s.t, -s.t))

    def __repr__(self):
        return "SymInt(%s)" % self.t

    __str__ = __repr__


class FillList(Sym):
    """[value] * count with a symbolic count (only convertible to bytes/bytearray)"""
    __slots__ = ("value", "count")

    def __init__(self, value, count):
        self.value, self.count = value, count


class SymReal(Sym):
    """result of true division of symbolic ints; exact rationals (floats treated as reals: values
    below 2^53 assumed, stated in DESIGN.md)"""
    __slots__ = ("t",)

    def __init__(self, t):
        self.t = z3.simplify(t)

    def _b(s, o, f):
        return SymReal(f(s.t, toreal(o)))

    def __add__(s, o): return s._b(o, lambda a, b: a + b)
    __radd__ = __add__
    def __sub__(s, o): return s._b(o, lambda a, b: a - b)
    def __rsub__(s, o): return s._b(o, lambda a, b: b - a)
    def __mul__(s, o): return s._b(o, lambda a, b: a * b)
    __rmul__ = __mul__
    def __truediv__(s, o): return s._b(o, lambda a, b: a / b)

    def _c(s, o, f):
        return SymBool(z3.simplify(f(s.t, toreal(o))))

    def __eq__(s, o): return s._c(o, lambda a, b: a == b)
    def __ne__(s, o): return s._c(o, lambda a, b: a != b)
    def __lt__(s, o): return s._c(o, lambda a, b: a < b)
    def __le__(s, o): return s._c(o, lambda a, b: a <= b)
    def __gt__(s, o): return s._c(o, lambda a, b: a > b)
    def __ge__(s, o): return s._c(o, lambda a, b: a >= b)

    def __hash__(self):
        raise Unsupported("hash of symbolic real")

    def __bool__(s):
        # truthiness of a float: everything but 0.0 (the code under test may write `if x:` where it means `if x is not None:`)
        return CTX.branch(s.t != 0)

    def trunc(s):
        """int(x): truncation toward zero"""
        fl = z3.ToInt(s.t)
        return SymInt(z3.simplify(z3.If(s.t >= 0, fl, -z3.ToInt(-s.t))))

    def floor(s):
        return SymInt(z3.simplify(z3.ToInt(s.t)))

    def __repr__(self):
        return "SymReal(%s)" % self.t


def toreal(x):
    if isinstance(x, SymReal):
        return x.t
    if isinstance(x, SymInt):
        return z3.ToReal(x.t)
    if isinstance(x, bool):
        return z3.RealVal(int(x))
    if isinstance(x, int):
        return z3.RealVal(x)
    if isinstance(x, float):
        return z3.RealVal(repr(x))
    raise Unsupported("toreal %r" % (x,))


def _intlike(o):
    return isinstance(o, (int, SymInt, SymBool)) and not isinstance(o, float)


def pyfloordiv(a, b):
    # z3 Int division is Euclidean (remainder always >= 0); Python floors.
    q = a / b
    return z3.If(b > 0, q, z3.If(a % b == 0, q, q - 1))


def pymod(a, b):
    r = a % b
    return z3.If(b > 0, r, z3.If(r == 0, r, r + b))


def ite(c, a, b):
    """symbolic if-then-else over ints without forking"""
    if isinstance(c, bool):
        return a if c else b
    return SymInt(z3.simplify(z3.If(tobool(c), toint(a), toint(b))))


def eq(a, b):
    """equality as an obligation term: z3 Bool or python bool"""
    r = (a == b)
    if isinstance(r, SymBool):
        return r.t
    if r is NotImplemented:
        return False
    return bool(r)


def conj(*xs):
    ts = []
    for x in xs:
        if isinstance(x, SymBool):
            x = x.t
        if isinstance(x, bool):
            if not x:
                return False
            continue
        ts.append(x)
    if not ts:
        return True
    return z3.And(ts)


# ---------------------------------------------------------------------------------------------
class PathBudget(SxControl):
    pass


class CaseTimeout(SxControl):
    pass


def _alarm(signum, frame):
    raise CaseTimeout()


_PROXY_NAMES = ("SymSeq", "SymInt", "SymBool", "SymReal", "SymStr", "SymChar", "ZStr", "ZBytes", "NumStr", "'Gen'", "SymKey", "Piece")


_VERIF_DIR = __import__("os").path.dirname(__import__("os").path.dirname(__import__("os").path.abspath(__file__)))
_OUT_OF_SYNC = (AttributeError, KeyError, TypeError, NameError, IndexError, ImportError)


class HarnessOutOfSync(Exception):
    """raised by a harness that finds its wiring into the code under test did not take effect (an internal name changed)"""


def harness_out_of_sync(e):
    """an exception of the 'name / shape not as expected' kind whose innermost frame is the harness's own code (checks/, sx/, ref/), not the
    code under test: the harness could not drive this tree (e.g. an internal attribute it reaches into was renamed).  That is a harness
    error, never a finding.  Exceptions the doubles raise on purpose (RuntimeError, ValueError, ...) are not of this kind."""
    if isinstance(e, HarnessOutOfSync):
        return True
    if not isinstance(e, _OUT_OF_SYNC):
        return False
    tb = e.__traceback__
    last = None
    while tb is not None:
        last = tb
        tb = tb.tb_next
    if last is None:
        return False
    fn = __import__("os").path.abspath(last.tb_frame.f_code.co_filename)
    return fn.startswith(_VERIF_DIR + "/checks/") or fn.startswith(_VERIF_DIR + "/ref/") or (fn.startswith(_VERIF_DIR + "/sx/") and not fn.endswith("hooks.py") and not fn.endswith("vals.py") and not fn.endswith("symsql.py") and not fn.endswith("symre.py") and not fn.endswith("protostub.py") and not fn.endswith("crypto_models.py"))


def _harness_class_names():
    out = set()
    import sys as _s
    for n, m in list(_s.modules.items()):
        if m is not None and (n.startswith("checks.") or n == "checks" or n in ("sx.crypto_models", "sx.protostub", "sx.symsql")):
            for k, v in list(vars(m).items()):
                if isinstance(v, type) and getattr(v, "__module__", "").startswith(("checks", "sx.")):
                    out.add(k)
    return out


def stub_incomplete(e):
    """the code under test asked a stand-in object of the harness for something it does not have: a limitation of the stand-in"""
    if not isinstance(e, AttributeError):
        return False
    import re as _r
    m = _r.search(r"'(\w+)' object has no attribute", str(e)) or _r.search(r"type object '(\w+)' has no attribute", str(e))
    return bool(m) and m.group(1) in _harness_class_names()


def _all_proxy_names():
    out, todo = set(_PROXY_NAMES), [Sym]
    while todo:
        k = todo.pop()
        out.add("'%s'" % k.__name__)
        todo.extend(k.__subclasses__())
    return out


def _proxy_leak(e):
    """an exception raised because a proxy value reached C-level code is an engine limitation, not behaviour of the code under test"""
    if not isinstance(e, (TypeError, AttributeError, ValueError)):
        return False
    m = str(e)
    return any(n in m for n in _all_proxy_names())


def explore(fn, max_paths=20000, timeout_s=None, want_samples=True, expected=()):
    """Explore all feasible paths of fn(ctx).  fn returns a list of (label, obligation) with
    obligation a z3 Bool or python bool.  Returns a stats dict; violations carry the model values."""
    global CTX
    decisions = []
    st = dict(paths=0, infeasible=0, obligations=0, discharged=0, queries=0, solver_s=0.0,
              violations=[], inconclusive=[], samples=[], complete=False, max_decisions=0)
    old = None
    global DEADLINE
    if timeout_s:
        # cooperative deadline (checked before every solver call); the alarm is only a backstop for code that never reaches the solver
        DEADLINE = time.time() + timeout_s
        old = signal.signal(signal.SIGALRM, _alarm)
        signal.setitimer(signal.ITIMER_REAL, timeout_s * 1.5 + 5)
    try:
        while True:
            ctx = Ctx(decisions)
            CTX = ctx
            try:
                try:
                    obligations = fn(ctx)
                    st["paths"] += 1
                    sample = None
                    if want_samples:
                        if ctx.check() == z3.sat:
                            sample = ctx.model_values(ctx.solver.model())
                            st["samples"].append({"values": sample, "notes": list(ctx.notes)})
                    for label, ob in obligations:
                        st["obligations"] += 1
                        if isinstance(ob, SymBool):
                            ob = ob.t
                        if isinstance(ob, bool):
                            if ob:
                                st["discharged"] += 1
                            else:
                                if sample is None:
                                    ctx.check()
                                    sample = ctx.model_values(ctx.solver.model())
                                st["violations"].append({"label": label, "values": sample, "kind": "obligation", "notes": list(ctx.notes)})
                            continue
                        r = ctx.check(z3.Not(ob))
                        if r == z3.unknown and z3.is_and(ob):
                            # discharge a large conjunction conjunct by conjunct (each is sliced separately)
                            r = z3.unsat
                            for cj in ob.children():
                                rj = ctx.check(z3.Not(cj))
                                if rj != z3.unsat:
                                    r = rj
                                    ob = cj
                                    break
                        if r == z3.unsat:
                            st["discharged"] += 1
                        elif r == z3.sat:
                            if ctx._last is not ctx.solver:
                                if ctx.solver.check(z3.Not(ob)) != z3.sat:
                                    st["inconclusive"].append("unknown: full model for violated obligation %s" % label)
                                    continue
                            st["violations"].append({"label": label, "values": ctx.model_values(ctx.solver.model()),
                                                     "kind": "obligation", "notes": list(ctx.notes)})
                        else:
                            st["inconclusive"].append("unknown: obligation %s" % label)
                except Infeasible:
                    st["infeasible"] += 1
                except (Unknown, Unsupported, ReplayMismatch) as e:
                    st["inconclusive"].append("%s: %s" % (type(e).__name__, e))
                except CaseTimeout:
                    raise
                except SxControl as e:
                    st["inconclusive"].append("%s: %s" % (type(e).__name__, e))
                except Exception as e:
                    if expected and isinstance(e, expected):
                        st["paths"] += 1
                    elif _proxy_leak(e):
                        st["inconclusive"].append("Unsupported: proxy reached C-level code: %s: %s" % (type(e).__name__, str(e)[:160]))
                    elif stub_incomplete(e):
                        st["inconclusive"].append("Unsupported: a stand-in object of the harness lacks what the code asked for: %s" % str(e)[:160])
                    elif harness_out_of_sync(e):
                        import traceback
                        tb = traceback.extract_tb(e.__traceback__)
                        st.setdefault("harness_errors", []).append("harness out of sync with this tree: %s: %s at %s:%d" % (type(e).__name__, str(e)[:160], tb[-1].filename.split("/")[-1], tb[-1].lineno))
                    else:
                        st["paths"] += 1
                        import traceback
                        tb = traceback.extract_tb(e.__traceback__)
                        where = "; ".join("%s:%d %s" % (f.filename.split("/")[-1], f.lineno, f.name) for f in tb[-4:])
                        r = ctx.check()
                        vals = ctx.model_values(ctx.solver.model()) if r == z3.sat else None
                        st["violations"].append({"label": "raised %s: %s" % (type(e).__name__, str(e)[:200]), "values": vals,
                                                 "kind": "exception", "where": where, "notes": list(ctx.notes)})
            finally:
                st["queries"] += ctx.queries
                st["solver_s"] += ctx.solver_s
                st["max_decisions"] = max(st["max_decisions"], len(ctx.decisions))
            decisions = ctx.decisions
            while decisions and not decisions[-1][1]:
                decisions.pop()
            if not decisions:
                st["complete"] = True
                break
            decisions[-1] = [False, False, decisions[-1][2]]
            if st["paths"] + st["infeasible"] >= max_paths:
                st["inconclusive"].append("path budget %d exhausted" % max_paths)
                break
    except CaseTimeout:
        st["inconclusive"].append("case timeout %ss" % timeout_s)
    finally:
        if timeout_s:
            signal.setitimer(signal.ITIMER_REAL, 0)
            signal.signal(signal.SIGALRM, old)
        DEADLINE = 0
        CTX = None
    return st


def run_concrete(fn, values, expected=()):
    """run the same harness on plain values against whatever yowsup modules are imported"""
    global CTX
    ctx = ConcreteCtx(values)
    CTX = ctx
    out = {"failed": [], "notes": ctx.notes, "n_obligations": 0}
    try:
        obligations = fn(ctx)
        for label, ob in obligations:
            out["n_obligations"] += 1
            if not bool(ob):
                out["failed"].append(label)
    except Infeasible:
        out["infeasible"] = True
    except Unrealisable as e:
        out["unrealisable"] = str(e)
    except Exception as e:
        if expected and isinstance(e, expected):
            pass
        else:
            import traceback
            tb = traceback.extract_tb(e.__traceback__)
            where = "; ".join("%s:%d %s" % (f.filename.split("/")[-1], f.lineno, f.name) for f in tb[-4:])
            if harness_out_of_sync(e) or stub_incomplete(e):
                out["error"] = "harness out of sync with this tree: %s: %s at %s" % (type(e).__name__, str(e)[:160], where)
            else:
                out["failed"].append("raised %s: %s" % (type(e).__name__, str(e)[:200]))
                out["where"] = where
    finally:
        CTX = None
    return out
