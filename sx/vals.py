"""sx proxy values: byte ropes, character-list strings, z3-String strings, structured UF terms"""
import re
import z3
from . import core
from .core import Sym, SymInt, SymBool, SymReal, Unsupported, toint, tobool


def S(t):
    return z3.simplify(t)


def _true(t):
    return z3.is_true(S(t))


# =============================================================================================
# structured uninterpreted terms (crypto, compression, ...)
class Term(object):
    """application of an uninterpreted function to ropes/terms/constants; equality is syntactic on
    normal forms (sound for proving equalities; an inequality is only trusted under the stated
    ideal-primitive assumption)"""

    def __init__(self, fn, *args):
        self.fn, self.args = fn, args
        self._k = None

    def key(self):
        if self._k is None:
            self._k = (self.fn,) + tuple(valkey(a) for a in self.args)
        return self._k

    def __eq__(self, o):
        return isinstance(o, Term) and self.key() == o.key()

    def __ne__(self, o):
        return not self.__eq__(o)

    def __hash__(self):
        return hash(self.key())

    def __repr__(self):
        return "%s(..%d)" % (self.fn, len(self.args))


def term_eq(a, b):
    """equality of two uninterpreted applications: True / False / z3 Bool.  Same function and pairwise equal arguments
    (congruence) <=> equal values (ideal primitive: injective, outputs of different functions unrelated).  Arguments that
    are different abstract inputs count as different (they are generic)."""
    if a.key() == b.key():
        return True
    if a.fn != b.fn or len(a.args) != len(b.args):
        return False
    conds = []
    for x, y in zip(a.args, b.args):
        c = _arg_eq(x, y)
        if c is False:
            return False
        if c is not True:
            conds.append(c)
    return S(z3.And(conds)) if conds else True


def _arg_eq(x, y):
    if valkey(x) == valkey(y):
        return True
    if isinstance(x, Term) and isinstance(y, Term):
        return term_eq(x, y)
    if isinstance(x, (SymSeq, bytes, bytearray)) and isinstance(y, (SymSeq, bytes, bytearray)):
        try:
            r = SymSeq(x).eq_term(SymSeq(y))
        except Unsupported:
            return False
        return r
    if isinstance(x, (SymInt, int)) and isinstance(y, (SymInt, int)) and not isinstance(x, bool) and not isinstance(y, bool):
        r = S(toint(x) == toint(y))
        return True if z3.is_true(r) else False if z3.is_false(r) else r
    if isinstance(x, SymStr) and isinstance(y, (SymStr, str)):
        return x.eq_term(y)
    return False


def valkey(r):
    if isinstance(r, SymSeq):
        out = []
        for it in r.norm():
            if isinstance(it, Fill):
                out.append(("F", str(S(toint(it.value))), str(S(it.ln))))
            elif isinstance(it, Piece):
                out.append(("P", it.base.key() if isinstance(it.base, Term) else it.base, str(S(it.off)), str(S(it.ln))))
            else:
                out.append(("E", str(S(toint(it)))))
        return ("rope",) + tuple(out)
    if isinstance(r, (bytes, bytearray)):
        return ("rope",) + tuple(("E", str(b)) for b in r)
    if isinstance(r, Term):
        return r.key()
    if isinstance(r, SymInt):
        return ("I", str(S(r.t)))
    if isinstance(r, ZStr):
        return ("S", str(S(r.t)))
    if isinstance(r, SymStr):
        return ("CS",) + tuple(str(S(toint(c))) for c in r.codes())
    if isinstance(r, (tuple, list)):
        return ("T",) + tuple(valkey(x) for x in r)
    return ("C", repr(r))


# =============================================================================================
# byte ropes
class Gen(Sym):
    """generic element of an abstract piece: stands for every element of that piece"""
    __slots__ = ("piece",)

    def __init__(self, piece):
        self.piece = piece

    def __hash__(self):
        raise Unsupported("hash of generic element")

    def _no(self, *a):
        raise Unsupported("operation on the generic element of an abstract piece")
    __bool__ = __eq__ = __ne__ = __lt__ = __le__ = __gt__ = __ge__ = _no
    __add__ = __radd__ = __sub__ = __and__ = __or__ = __xor__ = __lshift__ = __rshift__ = __index__ = _no


class Piece(object):
    """abstract run of bytes base[off : off+ln]; off, ln are z3 Int terms"""

    def __init__(self, base, off, ln):
        self.base = base
        self.off = toint(off)
        self.ln = toint(ln)

    def sub(self, off, ln):
        return Piece(self.base, S(self.off + off), S(ln))

    def __repr__(self):
        return "Piece(%s,%s,%s)" % (self.base, S(self.off), S(self.ln))


class Fill(Piece):
    """`count` copies of the byte `value`"""

    def __init__(self, value, count):
        self.value = value
        Piece.__init__(self, ("fill", str(S(toint(value)))), 0, count)

    def sub(self, off, ln):
        return Fill(self.value, S(ln))

    def __repr__(self):
        return "Fill(%s x %s)" % (self.value, S(self.ln))


def plen(p):
    return p.ln if isinstance(p, Piece) else z3.IntVal(1)


class SymSeq(Sym):
    """rope of bytes: items are python ints, SymInt (single bytes) or Pieces"""

    def __init__(self, items=(), kind="bytearray"):
        self.kind = kind
        out = []
        if isinstance(items, SymSeq):
            items = items.items
        for it in items:
            if isinstance(it, Gen):
                it = it.piece
            elif isinstance(it, (bytes, bytearray)):
                out.extend(it)
                continue
            out.append(it)
        self.items = out

    # -- basic ---------------------------------------------------------------------------------
    def length(self):
        n = 0
        sym = None
        for it in self.items:
            if isinstance(it, Piece):
                sym = it.ln if sym is None else sym + it.ln
            else:
                n += 1
        if sym is None:
            return n
        t = S(sym + n)
        if z3.is_int_value(t):
            return t.as_long()
        return SymInt(t)

    def __len__(self):
        n = self.length()
        if isinstance(n, int):
            return n
        raise Unsupported("len() of a symbolic-length rope outside the call hook")

    def concrete_len(self):
        return isinstance(self.length(), int)

    def _split(self, pos):
        """(left_items, right_items) at absolute position pos >= 0, clamped like python slices"""
        if isinstance(pos, int):
            if pos <= 0:
                return [], list(self.items)
        post = toint(pos)
        acc = z3.IntVal(0)
        left = []
        C = core.CTX
        for i, it in enumerate(self.items):
            l = plen(it)
            end = S(acc + l)
            if C.branch(end <= post):
                left.append(it)
                acc = end
                continue
            if isinstance(it, Piece):
                k = S(post - acc)
                if C.branch(k <= 0):
                    return left, self.items[i:]
                return left + [it.sub(0, k)], [it.sub(k, S(it.ln - k))] + self.items[i + 1:]
            return left, self.items[i:]
        return left, []

    def _absidx(self, i):
        """normalise a possibly negative index/bound to a non-negative one"""
        if isinstance(i, int):
            if i >= 0:
                return i
            n = self.length()
            j = n + i
            if isinstance(j, int):
                return max(j, 0)
            return j if bool(j >= 0) else 0
        if isinstance(i, SymInt):
            if bool(i >= 0):
                return i
            j = self.length() + i
            if isinstance(j, int):
                return max(j, 0)
            return j if bool(j >= 0) else 0
        raise Unsupported("rope index %r" % (i,))

    def __getitem__(self, k):
        if isinstance(k, slice):
            if k.step is not None:
                raise Unsupported("rope slice with step")
            lo = 0 if k.start is None else self._absidx(k.start)
            hi = None if k.stop is None else self._absidx(k.stop)
            rest = self
            if not (isinstance(lo, int) and lo == 0):
                _, r = self._split(lo)
                rest = SymSeq(r, self.kind)
                if hi is None:
                    return rest
                hi = hi - lo
                if isinstance(hi, int):
                    hi = max(hi, 0)
                elif not bool(hi >= 0):
                    hi = 0
            elif hi is None:
                return SymSeq(self.items, self.kind)
            l, _ = rest._split(hi)
            return SymSeq(l, self.kind)
        k = self._absidx(k)
        l, r = self._split(k)
        while r and isinstance(r[0], Piece) and not isinstance(r[0], Fill) and _true(r[0].ln == 0):
            r = r[1:]
        if not r:
            raise IndexError("index out of range")
        it = r[0]
        if isinstance(it, Fill):
            if core.CTX.branch(it.ln > 0):
                return it.value
            return SymSeq(r[1:], self.kind)[0]
        if isinstance(it, Piece):
            if core.CTX.branch(it.ln > 0):
                return byte_of(it.base, it.off)
            return SymSeq(r[1:], self.kind)[0]
        return it

    def __setitem__(self, k, v):
        if isinstance(k, int) and self.concrete_len() and not any(isinstance(i, Piece) for i in self.items):
            self.items[k] = v
            return
        raise Unsupported("rope item assignment")

    def __delitem__(self, k):
        if not (isinstance(k, slice) and k.start is None and k.step is None):
            raise Unsupported("rope del %r" % (k,))
        _, r = self._split(self._absidx(k.stop))
        self.items = list(r)

    def pop(self, i=-1):
        if i == 0:
            while self.items:
                it = self.items[0]
                if isinstance(it, Piece):
                    if core.CTX.branch(it.ln <= 0):
                        self.items.pop(0)
                        continue
                    v = it.value if isinstance(it, Fill) else byte_of(it.base, it.off)
                    self.items[0] = it.sub(1, S(it.ln - 1))
                    return v
                return self.items.pop(0)
            raise IndexError("pop from empty bytearray")
        if i == -1 and self.items and not isinstance(self.items[-1], Piece):
            return self.items.pop()
        raise Unsupported("rope pop(%r)" % (i,))

    def extend(self, o):
        self.items.extend(SymSeq(o).items if not isinstance(o, SymSeq) else o.items)

    def append(self, x):
        if isinstance(x, Gen):
            x = x.piece
        self.items.append(x)

    def __iadd__(self, o):
        if self.kind != "bytearray":
            return self + o                  # bytes are immutable: += makes a new object, the caller's one is untouched
        self.extend(o)
        return self

    def __iter__(self):
        for it in self.items:
            if isinstance(it, Piece):
                n = S(it.ln)
                if z3.is_int_value(n) and n.as_long() <= 64:
                    # a piece of small concrete length is iterated element by element (byte-wise comparison loops)
                    for i in range(n.as_long()):
                        yield it.value if isinstance(it, Fill) else byte_of(it.base, S(it.off + i))
                    continue
                yield Gen(it)
            else:
                yield it

    def __add__(self, o):
        if not isinstance(o, (SymSeq, bytes, bytearray, list)):
            return NotImplemented
        return SymSeq(self.items + SymSeq(o).items, self.kind)

    def __radd__(self, o):
        if not isinstance(o, (SymSeq, bytes, bytearray, list)):
            return NotImplemented
        return SymSeq(list(SymSeq(o).items) + self.items, "bytes" if isinstance(o, bytes) else self.kind)

    def __mul__(self, n):
        if isinstance(n, int):
            return SymSeq(self.items * n, self.kind)
        if isinstance(n, SymInt) and len(self.items) == 1 and not isinstance(self.items[0], Piece):
            # one byte repeated a symbolic number of times (padding): a fill piece
            if core.CTX.branch(toint(n) <= 0):
                return SymSeq([], self.kind)
            return SymSeq([Fill(self.items[0], toint(n))], self.kind)
        raise Unsupported("rope * symbolic")

    __rmul__ = __mul__

    def norm(self):
        out = []
        for it in self.items:
            if isinstance(it, Piece):
                if _true(it.ln == 0):
                    continue
                if out and isinstance(out[-1], Fill) and isinstance(it, Fill) and _true(toint(out[-1].value) == toint(it.value)):
                    out[-1] = Fill(it.value, S(out[-1].ln + it.ln))
                    continue
                if out and isinstance(out[-1], Piece) and not isinstance(out[-1], Fill) and not isinstance(it, Fill) \
                        and out[-1].base == it.base and _true(out[-1].off + out[-1].ln == it.off):
                    out[-1] = Piece(it.base, out[-1].off, S(out[-1].ln + it.ln))
                    continue
            out.append(it)
        return out

    # -- comparison ----------------------------------------------------------------------------
    def eq_term(self, o):
        """z3 Bool / python bool: structural equality of normal forms"""
        if isinstance(o, (bytes, bytearray, list)):
            o = SymSeq(o)
        if not isinstance(o, SymSeq):
            return False
        a, b = self.norm(), o.norm()
        if len(a) != len(b) or any(isinstance(x, Piece) != isinstance(y, Piece) for x, y in zip(a, b)):
            # shapes differ: make them canonical by deciding (forking on) emptiness of every abstract piece
            a, b = self._nonempty_norm(), o._nonempty_norm()
            if len(a) != len(b) and any(isinstance(x, Piece) and isinstance(x.base, Term) for x in a + b):
                la, lb = self.length(), o.length()
                if not (isinstance(la, int) and isinstance(lb, int)):
                    if bool(la != lb):
                        return False
        # allow a Piece of provably positive length vs elements only when shapes agree
        if len(a) != len(b):
            la, lb = self.length(), o.length()
            if isinstance(la, int) and isinstance(lb, int) and la != lb:
                return False
            return _positional_eq(self, o)
        conds = []
        for x, y in zip(a, b):
            if isinstance(x, Piece) != isinstance(y, Piece):
                return _positional_eq(self, o)
            if isinstance(x, Fill) or isinstance(y, Fill):
                if not (isinstance(x, Fill) and isinstance(y, Fill)):
                    return _positional_eq(self, o)
                conds += [toint(x.value) == toint(y.value), x.ln == y.ln]
            elif isinstance(x, Piece):
                if x.base != y.base:
                    if isinstance(x.base, Term) and isinstance(y.base, Term):
                        # outputs of uninterpreted applications: equal iff same function on equal arguments (ideal-primitive assumption)
                        c = term_eq(x.base, y.base)
                        if c is False:
                            return False
                        if c is not True:
                            conds.append(c)
                    elif isinstance(x.base, Term) or isinstance(y.base, Term):
                        return False
                    else:
                        return _positional_eq(self, o)
                conds += [x.off == y.off, x.ln == y.ln]
            else:
                conds.append(toint(x) == toint(y))
        return S(z3.And(conds)) if conds else True

    def _nonempty_norm(self):
        C = core.CTX
        keep = []
        for it in self.items:
            if isinstance(it, Piece) and C is not None and getattr(C, "symbolic", False):
                if C.branch(it.ln <= 0):
                    continue
            keep.append(it)
        return SymSeq(keep, self.kind).norm()

    def __eq__(self, o):
        r = self.eq_term(o)
        return r if isinstance(r, bool) else SymBool(r)

    def __ne__(self, o):
        r = self.eq_term(o)
        return (not r) if isinstance(r, bool) else SymBool(z3.Not(r))

    def __hash__(self):
        raise Unsupported("hash of symbolic bytes")

    def __bool__(self):
        n = self.length()
        if isinstance(n, int):
            return n > 0
        return bool(n > 0)

    # -- bytes API ------------------------------------------------------------------------------
    def upper(self):
        out = []
        for c in self.items:
            if isinstance(c, Piece):
                raise Unsupported("upper() of abstract piece")
            if isinstance(c, SymInt):
                out.append(SymInt(S(z3.If(z3.And(c.t >= 97, c.t <= 122), c.t - 32, c.t)), ub=256))
            else:
                out.append(c - 32 if 97 <= c <= 122 else c)
        return SymSeq(out, self.kind)

    def decode(self, enc="utf-8", errors="strict"):
        e = enc.lower().replace("-", "").replace("_", "")
        if e in ("utf8", "ascii") and errors == "strict":
            return self._decode_utf8(e == "ascii")
        if any(isinstance(c, Piece) for c in self.items):
            raise Unsupported("decode() of abstract piece")
        if e in ("latin1", "iso88591"):
            return SymStr([SymChar(c) if isinstance(c, SymInt) else chr(c) for c in self.items])
        raise Unsupported("decode(%s) of symbolic bytes" % enc)

    def _decode_utf8(self, ascii_only):
        """strict UTF-8 (or ASCII) decoding, deciding every byte class through the explorer.  An abstract piece is only looked at through
        its first byte: an invalid start byte raises (as CPython does); anything else about it is outside the model."""
        C = core.CTX

        def dec(t):
            return t if isinstance(t, bool) else C.branch(t)
        out = []
        items = list(self.items)
        i = 0
        while i < len(items):
            it = items[i]
            if isinstance(it, Piece):
                if dec(S(it.ln <= 0)):
                    i += 1
                    continue
                if isinstance(it, Fill):
                    n = S(it.ln)
                    if z3.is_int_value(n) and n.as_long() <= 64:
                        items[i:i + 1] = [it.value] * n.as_long()
                        continue
                    raise Unsupported("decode() of a long fill")
                b0 = byte_of(it.base, it.off)
                if dec(S(b0.t >= 0x80)):
                    if ascii_only or dec(S(z3.Or(b0.t < 0xC2, b0.t > 0xF4))):
                        raise UnicodeDecodeError("ascii" if ascii_only else "utf-8", b"\xff", 0, 1, "invalid start byte")
                    raise Unsupported("decode() of an abstract piece that starts with a multi-byte sequence")
                raise Unsupported("decode() of an abstract piece (only its first byte is modelled)")
            b = it
            if isinstance(b, int):
                if b < 0x80:
                    out.append(chr(b))
                    i += 1
                    continue
            elif not dec(S(toint(b) >= 0x80)):
                out.append(SymChar(b))
                i += 1
                continue
            if ascii_only:
                raise UnicodeDecodeError("ascii", b"\xff", 0, 1, "ordinal not in range(128)")
            t = toint(b)
            if dec(S(z3.Or(t < 0xC2, t > 0xF4))):
                raise UnicodeDecodeError("utf-8", b"\xff", 0, 1, "invalid start byte")
            need = 1 if dec(S(t < 0xE0)) else 2 if dec(S(t < 0xF0)) else 3
            conts = []
            for k in range(1, need + 1):
                if i + k >= len(items) or isinstance(items[i + k], Piece):
                    if i + k >= len(items):
                        raise UnicodeDecodeError("utf-8", b"\xff", 0, 1, "unexpected end of data")
                    raise Unsupported("decode(): continuation byte inside an abstract piece")
                c = toint(items[i + k])
                lo, hi = 0x80, 0xBF
                if k == 1:
                    # second-byte ranges exclude overlong forms, surrogates and values above U+10FFFF
                    if need == 2 and dec(S(t == 0xE0)):
                        lo = 0xA0
                    elif need == 2 and dec(S(t == 0xED)):
                        hi = 0x9F
                    elif need == 3 and dec(S(t == 0xF0)):
                        lo = 0x90
                    elif need == 3 and dec(S(t == 0xF4)):
                        hi = 0x8F
                if dec(S(z3.Or(c < lo, c > hi))):
                    raise UnicodeDecodeError("utf-8", b"\xff", 0, 1, "invalid continuation byte")
                conts.append(c)
            cp = t - (0xC0 if need == 1 else 0xE0 if need == 2 else 0xF0)
            for c in conts:
                cp = cp * 64 + (c - 0x80)
            out.append(SymChar(SymInt(S(cp), ub=0x110000)))
            i += need + 1
        return SymStr(out)

    def startswith(self, p):
        p = SymSeq(p)
        n = p.length()
        return self[:n] == p

    def hex(self, *a):
        if a:
            raise Unsupported("bytes.hex(sep)")
        out = []
        for b in self._elems("hex"):
            for nib in ((b >> 4) & 15, b & 15):
                if isinstance(nib, SymInt):
                    code = SymInt(S(z3.If(nib.t < 10, nib.t + 48, nib.t + 87)), ub=128)
                    code.nib = nib
                    out.append(SymChar(code))
                else:
                    out.append("0123456789abcdef"[nib])
        return SymStr(out)

    # -- element-wise algorithms (ropes without abstract pieces: every item a byte value, concrete or symbolic) ----------
    def _elems(self, what):
        out = []
        for it in self.items:
            if isinstance(it, Piece):
                n = S(it.ln)
                if isinstance(it, Fill) and z3.is_int_value(n) and n.as_long() <= 4096:
                    out.extend([it.value] * n.as_long())
                    continue
                if z3.is_int_value(n) and n.as_long() <= 64:
                    out.extend(byte_of(it.base, S(it.off + i)) for i in range(n.as_long()))
                    continue
                raise Unsupported("%s() of a rope with an abstract piece" % what)
            out.append(it)
        return out

    @staticmethod
    def _sub_elems(sub, what):
        if isinstance(sub, int) or isinstance(sub, SymInt):
            return [sub]
        return SymSeq(sub)._elems(what)

    def _match_elems(self, es, i, sub):
        if i + len(sub) > len(es):
            return False
        ts = []
        for a, b in zip(es[i:i + len(sub)], sub):
            if isinstance(a, int) and isinstance(b, int):
                if a != b:
                    return False
            else:
                ts.append(toint(a) == toint(b))
        return bool(SymBool(S(z3.And(ts)))) if ts else True

    def find(self, sub, start=0, end=None):
        es, sb = self._elems("find"), self._sub_elems(sub, "find")
        n = len(es)
        start = max(n + start, 0) if start < 0 else start
        end = n if end is None else (max(n + end, 0) if end < 0 else min(end, n))
        for i in range(start, end - len(sb) + 1):
            if self._match_elems(es, i, sb):
                return i
        return -1

    def rfind(self, sub, start=0, end=None):
        es, sb = self._elems("rfind"), self._sub_elems(sub, "rfind")
        n = len(es)
        end = n if end is None else min(end, n)
        for i in range(end - len(sb), start - 1, -1):
            if self._match_elems(es, i, sb):
                return i
        return -1

    def index(self, sub, start=0, end=None):
        i = self.find(sub, start, end)
        if i < 0:
            raise ValueError("subsection not found")
        return i

    def count(self, sub):
        es, sb = self._elems("count"), self._sub_elems(sub, "count")
        if not sb:
            return len(es) + 1
        n, i = 0, 0
        while i <= len(es) - len(sb):
            if self._match_elems(es, i, sb):
                n += 1
                i += len(sb)
            else:
                i += 1
        return n

    def __contains__(self, sub):
        return self.find(sub) >= 0

    def endswith(self, p):
        if isinstance(p, tuple):
            return any(bool(self.endswith(x)) for x in p)
        p = SymSeq(p)
        n, m = self.length(), p.length()
        if isinstance(n, int) and isinstance(m, int):
            if m > n:
                return False
            return self[n - m:] == p
        raise Unsupported("endswith on a symbolic-length rope")

    def replace(self, old, new, count=-1):
        es, ob, nb = self._elems("replace"), self._sub_elems(old, "replace"), self._sub_elems(new, "replace")
        if not ob:
            raise Unsupported("bytes.replace(b'', ...)")
        out, i, n = [], 0, 0
        while i < len(es):
            if (count < 0 or n < count) and self._match_elems(es, i, ob):
                out.extend(nb)
                i += len(ob)
                n += 1
            else:
                out.append(es[i])
                i += 1
        return SymSeq(out, self.kind)

    def split(self, sep=None, maxsplit=-1):
        if sep is None:
            raise Unsupported("bytes.split() on whitespace")
        es, sb = self._elems("split"), self._sub_elems(sep, "split")
        out, start, i, n = [], 0, 0, 0
        while i <= len(es) - len(sb) and (maxsplit < 0 or n < maxsplit):
            if self._match_elems(es, i, sb):
                out.append(SymSeq(es[start:i], self.kind))
                i += len(sb)
                start = i
                n += 1
            else:
                i += 1
        out.append(SymSeq(es[start:], self.kind))
        return out

    def join(self, parts):
        out = []
        for i, p in enumerate(parts):
            if i:
                out.extend(self.items)
            out.extend(SymSeq(p).items)
        return SymSeq(out, self.kind)

    def lower(self):
        out = []
        for c in self._elems("lower"):
            if isinstance(c, int):
                out.append(c + 32 if 65 <= c <= 90 else c)
            else:
                out.append(SymInt(S(z3.If(z3.And(c.t >= 65, c.t <= 90), c.t + 32, c.t)), ub=256))
        return SymSeq(out, self.kind)

    def reverse(self):
        self.items = self._elems("reverse")[::-1]

    def __reversed__(self):
        return iter(self._elems("reversed")[::-1])

    def isdigit(self):
        es = self._elems("isdigit")
        if not es:
            return False
        ts = [z3.And(toint(c) >= 48, toint(c) <= 57) for c in es]
        return bool(SymBool(S(z3.And(ts))))

    STRIP_BOUND = 3        # bytes of an abstract piece that one strip call may remove (longer runs are outside the bound)

    def _strip(self, chars, left, right):
        if chars is None:
            chars = b" \t\n\r\x0b\x0c"
        cs = []
        for c in SymSeq(chars):
            if isinstance(c, Gen):
                raise Unsupported("strip() with an abstract set of bytes")
            cs.append(c)
        C = core.CTX

        def member(v):
            if isinstance(v, int) and all(isinstance(c, int) for c in cs):
                return v in cs
            return S(z3.Or([toint(v) == toint(c) for c in cs])) if cs else False

        def decide(t):
            return t if isinstance(t, bool) else C.branch(t)
        items = list(self.items)
        for side in ([0] if left else []) + ([-1] if right else []):
            steps = 0
            while items:
                it = items[side]
                if isinstance(it, Piece):
                    if decide(S(it.ln <= 0)):
                        items.pop(side)
                        continue
                    if isinstance(it, Fill):
                        if decide(member(it.value)):
                            items.pop(side)
                            continue
                        break
                    v = byte_of(it.base, it.off if side == 0 else S(it.off + it.ln - 1))
                    if steps >= self.STRIP_BOUND:
                        C.assume(z3.Not(member(v)))
                        break
                    if decide(member(v)):
                        steps += 1
                        items[side] = it.sub(1, S(it.ln - 1)) if side == 0 else it.sub(0, S(it.ln - 1))
                        continue
                    break
                if decide(member(it)):
                    items.pop(side)
                    continue
                break
        return SymSeq(items, self.kind)

    def strip(self, chars=None):
        return self._strip(chars, True, True)

    def lstrip(self, chars=None):
        return self._strip(chars, True, False)

    def rstrip(self, chars=None):
        return self._strip(chars, False, True)

    def concrete(self):
        """bytes if fully concrete else None"""
        if all(isinstance(i, int) for i in self.items):
            return bytes(self.items)
        return None

    def __repr__(self):
        return "SymSeq%s(%r)" % ("b" if self.kind == "bytes" else "", self.items)


def _terms_of(items):
    out = set()
    for it in items:
        if isinstance(it, Piece) and isinstance(it.base, Term):
            out.add(it.base.key())
        elif isinstance(it, SymInt):
            for n in core.free_vars(it.t):
                if n.startswith("arr!("):
                    out.add(n)
    return out


def _positional_eq(a, b):
    """equality of two ropes whose normal forms have different shapes: align both at each other's piece boundaries
    (forking on the length comparisons) and compare segment by segment"""
    la, lb = a.length(), b.length()
    if isinstance(la, int) and isinstance(lb, int):
        if la != lb:
            return False
    elif bool(la != lb):
        return False
    # ideal-primitive shortcut: the output of an uninterpreted application that occurs on one side only is a value
    # independent of everything on the other side
    ta = set(it.base.key() for it in a.items if isinstance(it, Piece) and isinstance(it.base, Term))
    tb = set(it.base.key() for it in b.items if isinstance(it, Piece) and isinstance(it.base, Term))
    if (ta - tb) or (tb - ta):
        only = (ta - tb) | (tb - ta)
        other_syms = _terms_of(a.items) | _terms_of(b.items)
        bases_a = [it.base for it in a.items if isinstance(it, Piece) and isinstance(it.base, Term) and it.base.key() in (ta - tb)]
        bases_b = [it.base for it in b.items if isinstance(it, Piece) and isinstance(it.base, Term) and it.base.key() in (tb - ta)]
        may_coincide = any(term_eq(p, q) is not False for p in bases_a for q in bases_b)
        if not may_coincide and not any(("arr!%s" % repr(k)) in other_syms for k in only):
            return False
    C = core.CTX
    A, B = list(a._nonempty_norm()), list(b._nonempty_norm())
    conds = []
    guard = 0
    while A and B:
        guard += 1
        if guard > 200:
            raise Unsupported("rope equality: too many segments")
        x, y = A[0], B[0]
        xp, yp = isinstance(x, Piece), isinstance(y, Piece)
        if not xp and not yp:
            conds.append(toint(x) == toint(y))
            A.pop(0)
            B.pop(0)
            continue
        if xp and yp:
            # cut the longer one
            if C.branch(x.ln <= y.ln):
                n = x.ln
                A.pop(0)
                if C.branch(y.ln <= n):
                    B.pop(0)
                else:
                    B[0] = y.sub(n, S(y.ln - n))
                    y = y.sub(0, n)
            else:
                n = y.ln
                B.pop(0)
                A[0] = x.sub(n, S(x.ln - n))
                x = x.sub(0, n)
            if isinstance(x, Fill) and isinstance(y, Fill):
                conds.append(toint(x.value) == toint(y.value))
            elif isinstance(x, Fill) or isinstance(y, Fill):
                raise Unsupported("rope equality: fill vs abstract piece")
            elif x.base == y.base:
                if _true(x.off == y.off):
                    pass
                elif isinstance(x.base, Term):
                    if not C.branch(x.off == y.off):
                        return False          # different windows of an ideal primitive's output
                else:
                    raise Unsupported("rope equality: abstract input compared with itself at a different offset")
            else:
                if isinstance(x.base, Term) and isinstance(y.base, Term):
                    c = term_eq(x.base, y.base)
                    if c is False:
                        return False
                    if c is not True:
                        conds.append(c)
                    if not _true(x.off == y.off) and not C.branch(x.off == y.off):
                        return False
                elif isinstance(x.base, Term) or isinstance(y.base, Term):
                    return False
                else:
                    raise Unsupported("rope equality between different abstract inputs")
            continue
        # one piece, one element: take one element off the piece
        if xp:
            e = x.value if isinstance(x, Fill) else byte_of(x.base, x.off)
            conds.append(toint(e) == toint(y))
            B.pop(0)
            if C.branch(x.ln <= 1):
                A.pop(0)
            else:
                A[0] = x.sub(1, S(x.ln - 1))
        else:
            e = y.value if isinstance(y, Fill) else byte_of(y.base, y.off)
            conds.append(toint(e) == toint(x))
            A.pop(0)
            if C.branch(y.ln <= 1):
                B.pop(0)
            else:
                B[0] = y.sub(1, S(y.ln - 1))
    if A or B:
        return False
    return S(z3.And(conds)) if conds else True


def _unsup(msg):
    raise Unsupported("rope equality: " + msg)


_ARRAYS = {}


def byte_of(base, idx):
    """element of an abstract piece as a term Select(arr_base, idx), constrained to [0,256)"""
    if isinstance(base, tuple) and base and base[0] == "fill":
        raise Unsupported("byte_of fill")
    key = base.key() if isinstance(base, Term) else base
    name = "arr!%s" % (key if isinstance(key, str) else repr(key))
    arr = z3.Array(name, z3.IntSort(), z3.IntSort())
    t = z3.Select(arr, S(toint(idx)))
    C = core.CTX
    if C is not None and getattr(C, "symbolic", False):
        C.add(z3.And(t >= 0, t < 256))
        C.selects.setdefault(name, []).append((S(toint(idx)), t))      # so that a model fixes the bytes the path looked at
    return SymInt(t, ub=256)


def blob(base, n, kind="bytes"):
    return SymSeq([Piece(base, 0, toint(n))], kind)


# =============================================================================================
# strings as lists of characters (concrete length)
class SymChar(Sym):
    __slots__ = ("code",)

    def __init__(self, code):
        self.code = code if isinstance(code, SymInt) else SymInt(toint(code))

    def __eq__(self, o):
        if isinstance(o, SymChar):
            return self.code == o.code
        if isinstance(o, str):
            return (self.code == ord(o)) if len(o) == 1 else False
        if isinstance(o, SymStr):
            return o == self
        return False

    def __ne__(self, o):
        r = self.__eq__(o)
        return (not r) if isinstance(r, bool) else ~r

    def __hash__(self):
        raise Unsupported("hash of symbolic char")

    def __len__(self):
        return 1

    def __iter__(self):
        yield self

    def __add__(self, o):
        return SymStr([self]) + o

    def __radd__(self, o):
        return o + SymStr([self]) if isinstance(o, SymStr) else SymStr(list(o) + [self])

    def encode(self, *a):
        return SymStr([self]).encode(*a)

    def __getattr__(self, n):
        # a one-character string has every str method: delegate to the string model
        if n.startswith("__") or n == "code":
            raise AttributeError(n)
        return getattr(SymStr([self]), n)

    def __repr__(self):
        return "SymChar(%s)" % self.code.t


def _code(c):
    return c.code if isinstance(c, SymChar) else ord(c)


class SymStr(Sym):
    def __init__(self, chars=()):
        out = []
        for c in chars:
            if isinstance(c, SymStr):
                out.extend(c.chars)
            elif isinstance(c, str) and len(c) != 1:
                out.extend(c)
            else:
                out.append(c)
        self.chars = out

    def __len__(self):
        return len(self.chars)

    def __iter__(self):
        return iter(self.chars)

    def __bool__(self):
        return len(self.chars) > 0

    def codes(self):
        return [_code(c) for c in self.chars]

    def index(self, ch, start=0, end=None):
        i = self._find(ch, start, end)
        if i < 0:
            raise ValueError("substring not found")
        return i

    def find(self, ch, start=0, end=None):
        return self._find(ch, start, end)

    def __contains__(self, ch):
        return self._find(ch) >= 0

    def __getitem__(self, k):
        r = self.chars[k]
        return SymStr(r) if isinstance(k, slice) else r

    def __add__(self, o):
        if isinstance(o, (SymStr, str, SymChar)):
            return SymStr(self.chars + list(o if not isinstance(o, SymChar) else [o]))
        return NotImplemented

    def __radd__(self, o):
        if isinstance(o, (str, SymChar)):
            return SymStr(list(o if not isinstance(o, SymChar) else [o]) + self.chars)
        return NotImplemented

    def eq_term(self, o):
        if isinstance(o, SymChar):
            o = SymStr([o])
        oc = o.codes() if isinstance(o, SymStr) else [ord(c) for c in o] if isinstance(o, str) else None
        if oc is None or len(oc) != len(self.chars):
            return False
        ts = []
        for a, b in zip(self.codes(), oc):
            if isinstance(a, int) and isinstance(b, int):
                if a != b:
                    return False
                continue
            ts.append(toint(a) == toint(b))
        return S(z3.And(ts)) if ts else True

    def __eq__(self, o):
        r = self.eq_term(o)
        return r if isinstance(r, bool) else SymBool(r)

    def __ne__(self, o):
        r = self.eq_term(o)
        return (not r) if isinstance(r, bool) else SymBool(z3.Not(r))

    def __hash__(self):
        raise Unsupported("hash of symbolic string")

    def encode(self, enc="utf-8", errors="strict"):
        e = enc.lower().replace("-", "").replace("_", "")
        if e in ("latin1", "iso88591"):
            return SymSeq(self.codes(), "bytes")
        if e == "ascii":
            C = core.CTX
            for c in self.codes():
                if (isinstance(c, int) and c >= 128) or (not isinstance(c, int) and C.branch(toint(c) >= 128)):
                    raise UnicodeEncodeError("ascii", u"\xff", 0, 1, "ordinal not in range(128)")
            return SymSeq(self.codes(), "bytes")
        if e == "utf8":
            C = core.CTX
            out = []
            for c in self.codes():
                if isinstance(c, int):
                    out.extend(chr(c).encode("utf-8", errors))
                    continue
                t = toint(c)
                if not C.branch(t >= 0x80):
                    out.append(c)
                elif not C.branch(t >= 0x800):
                    out += [SymInt(S(0xC0 + t / 64), ub=256), SymInt(S(0x80 + t % 64), ub=256)]
                elif not C.branch(t >= 0x10000):
                    if C.branch(z3.And(t >= 0xD800, t <= 0xDFFF)):
                        raise UnicodeEncodeError("utf-8", u"\ud800", 0, 1, "surrogates not allowed")
                    out += [SymInt(S(0xE0 + t / 4096), ub=256), SymInt(S(0x80 + (t / 64) % 64), ub=256), SymInt(S(0x80 + t % 64), ub=256)]
                else:
                    out += [SymInt(S(0xF0 + t / 262144), ub=256), SymInt(S(0x80 + (t / 4096) % 64), ub=256), SymInt(S(0x80 + (t / 64) % 64), ub=256), SymInt(S(0x80 + t % 64), ub=256)]
            return SymSeq(out, "bytes")
        raise Unsupported("encode(%s) of SymStr" % enc)

    def startswith(self, p):
        if isinstance(p, tuple):
            return any(bool(self.startswith(x)) for x in p)
        if len(p) > len(self.chars):
            return False
        return self[:len(p)] == p

    def endswith(self, p):
        if isinstance(p, tuple):
            return any(bool(self.endswith(x)) for x in p)
        if len(p) > len(self.chars):
            return False
        return self[len(self.chars) - len(p):] == p

    @staticmethod
    def _is_space(c):
        """python str.isspace for Latin-1 code points: 9-13, 28-32, 133, 160"""
        if isinstance(c, int):
            return chr(c).isspace()
        t = toint(c)
        return bool(SymBool(z3.Or(z3.And(t >= 9, t <= 13), z3.And(t >= 28, t <= 32), t == 133, t == 160)))

    def _strip(self, chars, left, right):
        if chars is not None and not isinstance(chars, (str, SymStr)):
            raise TypeError("strip arg must be None or str")
        cset = None if chars is None else (chars.codes() if isinstance(chars, SymStr) else [ord(c) for c in chars])

        def hit(c):
            if cset is None:
                return self._is_space(c)
            if isinstance(c, int) and all(isinstance(x, int) for x in cset):
                return c in cset
            return bool(SymBool(z3.Or([toint(c) == toint(x) for x in cset]))) if cset else False
        cs = self.codes()
        lo, hi = 0, len(cs)
        while left and lo < hi and hit(cs[lo]):
            lo += 1
        while right and hi > lo and hit(cs[hi - 1]):
            hi -= 1
        return SymStr(self.chars[lo:hi])

    def strip(self, chars=None):
        return self._strip(chars, True, True)

    def lstrip(self, chars=None):
        return self._strip(chars, True, False)

    def rstrip(self, chars=None):
        return self._strip(chars, False, True)

    def _match_at(self, i, sub):
        """does the substring `sub` (str or SymStr) occur at position i -- decided through the explorer"""
        sc = sub.codes() if isinstance(sub, SymStr) else [ord(c) for c in sub]
        cs = self.codes()
        if i + len(sc) > len(cs):
            return False
        ts = []
        for a, b in zip(cs[i:i + len(sc)], sc):
            if isinstance(a, int) and isinstance(b, int):
                if a != b:
                    return False
            else:
                ts.append(toint(a) == toint(b))
        return bool(SymBool(S(z3.And(ts)))) if ts else True

    def _find(self, sub, start=0, end=None, reverse=False):
        if isinstance(sub, SymChar):
            sub = SymStr([sub])
        if not isinstance(sub, (str, SymStr)):
            raise TypeError("must be str")
        n = len(self.chars)
        start = max(n + start, 0) if start < 0 else start
        end = n if end is None else (max(n + end, 0) if end < 0 else min(end, n))
        rng = range(start, end - len(sub) + 1)
        for i in (reversed(rng) if reverse else rng):
            if self._match_at(i, sub):
                return i
        return -1

    def partition(self, sep):
        i = self._find(sep)
        if i < 0:
            return (SymStr(self.chars), "", "")
        return (SymStr(self.chars[:i]), sep, SymStr(self.chars[i + len(sep):]))

    def rpartition(self, sep):
        i = self._find(sep, reverse=True)
        if i < 0:
            return ("", "", SymStr(self.chars))
        return (SymStr(self.chars[:i]), sep, SymStr(self.chars[i + len(sep):]))

    def rfind(self, sub, start=0, end=None):
        return self._find(sub, start, end, reverse=True)

    def rindex(self, sub, start=0, end=None):
        i = self._find(sub, start, end, reverse=True)
        if i < 0:
            raise ValueError("substring not found")
        return i

    def count(self, sub):
        if len(sub) == 0:
            return len(self.chars) + 1
        n, i = 0, 0
        while i <= len(self.chars) - len(sub):
            if self._match_at(i, sub):
                n += 1
                i += len(sub)
            else:
                i += 1
        return n

    def rsplit(self, sep=None, maxsplit=-1):
        if not isinstance(sep, (str, SymStr)) or len(sep) == 0:
            raise Unsupported("SymStr.rsplit(%r)" % (sep,))
        out, end, n = [], len(self.chars), 0
        i = end - len(sep)
        while i >= 0 and (maxsplit < 0 or n < maxsplit):
            if self._match_at(i, sep) and i + len(sep) <= end:
                out.append(SymStr(self.chars[i + len(sep):end]))
                end = i
                n += 1
                i -= len(sep)
            else:
                i -= 1
        out.append(SymStr(self.chars[:end]))
        return out[::-1]

    def upper(self):
        out = []
        for ch, c in zip(self.chars, self.codes()):
            if isinstance(c, int):
                out.append(chr(c).upper())
            else:
                if core.CTX.is_sat(toint(c) >= 128):
                    raise Unsupported("upper() of a possibly non-ASCII symbolic character")
                t = toint(c)
                out.append(SymChar(SymInt(S(z3.If(z3.And(t >= 97, t <= 122), t - 32, t)))))
        return SymStr(out)

    def isalpha(self):
        return self._all_in([(65, 90), (97, 122)], 0x80)

    def isalnum(self):
        return self._all_in([(48, 57), (65, 90), (97, 122)], 0x80)

    def isspace(self):
        if not self.chars:
            return False
        return all(self._is_space(c) for c in self.codes())

    def __mul__(self, n):
        if isinstance(n, int):
            return SymStr(self.chars * n)
        raise Unsupported("SymStr * symbolic")

    __rmul__ = __mul__

    def ljust(self, n, fill=" "):
        return SymStr(self.chars + [fill] * max(0, n - len(self.chars)))

    def rjust(self, n, fill=" "):
        return SymStr([fill] * max(0, n - len(self.chars)) + self.chars)

    def join(self, parts):
        out = []
        for i, p in enumerate(parts):
            if i:
                out.extend(self.chars)
            out.extend(p.chars if isinstance(p, SymStr) else [p] if isinstance(p, SymChar) else list(p))
        return SymStr(out)

    def split(self, sep=None, maxsplit=-1):
        if sep is None:
            out, cur, n = [], [], 0
            cs = self.codes()
            i = 0
            while i < len(cs):
                if self._is_space(cs[i]):
                    if cur:
                        out.append(SymStr(cur))
                        cur = []
                        n += 1
                        if maxsplit >= 0 and n >= maxsplit:
                            j = i
                            while j < len(cs) and self._is_space(cs[j]):
                                j += 1
                            if j < len(cs):
                                out.append(SymStr(self.chars[j:]))
                            return out
                else:
                    cur.append(self.chars[i])
                i += 1
            if cur:
                out.append(SymStr(cur))
            return out
        if isinstance(sep, (str, SymStr)) and len(sep) > 1:
            out, start, i, n = [], 0, 0, 0
            while i <= len(self.chars) - len(sep) and (maxsplit < 0 or n < maxsplit):
                if self._match_at(i, sep):
                    out.append(SymStr(self.chars[start:i]))
                    i += len(sep)
                    start = i
                    n += 1
                else:
                    i += 1
            out.append(SymStr(self.chars[start:]))
            return out
        if not isinstance(sep, str) or len(sep) != 1:
            raise Unsupported("SymStr.split(%r)" % (sep,))
        out, cur, n = [], [], 0
        for ch, c in zip(self.chars, self.codes()):
            is_sep = (c == ord(sep)) if isinstance(c, int) else bool(c == ord(sep))
            if is_sep and (maxsplit < 0 or n < maxsplit):
                out.append(SymStr(cur))
                cur = []
                n += 1
            else:
                cur.append(ch)
        out.append(SymStr(cur))
        return out

    _LINE_BREAKS = (10, 11, 12, 13, 28, 29, 30, 133, 0x2028, 0x2029)

    def splitlines(self, keepends=False):
        if keepends:
            raise Unsupported("SymStr.splitlines(keepends)")
        out, cur = [], []
        cs = self.codes()
        i, n = 0, len(cs)

        def is_(c, vals):
            if isinstance(c, int):
                return c in vals
            return bool(SymBool(z3.Or([toint(c) == v for v in vals])))
        pending = False
        while i < n:
            c = cs[i]
            if is_(c, self._LINE_BREAKS):
                out.append(SymStr(cur))
                cur = []
                pending = False
                if is_(c, (13,)) and i + 1 < n and is_(cs[i + 1], (10,)):
                    i += 1
            else:
                cur.append(self.chars[i])
                pending = True
            i += 1
        if pending:
            out.append(SymStr(cur))
        return out

    def _all_in(self, pred_ranges, limit):
        if not self.chars:
            return False
        ts = []
        for c in self.codes():
            if isinstance(c, int):
                if c >= limit:
                    raise Unsupported("character class test beyond U+%04X" % limit)
                if not any(lo <= c <= hi for lo, hi in pred_ranges):
                    return False
                continue
            if core.CTX.is_sat(toint(c) >= limit):
                raise Unsupported("character class test beyond U+%04X" % limit)
            ts.append(z3.Or([z3.And(toint(c) >= lo, toint(c) <= hi) for lo, hi in pred_ranges]))
        return bool(SymBool(S(z3.And(ts)))) if ts else True

    def isdecimal(self):
        return self._all_in([(48, 57)], 0x660)

    def isdigit(self):
        return self._all_in([(48, 57), (0xb2, 0xb3), (0xb9, 0xb9)], 0x660)

    def replace(self, old, new, count=-1):
        if isinstance(old, (str, SymStr)) and isinstance(new, (str, SymStr)) and (len(old) != 1 or count != -1 or isinstance(old, SymStr) or isinstance(new, SymStr)) and len(old) >= 1:
            out, i, n = [], 0, 0
            newc = new.chars if isinstance(new, SymStr) else list(new)
            while i < len(self.chars):
                if (count < 0 or n < count) and self._match_at(i, old):
                    out.extend(newc)
                    i += len(old)
                    n += 1
                else:
                    out.append(self.chars[i])
                    i += 1
            return SymStr(out)
        if not (isinstance(old, str) and isinstance(new, str) and len(old) == 1) or count != -1:
            raise Unsupported("SymStr.replace(%r,%r)" % (old, new))
        if len(new) != 1:
            out = []
            for ch, c in zip(self.chars, self.codes()):
                hit = (c == ord(old)) if isinstance(c, int) else bool(c == ord(old))
                if hit:
                    out.extend(new)
                else:
                    out.append(ch)
            return SymStr(out)
        out = []
        for ch, c in zip(self.chars, self.codes()):
            if isinstance(c, int):
                out.append(new if c == ord(old) else ch)
            else:
                out.append(SymChar(SymInt(S(z3.If(toint(c) == ord(old), z3.IntVal(ord(new)), toint(c))), ub=256)))
        return SymStr(out)

    def zfill(self, n):
        if len(self.chars) >= n:
            return SymStr(self.chars)
        pad = ["0"] * (n - len(self.chars))
        if self.chars:
            c = self.codes()[0]
            signed = (c in (43, 45)) if isinstance(c, int) else bool(SymBool(z3.Or(toint(c) == 43, toint(c) == 45)))
            if signed:
                return SymStr(self.chars[:1] + pad + self.chars[1:])
        return SymStr(pad + self.chars)

    def lower(self):
        out = []
        for ch, c in zip(self.chars, self.codes()):
            if isinstance(c, int):
                out.append(chr(c).lower())
            else:
                t = toint(c)
                out.append(SymChar(SymInt(S(z3.If(z3.Or(z3.And(t >= 65, t <= 90), z3.And(t >= 192, t <= 222, t != 215)), t + 32, t)))))
        return SymStr(out)

    def __repr__(self):
        return "SymStr(%r)" % self.codes()

    __str__ = __repr__


# =============================================================================================
# strings as z3 String terms
def zstr_unescape(s):
    return re.sub(r"\\u\{([0-9a-fA-F]+)\}", lambda m: chr(int(m.group(1), 16)), s)


def zstr_lit(s):
    return z3.StringVal(s)


class ZStr(Sym):
    """unbounded string: a z3 String term.  Used for ids, JIDs, types and free text that the code
    only compares, splits and concatenates."""

    def __init__(self, t, parts=None):
        self.t = zstr_lit(t) if isinstance(t, str) else t
        self.parts = parts            # optional known structure: list of ZStr / str whose concatenation this is
        self.free_of = ()             # harness-provided fact: substrings that provably do not occur (consistent with its assumptions)
        self.has = ()                 # harness-provided fact: substrings that provably occur

    def _parts(self):
        return self.parts if self.parts else [self]

    @staticmethod
    def term(o):
        if isinstance(o, ZStr):
            return o.t
        if isinstance(o, str):
            return zstr_lit(o)
        return None

    def __eq__(self, o):
        t = ZStr.term(o)
        return False if t is None else SymBool(S(self.t == t))

    def __ne__(self, o):
        t = ZStr.term(o)
        return True if t is None else SymBool(S(self.t != t))

    def __hash__(self):
        raise Unsupported("hash of symbolic string")

    def __bool__(self):
        return core.CTX.branch(z3.Length(self.t) > 0)

    def __contains__(self, o):
        t = ZStr.term(o)
        if t is None:
            raise TypeError("'in <string>' requires string as left operand")
        if isinstance(o, str):
            if o in self.has:
                return True
            if o in self.free_of:
                return False
        return bool(SymBool(z3.Contains(self.t, t)))

    def __add__(self, o):
        t = ZStr.term(o)
        if t is None:
            return NotImplemented
        return ZStr(z3.Concat(self.t, t), parts=self._parts() + (o._parts() if isinstance(o, ZStr) else [o]))

    def __radd__(self, o):
        t = ZStr.term(o)
        if t is None:
            return NotImplemented
        return ZStr(z3.Concat(t, self.t), parts=[o] + self._parts())

    def length(self):
        return SymInt(z3.Length(self.t))

    def __len__(self):
        raise Unsupported("len() of ZStr outside the call hook")

    def split(self, sep=None, maxsplit=-1):
        if sep is None or not isinstance(sep, str) or len(sep) == 0:
            raise Unsupported("ZStr.split(%r)" % (sep,))
        return ZSplit(self, sep, maxsplit)

    def startswith(self, p):
        return SymBool(z3.PrefixOf(ZStr.term(p), self.t))

    def endswith(self, p):
        return SymBool(z3.SuffixOf(ZStr.term(p), self.t))

    def find(self, sub):
        return SymInt(z3.IndexOf(self.t, ZStr.term(sub), 0))

    def index(self, sub):
        i = z3.IndexOf(self.t, ZStr.term(sub), 0)
        if core.CTX.branch(i < 0):
            raise ValueError("substring not found")
        return SymInt(i)

    def encode(self, enc="utf-8", errors="strict"):
        return ZBytes(self, enc)

    def __getitem__(self, k):
        if isinstance(k, slice) and k.step is None:
            n = z3.Length(self.t)
            lo = 0 if k.start is None else k.start
            lo_t = toint(lo)
            if isinstance(lo, int) and lo < 0:
                lo_t = z3.If(n + lo < 0, 0, n + lo)
            hi_t = n if k.stop is None else toint(k.stop)
            if isinstance(k.stop, int) and k.stop < 0:
                hi_t = z3.If(n + k.stop < 0, 0, n + k.stop)
            return ZStr(S(z3.SubString(self.t, lo_t, z3.If(hi_t - lo_t < 0, 0, hi_t - lo_t))))
        raise Unsupported("ZStr index %r" % (k,))

    def lower(self):
        raise Unsupported("ZStr.lower")

    def strip(self, *a):
        raise Unsupported("ZStr.strip")

    def isdigit(self):
        raise Unsupported("ZStr.isdigit")

    def __mod__(self, o):
        return "<fmt>"

    def __str__(self):
        return "<sym>"
    __repr__ = __str__

    def __format__(self, spec):
        return "<sym>"


class ZSplit(object):
    """lazy result of ZStr.split(sep): element 0 and -1 need no fork; other accesses fork on the number of separators
    (bounded by 3, more is Unsupported)"""

    def __init__(self, z, sep, maxsplit=-1):
        self.z, self.sep, self.maxsplit = z, sep, maxsplit
        self._parts = None

    def _first(self):
        # structural shortcut: leading parts known to be free of the separator, then a literal containing it
        acc = []
        for p in self.z._parts():
            if isinstance(p, ZStr):
                if self.sep in p.free_of:
                    acc.append(p)
                    continue
                break
            if self.sep in p:
                head = p.split(self.sep)[0]
                out = None
                for a in acc:
                    out = a if out is None else out + a
                if out is None:
                    return ZStr(head) if head else ZStr("")
                return out + head if head else out
            acc.append(ZStr(p))
        s = self.z.t
        i = z3.IndexOf(s, zstr_lit(self.sep), 0)
        return ZStr(S(z3.If(i < 0, s, z3.SubString(s, 0, i))))

    def _all(self):
        if self._parts is None:
            out = []
            cur = self.z.t
            n = 0
            while True:
                if self.maxsplit >= 0 and n >= self.maxsplit:
                    break
                i = z3.IndexOf(cur, zstr_lit(self.sep), 0)
                if core.CTX.branch(i < 0):
                    break
                out.append(ZStr(S(z3.SubString(cur, 0, i))))
                cur = S(z3.SubString(cur, i + len(self.sep), z3.Length(cur)))
                n += 1
                if n > 3:
                    raise Unsupported("ZStr.split: more than 3 separators")
            out.append(ZStr(cur))
            self._parts = out
        return self._parts

    def __getitem__(self, k):
        if isinstance(k, int) and k == 0 and self.maxsplit != 0:
            return self._first()
        return self._all()[k]

    def __len__(self):
        return len(self._all())

    def __iter__(self):
        return iter(self._all())


class ZBytes(Sym):
    """bytes obtained by encoding a ZStr: opaque, carries the string; decode gives it back"""

    def __init__(self, z, enc="utf-8"):
        self.z = z
        self.enc = enc

    def decode(self, enc="utf-8", errors="strict"):
        return self.z

    def __eq__(self, o):
        if isinstance(o, ZBytes):
            return self.z == o.z
        if isinstance(o, bytes):
            try:
                return self.z == o.decode(self.enc)
            except UnicodeDecodeError:
                return False
        return False

    def __ne__(self, o):
        r = self.__eq__(o)
        return (not r) if isinstance(r, bool) else ~r

    def __hash__(self):
        raise Unsupported("hash of symbolic bytes")

    def __bool__(self):
        return bool(self.z)

    def __str__(self):
        return "<symbytes>"
    __repr__ = __str__


class NumStr(ZStr):
    """decimal rendering of a non-negative symbolic integer; equality is by value (the property
    texts' "numbers compared by value")"""

    def __init__(self, n):
        self.n = toint(n)
        self.t = z3.IntToStr(self.n)
        self.parts = None
        self.free_of = ("@", "-", " ", ".")       # a decimal numeral
        self.has = ()

    def __eq__(self, o):
        if isinstance(o, NumStr):
            return SymBool(S(self.n == o.n))
        if isinstance(o, str):
            if o.isdigit() and (o == "0" or not o.startswith("0")):
                return SymBool(S(self.n == int(o)))
            return False
        if isinstance(o, ZStr):
            return SymBool(S(self.t == o.t))
        return False

    def __ne__(self, o):
        r = self.__eq__(o)
        return (not r) if isinstance(r, bool) else SymBool(z3.Not(r.t))

    def __hash__(self):
        raise Unsupported("hash of symbolic string")

    def __bool__(self):
        return True

    def isdigit(self):
        return True
