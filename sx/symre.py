"""regular expressions over strings with symbolic characters (SymStr).

The pattern is parsed by CPython's own regex parser (re._parser); a backtracking matcher walks that syntax tree over
the character list and decides every character test through the explorer (a test on a symbolic character forks the
path; the decision is a fact about the input, so backtracking in the PATTERN never has to undo it).  Supported:
literals, ., classes and ranges (negated too), \\d \\w \\s (ASCII range; anything that may be non-ASCII is outside the
model), alternation, groups (capturing, non-capturing, named), greedy and lazy repetition, ^ $ \\A \\Z, back-references,
look-ahead.  API: match / fullmatch / search / sub / subn / findall / split, module-level and on compiled patterns,
match objects with group / groups / start / end / span.

Validated against the real `re` module by sx/selftest.py (same patterns and strings, characters pinned)."""
import re
import z3
from . import core
from .core import Unsupported, SymInt, SymBool, toint
from .vals import SymStr, SymChar, S

try:
    import re._parser as _parser
    import re._constants as _c
except ImportError:                                      # pragma: no cover
    import sre_parse as _parser
    import sre_constants as _c


def _code(ch):
    return ch.code if isinstance(ch, SymChar) else ord(ch)


def _decide(t):
    if isinstance(t, bool):
        return t
    return core.CTX.branch(t)


def _ascii_only(c, what):
    if isinstance(c, int):
        if c >= 128:
            raise Unsupported("regex %s on a non-ASCII character" % what)
        return
    if core.CTX.is_sat(toint(c) >= 128):
        raise Unsupported("regex %s on a possibly non-ASCII symbolic character" % what)


def _in_ranges(c, ranges):
    if isinstance(c, int):
        return any(lo <= c <= hi for lo, hi in ranges)
    t = toint(c)
    return S(z3.Or([z3.And(t >= lo, t <= hi) if lo != hi else t == lo for lo, hi in ranges])) if ranges else False


_CAT = {
    "CATEGORY_DIGIT": ([(48, 57)], False), "CATEGORY_NOT_DIGIT": ([(48, 57)], True),
    "CATEGORY_WORD": ([(48, 57), (65, 90), (95, 95), (97, 122)], False), "CATEGORY_NOT_WORD": ([(48, 57), (65, 90), (95, 95), (97, 122)], True),
    "CATEGORY_SPACE": ([(9, 13), (28, 32)], False), "CATEGORY_NOT_SPACE": ([(9, 13), (28, 32)], True),
}


def _neg(t):
    return (not t) if isinstance(t, bool) else S(z3.Not(t))


def _or(ts):
    if any(t is True for t in ts):
        return True
    ts = [t for t in ts if t is not False]
    return S(z3.Or(ts)) if ts else False


class Matcher(object):
    def __init__(self, pattern, flags, string):
        if isinstance(pattern, re.Pattern):
            flags = pattern.flags & ~re.UNICODE
            pattern = pattern.pattern
        if not isinstance(pattern, str):
            raise Unsupported("regex pattern of type %s on a symbolic string" % type(pattern).__name__)
        self.flags = flags
        if flags & ~(re.DOTALL | re.MULTILINE | re.IGNORECASE | re.ASCII | re.UNICODE):
            raise Unsupported("regex flags %r" % flags)
        self.tree = _parser.parse(pattern, flags)
        self.ngroups = self.tree.state.groups
        self.groupindex = dict(self.tree.state.groupdict)
        self.chars = list(string.chars) if isinstance(string, SymStr) else list(string)
        self.n = len(self.chars)

    # -- single character tests -> python bool or z3 Bool
    def _lit(self, c, code):
        if self.flags & re.IGNORECASE and chr(code).isalpha():
            _ascii_only(c, "IGNORECASE")
            lo, up = ord(chr(code).lower()), ord(chr(code).upper())
            return _in_ranges(c, [(lo, lo), (up, up)])
        return (c == code) if isinstance(c, int) else S(toint(c) == code)

    def _category(self, c, name):
        name = str(name)
        if name not in _CAT:
            raise Unsupported("regex category %s" % name)
        _ascii_only(c, name)
        ranges, negate = _CAT[name]
        t = _in_ranges(c, ranges)
        return _neg(t) if negate else t

    def _in(self, c, items):
        negate = False
        ts = []
        for op, av in items:
            if op is _c.NEGATE:
                negate = True
            elif op is _c.LITERAL:
                ts.append(self._lit(c, av))
            elif op is _c.RANGE:
                if self.flags & re.IGNORECASE:
                    _ascii_only(c, "IGNORECASE range")
                    lo, hi = av
                    rs = [(lo, hi)]
                    for a, b in ((65, 90), (97, 122)):
                        x, y = max(lo, a), min(hi, b)
                        if x <= y:
                            rs.append((x + 32, y + 32) if a == 65 else (x - 32, y - 32))
                    ts.append(_in_ranges(c, rs))
                else:
                    ts.append(_in_ranges(c, [av]))
            elif op is _c.CATEGORY:
                ts.append(self._category(c, av))
            else:
                raise Unsupported("regex class item %s" % (op,))
        t = _or(ts)
        return _neg(t) if negate else t

    # -- backtracking matcher: generators of (end position, groups)
    def m(self, seq, i, pos, groups):
        if i == len(seq):
            yield pos, groups
            return
        op, av = seq[i]
        nxt = lambda p, g: self.m(seq, i + 1, p, g)
        if op in (_c.LITERAL, _c.NOT_LITERAL, _c.ANY, _c.IN, _c.CATEGORY):
            if pos >= self.n:
                return
            c = _code(self.chars[pos])
            if op is _c.LITERAL:
                t = self._lit(c, av)
            elif op is _c.NOT_LITERAL:
                t = _neg(self._lit(c, av))
            elif op is _c.ANY:
                t = True if self.flags & re.DOTALL else _neg(self._lit(c, 10))
            elif op is _c.IN:
                t = self._in(c, av)
            else:
                t = self._category(c, av)
            if _decide(t):
                yield from nxt(pos + 1, groups)
            return
        if op is _c.SUBPATTERN:
            gid, add, dele, sub = av
            if add or dele:
                raise Unsupported("inline regex flags")
            for p, g in self.m(list(sub), 0, pos, groups):
                g2 = g
                if gid is not None:
                    g2 = dict(g)
                    g2[gid] = (pos, p)
                yield from nxt(p, g2)
            return
        if op is _c.BRANCH:
            for alt in av[1]:
                for p, g in self.m(list(alt), 0, pos, groups):
                    yield from nxt(p, g)
            return
        if op in (_c.MAX_REPEAT, _c.MIN_REPEAT) or (hasattr(_c, "POSSESSIVE_REPEAT") and op is _c.POSSESSIVE_REPEAT):
            lo, hi, sub = av
            sub = list(sub)
            greedy = op is not _c.MIN_REPEAT
            if hasattr(_c, "POSSESSIVE_REPEAT") and op is _c.POSSESSIVE_REPEAT:
                raise Unsupported("possessive repeat")
            hi = self.n + 1 if hi is _c.MAXREPEAT else hi

            def rep(count, p, g):
                more = ()
                if count < hi:
                    def more_gen():
                        for p2, g2 in self.m(sub, 0, p, g):
                            if p2 == p and count >= lo:
                                continue              # empty iteration: no progress
                            yield from rep(count + 1, p2, g2)
                    more = more_gen
                if greedy:
                    if more:
                        yield from more()
                    if count >= lo:
                        yield from nxt(p, g)
                else:
                    if count >= lo:
                        yield from nxt(p, g)
                    if more:
                        yield from more()
            yield from rep(0, pos, groups)
            return
        if op is _c.AT:
            name = str(av)
            if name in ("AT_BEGINNING", "AT_BEGINNING_STRING"):
                ok = pos == 0
                if name == "AT_BEGINNING" and self.flags & re.MULTILINE and pos > 0:
                    ok = _decide(self._lit(_code(self.chars[pos - 1]), 10))
            elif name == "AT_END_STRING":
                ok = pos == self.n
            elif name == "AT_END":
                ok = pos == self.n or (pos == self.n - 1 and _decide(self._lit(_code(self.chars[pos]), 10)))
                if not ok and self.flags & re.MULTILINE and pos < self.n:
                    ok = _decide(self._lit(_code(self.chars[pos]), 10))
            elif name in ("AT_BOUNDARY", "AT_NON_BOUNDARY"):
                def w(k):
                    if k < 0 or k >= self.n:
                        return False
                    return _decide(self._category(_code(self.chars[k]), "CATEGORY_WORD"))
                ok = w(pos - 1) != w(pos)
                if name == "AT_NON_BOUNDARY":
                    ok = not ok
            else:
                raise Unsupported("regex anchor %s" % name)
            if ok:
                yield from nxt(pos, groups)
            return
        if op is _c.GROUPREF:
            span = groups.get(av)
            if span is None:
                return
            a, b = span
            if pos + (b - a) > self.n:
                return
            for k in range(b - a):
                x, y = _code(self.chars[a + k]), _code(self.chars[pos + k])
                t = (x == y) if isinstance(x, int) and isinstance(y, int) else S(toint(x) == toint(y))
                if not _decide(t):
                    return
            yield from nxt(pos + (b - a), groups)
            return
        if op in (_c.ASSERT, _c.ASSERT_NOT):
            direction, sub = av
            if direction < 0:
                raise Unsupported("regex look-behind")
            found = False
            for _p, _g in self.m(list(sub), 0, pos, groups):
                found = True
                break
            if found == (op is _c.ASSERT):
                yield from nxt(pos, groups)
            return
        raise Unsupported("regex construct %s" % (op,))

    def match_at(self, pos, full=False):
        for p, g in self.m(list(self.tree), 0, pos, {}):
            if full and p != self.n:
                continue
            return SymMatch(self, pos, p, g)
        return None

    def search_from(self, start):
        for pos in range(start, self.n + 1):
            mt = self.match_at(pos)
            if mt is not None:
                return mt
        return None


class SymMatch(object):
    def __init__(self, mt, start, end, groups):
        self._m, self._s, self._e, self._g = mt, start, end, groups
        self.re = None
        self.string = SymStr(mt.chars)

    def _gid(self, g):
        if isinstance(g, str):
            return self._m.groupindex[g]
        return g

    def span(self, g=0):
        g = self._gid(g)
        if g == 0:
            return (self._s, self._e)
        if g > self._m.ngroups - 1 + 1 and g not in self._g:
            raise IndexError("no such group")
        return self._g.get(g, (-1, -1))

    def start(self, g=0):
        return self.span(g)[0]

    def end(self, g=0):
        return self.span(g)[1]

    def _text(self, a, b):
        cs = self._m.chars[a:b]
        if all(isinstance(c, str) for c in cs):
            return "".join(cs)
        return SymStr(cs)

    def group(self, *gs):
        if not gs:
            gs = (0,)
        out = []
        for g in gs:
            a, b = self.span(g)
            out.append(None if a < 0 else self._text(a, b))
        return out[0] if len(out) == 1 else tuple(out)

    __getitem__ = group

    def groups(self, default=None):
        out = []
        for g in range(1, self._m.ngroups):
            a, b = self._g.get(g, (-1, -1))
            out.append(default if a < 0 else self._text(a, b))
        return tuple(out)

    def groupdict(self, default=None):
        return {k: (self.group(v) if self._g.get(v) else default) for k, v in self._m.groupindex.items()}

    def __bool__(self):
        return True


def _expand(mt, repl):
    """replacement template with \\1 \\g<name> back-references"""
    out = []
    i = 0
    while i < len(repl):
        ch = repl[i]
        if ch == "\\" and i + 1 < len(repl):
            nx = repl[i + 1]
            if nx.isdigit():
                j = i + 1
                while j < len(repl) and repl[j].isdigit() and j - i <= 2:
                    j += 1
                g = mt.group(int(repl[i + 1:j]))
                out.extend(list(g.chars) if isinstance(g, SymStr) else list(g or ""))
                i = j
                continue
            if nx == "g" and i + 2 < len(repl) and repl[i + 2] == "<":
                j = repl.index(">", i)
                name = repl[i + 3:j]
                g = mt.group(int(name) if name.isdigit() else name)
                out.extend(list(g.chars) if isinstance(g, SymStr) else list(g or ""))
                i = j + 1
                continue
            out.append({"n": "\n", "t": "\t", "r": "\r", "\\": "\\"}.get(nx, nx))
            i += 2
            continue
        out.append(ch)
        i += 1
    return out


def _finditer(pattern, string, flags=0):
    mt = Matcher(pattern, flags, string)
    pos = 0
    while pos <= mt.n:
        r = mt.search_from(pos)
        if r is None:
            return
        yield r
        pos = r.end() if r.end() > r.start() else r.end() + 1


def sub(pattern, repl, string, count=0, flags=0):
    return subn(pattern, repl, string, count, flags)[0]


def subn(pattern, repl, string, count=0, flags=0):
    chars = list(string.chars) if isinstance(string, SymStr) else list(string)
    out, last, n = [], 0, 0
    for r in _finditer(pattern, string, flags):
        if count and n >= count:
            break
        out.extend(chars[last:r.start()])
        rep = repl(r) if callable(repl) else _expand(r, repl)
        out.extend(list(rep.chars) if isinstance(rep, SymStr) else list(rep))
        last = r.end()
        n += 1
    out.extend(chars[last:])
    res = SymStr(out)
    return (res if any(isinstance(c, SymChar) for c in res.chars) else "".join(res.chars)), n


def match(pattern, string, flags=0):
    return Matcher(pattern, flags, string).match_at(0)


def fullmatch(pattern, string, flags=0):
    return Matcher(pattern, flags, string).match_at(0, full=True)


def search(pattern, string, flags=0):
    return Matcher(pattern, flags, string).search_from(0)


def findall(pattern, string, flags=0):
    out = []
    for r in _finditer(pattern, string, flags):
        ng = r._m.ngroups - 1
        out.append(r.group(0) if ng == 0 else (r.group(1) if ng == 1 else r.groups("")))
    return out


def split(pattern, string, maxsplit=0, flags=0):
    chars = list(string.chars) if isinstance(string, SymStr) else list(string)
    out, last, n = [], 0, 0

    def piece(cs):
        return SymStr(cs) if any(isinstance(c, SymChar) for c in cs) else "".join(cs)
    for r in _finditer(pattern, string, flags):
        if maxsplit and n >= maxsplit:
            break
        if r.end() == r.start() and r.start() in (0, len(chars)) and False:
            continue
        out.append(piece(chars[last:r.start()]))
        out.extend(r.groups())
        last = r.end()
        n += 1
    out.append(piece(chars[last:]))
    return out


API = {"sub": sub, "subn": subn, "match": match, "fullmatch": fullmatch, "search": search, "findall": findall, "split": split,
       "finditer": lambda p, s, flags=0: iter(list(_finditer(p, s, flags)))}
