"""Instrumenting import hook: every `yowsup.*` module (tests and generated protobuf modules excluded)
is read from /repo's current working tree, rewritten at AST level and compiled.  Nothing is cached."""
import ast, sys, os, hashlib, importlib.abc, importlib.machinery
from . import hooks

sys.dont_write_bytecode = True
REPO = (os.environ.get("YOWSUP_REPO") or "/repo")
LOADED = {}      # module name -> (path, sha256 of source)
_NOHOOK_NAMES = {"super", "locals", "globals", "vars", "dir", "eval", "exec", "__import__"}


def _load(expr):
    """the same expression in Load context"""
    import copy
    e = copy.deepcopy(expr)
    for x in ast.walk(e):
        if hasattr(x, "ctx"):
            x.ctx = ast.Load()
    return e


class Tx(ast.NodeTransformer):
    def visit_Call(self, n):
        self.generic_visit(n)
        if isinstance(n.func, ast.Name) and n.func.id in _NOHOOK_NAMES:
            return n
        return ast.copy_location(ast.Call(ast.Name("__sx_call__", ast.Load()), [n.func] + n.args, n.keywords), n)

    def visit_Compare(self, n):
        self.generic_visit(n)
        if len(n.ops) == 1 and isinstance(n.ops[0], (ast.In, ast.NotIn)):
            c = ast.Call(ast.Name("__sx_in__", ast.Load()), [n.left, n.comparators[0]], [])
            if isinstance(n.ops[0], ast.NotIn):
                c = ast.UnaryOp(ast.Not(), c)
            return ast.copy_location(c, n)
        return n

    def visit_Subscript(self, n):
        self.generic_visit(n)
        if isinstance(n.ctx, ast.Load) and not isinstance(n.slice, ast.Slice):
            return ast.copy_location(ast.Call(ast.Name("__sx_getitem__", ast.Load()), [n.value, n.slice], []), n)
        return n

    def visit_Assign(self, n):
        self.generic_visit(n)
        if len(n.targets) == 1 and isinstance(n.targets[0], ast.Subscript) and not isinstance(n.targets[0].slice, ast.Slice):
            t = n.targets[0]
            return ast.copy_location(ast.Expr(ast.Call(ast.Name("__sx_setitem__", ast.Load()), [t.value, t.slice, n.value], [])), n)
        if len(n.targets) > 1 and any(isinstance(t, ast.Subscript) and not isinstance(t.slice, ast.Slice) for t in n.targets):
            # a = d[k] = v  ->  tmp = v; a = tmp; __sx_setitem__(d, k, tmp)   (targets assigned left to right, as Python does)
            self._tmp = getattr(self, "_tmp", 0) + 1
            tmp = "__sx_tmp%d" % self._tmp
            out = [ast.copy_location(ast.Assign([ast.Name(tmp, ast.Store())], n.value), n)]
            for t in n.targets:
                if isinstance(t, ast.Subscript) and not isinstance(t.slice, ast.Slice):
                    out.append(ast.copy_location(ast.Expr(ast.Call(ast.Name("__sx_setitem__", ast.Load()), [t.value, t.slice, ast.Name(tmp, ast.Load())], [])), n))
                else:
                    out.append(ast.copy_location(ast.Assign([t], ast.Name(tmp, ast.Load())), n))
            return [ast.fix_missing_locations(o) for o in out]
        return n

    def visit_Delete(self, n):
        self.generic_visit(n)
        out = []
        for t in n.targets:
            if isinstance(t, ast.Subscript) and not isinstance(t.slice, ast.Slice):
                out.append(ast.copy_location(ast.Expr(ast.Call(ast.Name("__sx_delitem__", ast.Load()), [t.value, t.slice], [])), n))
            else:
                if isinstance(t, ast.Subscript):
                    # del x[a:b]: a write access to x (for the access observer); the statement itself is unchanged
                    out.append(ast.copy_location(ast.Expr(ast.Call(ast.Name("__sx_touch__", ast.Load()), [_load(t.value), ast.Constant("w")], [])), n))
                out.append(ast.copy_location(ast.Delete([t]), n))
        return out

    def visit_AugAssign(self, n):
        self.generic_visit(n)
        if isinstance(n.target, (ast.Name, ast.Attribute)):
            # x += y mutates x in place when x is a container
            return [ast.copy_location(ast.Expr(ast.Call(ast.Name("__sx_touch__", ast.Load()), [_load(n.target), ast.Constant("w")], [])), n), n]
        return n

    def visit_BinOp(self, n):
        self.generic_visit(n)
        if isinstance(n.op, ast.Mod):
            return ast.copy_location(ast.Call(ast.Name("__sx_mod__", ast.Load()), [n.left, n.right], []), n)
        return n

    def visit_For(self, n):
        self.generic_visit(n)
        n.iter = ast.copy_location(ast.Call(ast.Name("__sx_iter__", ast.Load()), [n.iter], []), n.iter)
        return n

    def visit_comprehension(self, n):
        self.generic_visit(n)
        n.iter = ast.copy_location(ast.Call(ast.Name("__sx_iter__", ast.Load()), [n.iter], []), n.iter)
        return n

    def visit_FunctionDef(self, n):
        self.generic_visit(n)
        if n.name in ("__str__", "__repr__"):
            n.decorator_list = [ast.copy_location(ast.Name("__sx_strfn__", ast.Load()), n)] + n.decorator_list
        return n

    def visit_ExceptHandler(self, n):
        self.generic_visit(n)
        bare = n.type is None or (isinstance(n.type, ast.Name) and n.type.id == "BaseException")
        if bare:
            n.body = [ast.copy_location(ast.Expr(ast.Call(ast.Name("__sx_reraise__", ast.Load()), [], [])), n)] + n.body
        return n


def sx_iter(x):
    if type(x) is dict and hooks._has_symkey(x):
        return [hooks.unkey(k) for k in x]
    return x


def sx_strfn(fn):
    """__str__/__repr__ of code under test may compute a symbolic string; C-level str() needs a real one"""
    def wrapper(self):
        r = fn(self)
        return r if type(r) is str else "<sym>"
    wrapper.__name__ = fn.__name__
    return wrapper


HOOKS = dict(__sx_strfn__=sx_strfn, __sx_call__=hooks.sx_call, __sx_in__=hooks.sx_in, __sx_getitem__=hooks.sx_getitem,
             __sx_setitem__=hooks.sx_setitem, __sx_delitem__=hooks.sx_delitem, __sx_mod__=hooks.sx_mod,
             __sx_iter__=sx_iter, __sx_reraise__=hooks.sx_reraise, __sx_touch__=hooks.sx_touch)


def instrument_source(src, path):
    tree = ast.parse(src, path)
    tree = ast.fix_missing_locations(Tx().visit(tree))
    return compile(tree, path, "exec", dont_inherit=True)


class Loader(importlib.machinery.SourceFileLoader):
    def get_code(self, fullname):
        path = self.get_filename(fullname)
        data = self.get_data(path)
        LOADED[fullname] = (path, hashlib.sha256(data).hexdigest()[:16])
        return instrument_source(data, path)

    def exec_module(self, module):
        from . import state
        module.__dict__.update(HOOKS)
        state.import_begins()
        try:
            super().exec_module(module)
        finally:
            state.import_ends(module)


def _excluded(origin):
    b = os.path.basename(origin)
    return b.startswith("test_") or b.endswith("_pb2.py")


EXTRA_MODULES = {"ref.wabinary"}      # harness-side reference code that must also run on proxies


class Finder(importlib.abc.MetaPathFinder):
    def find_spec(self, fullname, path, target=None):
        if not (fullname == "yowsup" or fullname.startswith("yowsup.") or fullname in EXTRA_MODULES):
            return None
        spec = importlib.machinery.PathFinder.find_spec(fullname, path)
        if spec and isinstance(spec.loader, importlib.machinery.SourceFileLoader) and not _excluded(spec.origin):
            spec.loader = Loader(spec.loader.name, spec.loader.path)
        return spec


_installed = False


def install():
    """install the hook; yowsup must not have been imported before"""
    global _installed
    if _installed:
        return
    assert not any(m == "yowsup" or m.startswith("yowsup.") for m in sys.modules), "yowsup imported before sx.loader.install()"
    if REPO not in sys.path:
        sys.path.insert(0, REPO)
    sys.meta_path.insert(0, Finder())
    _installed = True


def installed():
    return _installed


def use_repo():
    """plain (uninstrumented) import of /repo's yowsup"""
    if REPO not in sys.path:
        sys.path.insert(0, REPO)
