"""engine self-validation (exit 0 ok, 3 failed):
 1. intrinsic models and SymInt lowering vs CPython on a battery of concrete values (boundary + seeded random)
 2. rope operations vs bytes on random cut positions
 3. the repository's test-suite executed through the instrumenting loader: every baseline test must pass
"""
import sys, os, random, struct, binascii, subprocess, json, time
import z3
from sx import core, hooks
from sx.core import SymInt, SymBool, Ctx
from sx.vals import SymSeq, Piece, SymStr, SymChar, ZStr, NumStr

VERIF = os.path.dirname(os.path.dirname(os.path.abspath(__file__)))


def ev(term, env):
    t = z3.substitute(term, *[(z3.Int(k), z3.IntVal(v)) for k, v in env.items()])
    r = z3.simplify(t)
    if z3.is_int_value(r):
        return r.as_long()
    if z3.is_true(r):
        return True
    if z3.is_false(r):
        return False
    s = z3.Solver()
    s.add(z3.Int("__r") == t) if z3.is_int(t) else None
    assert s.check() == z3.sat
    return s.model().eval(z3.Int("__r")).as_long()


def battery(seed, hi=1 << 33):
    rnd = random.Random(seed)
    vals = [0, 1, 2, 15, 16, 127, 128, 255, 256, 257, 65535, 65536, (1 << 20) - 1, 1 << 20, (1 << 24) - 1, 1 << 24, (1 << 31) - 1, 1 << 31, (1 << 32) - 1]
    vals += [rnd.randrange(0, hi) for _ in range(150)]
    return [v for v in vals if v < hi]


def test_symint(seed):
    n = 0
    x = SymInt(z3.Int("x"))
    y = SymInt(z3.Int("y"))
    core.CTX = Ctx([])
    core.CTX.assume(z3.And(z3.Int("x") >= 0, z3.Int("x") < (1 << 40), z3.Int("y") >= 0, z3.Int("y") < (1 << 40)))
    ops = [
        ("x & 0xFF", lambda a: a & 0xFF), ("x & 0xFF00", lambda a: a & 0xFF00), ("(x & 0xFF00) >> 8", lambda a: (a & 0xFF00) >> 8),
        ("(0xF0000 & x) >> 16", lambda a: (0xF0000 & a) >> 16), ("(0x7F000000 & x) >> 24", lambda a: (0x7F000000 & a) >> 24),
        ("x >> 4", lambda a: a >> 4), ("x << 4", lambda a: a << 4), ("x & 15", lambda a: a & 15), ("x & 0x80", lambda a: a & 0x80), ("x & 0x7f", lambda a: a & 0x7f),
        ("(x>>4)&15", lambda a: (a >> 4) & 15), ("x % 2 << 7 | 5", lambda a: a % 2 << 7 | 5), ("x // 256", lambda a: a // 256), ("x % 256", lambda a: a % 256),
        ("x & 0xA5", lambda a: a & 0xA5), ("x ^ 0x5A", lambda a: a ^ 0x5A), ("x | 0x10", lambda a: a | 0x10),
        ("(x & 0xF) << 16", lambda a: (a & 0xF) << 16), ("x // -7", lambda a: a // -7), ("x % -7", lambda a: a % -7), ("-x // 7", lambda a: (-a) // 7),
    ]
    for name, f in ops:
        r = f(x)
        for v in battery(seed):
            got = ev(core.toint(r), {"x": v})
            assert got == f(v), ("SymInt op %s at %d: model %r, python %r" % (name, v, got, f(v)))
            n += 1
    two = [("(x&255)<<8 | (y&255)", lambda a, b: ((a & 255) << 8) | (b & 255)), ("x | y", lambda a, b: a | b), ("x & y", lambda a, b: a & b),
           ("x ^ y", lambda a, b: a ^ b), ("((x & 0xF) << 16) | ((y&255) << 8) | 7", lambda a, b: ((a & 0xF) << 16) | ((b & 255) << 8) | 7)]
    for name, f in two:
        r = f(x, y)
        b = battery(seed + 1)
        for v, w in zip(b, reversed(b)):
            got = ev(core.toint(r), {"x": v, "y": w})
            assert got == f(v, w), ("SymInt op %s at %d,%d: model %r, python %r" % (name, v, w, got, f(v, w)))
            n += 1
    core.CTX = None
    return n


def test_struct_hex(seed):
    n = 0
    core.CTX = Ctx([])
    x = SymInt(z3.Int("x"))
    for fmt, w in ((">I", 4), (">H", 2), (">Q", 8), ("B", 1)):
        # pack (range check forks: choose in-range side by assumption)
        for v in battery(seed, 1 << (8 * w)):
            c = Ctx([])
            core.CTX = c
            c.assume(z3.Int("x") == v)
            r = hooks.i_pack(fmt, x)
            got = bytes(ev(core.toint(i), {"x": v}) for i in r.items)
            assert got == struct.pack(fmt, v), (fmt, v, got)
            u = hooks.i_unpack(fmt, r)[0]
            assert ev(core.toint(u), {"x": v}) == v
            n += 2
    core.CTX = Ctx([])
    for v in range(256):
        b = SymSeq([SymInt(z3.Int("x"), ub=256)], "bytes")
        h = hooks.i_hexlify(b)
        got = bytes(ev(core.toint(i), {"x": v}) for i in h.items)
        assert got == binascii.hexlify(bytes([v])), (v, got)
        up = h.upper()
        got = bytes(ev(core.toint(i), {"x": v}) for i in up.items)
        assert got == binascii.hexlify(bytes([v])).upper()
        n += 2
    for v in range(256):
        ch = chr(v)
        c = Ctx([])
        core.CTX = c
        c.assume(z3.Int("x") == v)
        s = SymStr(["0", SymChar(SymInt(z3.Int("x")))])
        try:
            r = hooks.i_unhexlify(s)
            got = ev(core.toint(r.items[0]), {"x": v})
            exp = binascii.unhexlify("0" + ch)[0]
            assert got == exp, (v, got, exp)
        except binascii.Error:
            try:
                binascii.unhexlify("0" + ch)
                raise AssertionError("model raised for valid hex %r" % ch)
            except (binascii.Error, ValueError):
                pass
        n += 1
    core.CTX = None
    return n


def test_ropes(seed):
    """random slicing programs on ropes with concrete contents vs bytes"""
    rnd = random.Random(seed)
    n = 0
    for it in range(150):
        data = bytes(rnd.randrange(256) for _ in range(rnd.randrange(0, 24)))
        c = Ctx([])
        core.CTX = c
        # rope made of symbolic-length pieces whose lengths are pinned by assumptions
        cut = sorted(rnd.randrange(0, len(data) + 1) for _ in range(2))
        l1, l2 = z3.Int("l1"), z3.Int("l2")
        c.assume(l1 == cut[0])
        c.assume(l2 == cut[1] - cut[0])
        rope = SymSeq([Piece("A", 0, l1), Piece("A", l1, l2)] + list(data[cut[1]:]), "bytes")
        a, b = rnd.randrange(-3, len(data) + 3), rnd.randrange(-3, len(data) + 3)
        for sl in (slice(None, a), slice(a, None), slice(a, b)):
            r = rope[sl]
            exp = data[sl]
            ln = r.length()
            ln = ln if isinstance(ln, int) else ev(ln.t, {"l1": cut[0], "l2": cut[1] - cut[0]})
            assert ln == len(exp), ("rope slice length", data, cut, sl, ln, len(exp))
            n += 1
    core.CTX = None
    return n


def test_repo_suite():
    env = dict(os.environ)
    env["PYTHONPATH"] = VERIF
    env["PYTHONDONTWRITEBYTECODE"] = "1"
    cmd = [sys.executable, "-m", "pytest", "-q", "-p", "no:cacheprovider", "-p", "sx.pytest_plugin", "--continue-on-collection-errors",
           "/repo/yowsup", "-W", "ignore", "--junitxml=/dev/null"]
    p = subprocess.run(cmd, cwd="/repo", env=env, stdout=subprocess.PIPE, stderr=subprocess.STDOUT, timeout=900)
    out = p.stdout.decode("utf-8", "replace")
    import re
    tail = " ".join(l for l in out.strip().splitlines()[-6:] if " passed" in l or " failed" in l or " error" in l)
    m = re.search(r"(\d+) passed", tail)
    passed = int(m.group(1)) if m else 0
    failed = re.search(r"(\d+) failed", tail)
    errors = re.search(r"(\d+) error", tail)
    return passed, int(failed.group(1)) if failed else 0, int(errors.group(1)) if errors else 0, out


def _conc(v, model):
    """concrete Python value of an engine value under a model"""
    if isinstance(v, SymStr):
        return "".join(chr(_conc(c, model)) if not isinstance(c, str) else c for c in [x.code if isinstance(x, SymChar) else x for x in v.chars])
    if isinstance(v, SymChar):
        return chr(_conc(v.code, model))
    if isinstance(v, SymSeq):
        out = []
        for it in v.items:
            assert not isinstance(it, Piece), "abstract piece in a result"
            out.append(_conc(it, model))
        return bytes(out) if v.kind == "bytes" else bytearray(out)
    if isinstance(v, SymInt):
        return model.eval(v.t, model_completion=True).as_long()
    if isinstance(v, SymBool):
        return bool(z3.is_true(model.eval(v.t, model_completion=True)))
    if isinstance(v, (list, tuple)):
        return type(v)(_conc(x, model) for x in v)
    return v


def test_text_models(seed):
    """str / bytes method models against CPython: the operand's characters are solver variables pinned to the concrete values, so the
    model takes the same decisions the concrete run takes"""
    rnd = random.Random(seed + 7)
    alphabet = "ab:=# \t\n\r\x0b\x0c\x1c\x85x05A9-_/."
    n = 0
    str_ops = [
        ("strip", ()), ("lstrip", ()), ("rstrip", ()), ("strip", ("a: ",)), ("lstrip", ("ab",)), ("rstrip", ("\n=",)),
        ("partition", (":",)), ("rpartition", (":",)), ("partition", ("=#",)), ("split", (":",)), ("split", ("=",)), ("split", (None,)), ("split", ("ab",)),
        ("split", (":", 1)), ("rsplit", (":", 1)), ("rsplit", ("=",)), ("splitlines", ()), ("find", ("b",)), ("find", ("ab",)), ("rfind", ("a",)), ("count", ("a",)), ("count", ("ab",)),
        ("replace", ("a", "xyz")), ("replace", ("ab", "")), ("replace", (":", "=", 1)), ("startswith", ("ab",)), ("startswith", (("x", "a"),)), ("endswith", ((".", "b"),)),
        ("upper", ()), ("lower", ()), ("isdecimal", ()), ("isdigit", ()), ("isalpha", ()), ("isalnum", ()), ("isspace", ()), ("zfill", (5,)), ("ljust", (6, "*")), ("rjust", (6,)),
        ("__contains__", ("b:",)), ("__mul__", (2,)),
    ]
    for it in range(60):
        text = "".join(rnd.choice(alphabet) for _ in range(rnd.randrange(0, 7)))
        if it % 5 == 0:
            text = "".join(rnd.choice("0123456789") for _ in range(rnd.randrange(1, 5)))
        for name, args in str_ops:
            c = Ctx([])
            core.CTX = c
            vs = [z3.Int("c%d" % i) for i in range(len(text))]
            for v, ch in zip(vs, text):
                c.assume(v == ord(ch))
            sym = SymStr([SymChar(SymInt(v, ub=0x110000)) for v in vs])
            try:
                exp = getattr(text, name)(*args)
                exp_exc = None
            except Exception as e:
                exp, exp_exc = None, type(e)
            try:
                got = getattr(sym, name)(*args)
                got_exc = None
            except core.Unsupported:
                continue
            except Exception as e:
                got, got_exc = None, type(e)
            assert got_exc == exp_exc, ("str.%s%r on %r: model raised %r, python %r" % (name, args, text, got_exc, exp_exc))
            if exp_exc is None:
                assert c.check() == z3.sat
                g = _conc(got, c.solver.model())
                assert g == exp and type(g) == type(exp) or (isinstance(exp, tuple) and tuple(g) == exp), ("str.%s%r on %r: model %r, python %r" % (name, args, text, g, exp))
            n += 1
    bytes_ops = [("find", (b"b",)), ("find", (b"ab",)), ("find", (58,)), ("rfind", (b"a",)), ("count", (b"a",)), ("replace", (b"a", b"xy")), ("split", (b":",)), ("split", (b":", 1)),
                 ("startswith", (b"ab",)), ("endswith", (b"b",)), ("endswith", ((b".", b"b"),)), ("hex", ()), ("lower", ()), ("upper", ()), ("isdigit", ()), ("strip", ()), ("lstrip", (b"a\x05",)),
                 ("rstrip", (b"\x05",)), ("__contains__", (b"b:",)), ("__contains__", (97,))]
    for it in range(60):
        data = bytes(rnd.choice(b"ab:\x05\x00 9A.") for _ in range(rnd.randrange(0, 7)))
        for name, args in bytes_ops:
            c = Ctx([])
            core.CTX = c
            vs = [z3.Int("b%d" % i) for i in range(len(data))]
            for v, b in zip(vs, data):
                c.assume(v == b)
            sym = SymSeq([SymInt(v, ub=256) for v in vs], "bytes")
            exp = getattr(data, name)(*args)
            try:
                got = getattr(sym, name)(*args)
            except core.Unsupported:
                continue
            assert c.check() == z3.sat
            g = _conc(got, c.solver.model())
            if isinstance(exp, list):
                g = [bytes(x) for x in g]
            assert g == exp, ("bytes.%s%r on %r: model %r, python %r" % (name, args, data, g, exp))
            n += 1
        # UTF-8 encoding of symbolic characters
        for text in ("aé€😀", "\x7f\x80\u07ff\u0800\uffff\U00010000", "plain"):
            ce = Ctx([])
            core.CTX = ce
            ev_ = [z3.Int("e%d" % i) for i in range(len(text))]
            for v, ch in zip(ev_, text):
                ce.assume(v == ord(ch))
            got = SymStr([SymChar(SymInt(v, ub=0x110000)) for v in ev_]).encode("utf-8")
            assert ce.check() == z3.sat and _conc(got, ce.solver.model()) == text.encode("utf-8"), ("utf-8 encode", text)
            n += 1
        # strict UTF-8 decoding of symbolic bytes (valid and invalid sequences)
        for raw in (data, "é€😀a".encode()[: 1 + it % 10], bytes([0xC3, 0x28]), bytes([0xE0, 0x80, 0x80]), bytes([0xED, 0xA0, 0x80]), bytes([0xF4, 0x90, 0x80, 0x80]), bytes([0x80]), "añb".encode()):
            cu = Ctx([])
            core.CTX = cu
            uv = [z3.Int("u%d" % i) for i in range(len(raw))]
            for v, b in zip(uv, raw):
                cu.assume(v == b)
            try:
                exp = raw.decode("utf-8")
            except UnicodeDecodeError:
                exp = UnicodeDecodeError
            try:
                got = SymSeq([SymInt(v, ub=256) for v in uv], "bytes").decode("utf-8")
                assert cu.check() == z3.sat
                got = _conc(got, cu.solver.model())
            except UnicodeDecodeError:
                got = UnicodeDecodeError
            assert got == exp, ("utf-8 decode", raw, got, exp)
            n += 1
        # integer conversions
        c = Ctx([])
        core.CTX = c
        vs = [z3.Int("b%d" % i) for i in range(len(data))]
        for v, b in zip(vs, data):
            c.assume(v == b)
        sym = SymSeq([SymInt(v, ub=256) for v in vs], "bytes")
        for order in ("big", "little"):
            got = hooks.i_from_bytes(sym, order)
            assert c.check() == z3.sat
            assert _conc(got, c.solver.model()) == int.from_bytes(data, order), ("int.from_bytes", data, order)
            n += 1
        val = int.from_bytes(data[:4], "big")
        x = z3.Int("x")
        c.assume(x == val)
        for ln in (1, 2, 4):
            for order in ("big", "little"):
                try:
                    exp = val.to_bytes(ln, order)
                except OverflowError:
                    exp = OverflowError
                try:
                    got = SymInt(x).to_bytes(ln, order)
                    assert c.check() == z3.sat
                    got = _conc(got, c.solver.model())
                except OverflowError:
                    got = OverflowError
                assert got == exp, ("to_bytes", val, ln, order, got, exp)
                n += 1
        hx = data.hex()
        cs = Ctx([])
        core.CTX = cs
        hv = [z3.Int("h%d" % i) for i in range(len(hx))]
        for v, ch in zip(hv, hx):
            cs.assume(v == ord(ch))
        got = hooks.i_fromhex(SymStr([SymChar(SymInt(v, ub=128)) for v in hv]))
        assert cs.check() == z3.sat and _conc(got, cs.solver.model()) == data
        n += 1
    core.CTX = None
    return n


def test_regex(seed):
    """sx.symre against the real re module: same patterns, subject strings with pinned symbolic characters"""
    import re
    from sx import symre
    rnd = random.Random(seed + 11)
    pats = [r"%[0-9A-F]{2}", r"%[0-9A-F]+", r"[a-c]+", r"^a.*b$", r"(a|b)c", r"(\d+)-(\d+)", r"\s+", r"\w+@\w+\.com", r"a*?b", r"(?:ab)+", r"[^a-c]", r"x?y", r"(a)(b)?", r"\bfoo\b",
            r"(?P<u>[a-z]+)=(?P<v>\d*)", r"a{2,3}", r"(ab|a)(c|bcd)", r"$", r"^", r"(.)\1", r"a(?=b)", r"a(?!b)", r"[A-Fa-f0-9]+", r".", r""]
    alphabet = "abcAF%09 =-x@.\nfo"
    n = 0
    for it in range(40):
        text = "".join(rnd.choice(alphabet) for _ in range(rnd.randrange(0, 8)))
        if it % 4 == 0:
            text = rnd.choice(["a+b%2Bc", "x%2bA", "foo bar", "ab=12", "user@host.com", "aaab", "12-34", "abcd", "aa"])
        for p in pats:
            c = Ctx([])
            core.CTX = c
            vs = [z3.Int("r%d" % i) for i in range(len(text))]
            for v, ch in zip(vs, text):
                c.assume(v == ord(ch))
            sym = SymStr([SymChar(SymInt(v, ub=0x110000)) for v in vs])

            def norm(x, model):
                if x is None:
                    return None
                if isinstance(x, symre.SymMatch):
                    return (x.span(), tuple(norm(g, model) for g in x.groups()))
                if isinstance(x, re.Match):
                    return (x.span(), x.groups())
                if isinstance(x, (list, tuple)):
                    return type(x)(norm(y, model) for y in x)
                return _conc(x, model)
            for name, args in (("match", ()), ("search", ()), ("fullmatch", ()), ("findall", ()), ("split", ()), ("sub", ("<\\g<0>>",)), ("sub", (lambda m_: m_.group(0).lower(),))):
                try:
                    if name == "sub":
                        exp = re.sub(p, args[0], text)
                        got = symre.sub(p, args[0], sym)
                    else:
                        exp = getattr(re, name)(p, text)
                        got = getattr(symre, name)(p, sym)
                except core.Unsupported:
                    continue
                assert c.check() == z3.sat
                g = norm(got, c.solver.model())
                e = norm(exp, None)
                assert g == e, ("re.%s(%r, %r): model %r, python %r" % (name, p, text, g, e))
                n += 1
            # the same through the call hook the instrumented code goes through: module function and compiled-pattern method
            from sx import hooks
            for f in (lambda: hooks.sx_call(re.match, p, sym), lambda: hooks.sx_call(re.compile(p).match, sym), lambda: hooks.sx_call(re.compile(p).search, sym)):
                try:
                    got = f()
                except core.Unsupported:
                    continue
                assert got is None or isinstance(got, symre.SymMatch), "call hook did not route %r on a symbolic string to the regex model" % p
                n += 1
    core.CTX = None
    return n


def test_symsql(seed):
    """the symbolic SQL engine against the real sqlite3 library: the repository's store classes are driven through the same
    random operation sequences (concrete values) on both, incl. process deaths (connection abandoned without commit) and
    reopening; every return value and the durable table contents must agree"""
    import sqlite3, tempfile, shutil
    from sx import symsql, loader
    sys.path.insert(0, (os.environ.get("YOWSUP_REPO") or "/repo"))
    import yowsup.axolotl.store.sqlite.liteaxolotlstore as m
    import yowsup.axolotl.store.sqlite.liteidentitykeystore as mi
    import yowsup.axolotl.store.sqlite.litesenderkeystore as ms
    from checks.c13 import Tok, SKName

    class FixedKH(object):
        @staticmethod
        def generateIdentityKeyPair():
            class P(object):
                def getPublicKey(s):
                    return Tok2(b"\x05" + bytes(range(32)))

                def getPrivateKey(s):
                    return Tok(bytes(range(32, 64)))
            return P()

        @staticmethod
        def generateRegistrationId(x):
            return 4242

    class Tok2(Tok):
        def getPublicKey(self):
            return self
    rnd = random.Random(seed)
    n = 0
    tmp = tempfile.mkdtemp(prefix="symsql_", dir="/dev/shm" if os.path.isdir("/dev/shm") else None)
    old = (m.sqlite3, ms.sqlite3, mi.KeyHelper)
    try:
        mi.KeyHelper = FixedKH
        for trial in range(12):
            path = os.path.join(tmp, "t%d.db" % trial)
            symsql.reset()
            stores = {}

            def open_(engine):
                m.sqlite3 = ms.sqlite3 = engine
                return m.LiteAxolotlStore(path if engine is sqlite3 else "sym:" + path)
            stores["real"], stores["sym"] = open_(sqlite3), open_(symsql)
            for step in range(40):
                op = rnd.choice(["storeSession", "deleteSession", "deleteAll", "containsSession", "subDevices", "saveIdentity", "trusted", "storePreKey", "removePreKey", "containsPreKey",
                                 "setAsSent", "maxPreKey", "unsent", "nullcmp", "storeSigned", "removeSigned", "storeSenderKey", "loadSenderRaw", "die", "regid", "pragma", "literal"])
                r, i, g = rnd.choice([11, 22, 33]), rnd.choice([5, 6, 7]), rnd.choice(["g1@g.us", "g2@g.us"])
                sender = rnd.choice(["4915901", "77"])
                blob = bytes([rnd.randrange(256) for _ in range(rnd.randrange(1, 9))])
                jmode, sync = rnd.choice(["MEMORY", "DELETE", "OFF", "WAL", "TRUNCATE", "persist", "bogus"]), rnd.choice(["OFF", "1", "FULL"])
                res = {}
                for name in ("real", "sym"):
                    st = stores[name]
                    m.sqlite3 = ms.sqlite3 = sqlite3 if name == "real" else symsql
                    try:
                        if op == "storeSession":
                            out = st.storeSession(r, 1, Tok(blob))
                        elif op == "deleteSession":
                            out = st.deleteSession(r, 1)
                        elif op == "deleteAll":
                            out = st.deleteAllSessions(r)
                        elif op == "containsSession":
                            out = st.containsSession(r, 1)
                        elif op == "subDevices":
                            out = st.getSubDeviceSessions(r)
                        elif op == "saveIdentity":
                            out = st.saveIdentity(r, Tok(blob))
                        elif op == "trusted":
                            out = st.isTrustedIdentity(r, Tok(blob))
                        elif op == "storePreKey":
                            out = st.storePreKey(i, Tok(blob))
                        elif op == "removePreKey":
                            out = st.removePreKey(i)
                        elif op == "containsPreKey":
                            out = st.containsPreKey(i)
                        elif op == "setAsSent":
                            out = st.preKeyStore.setAsSent([i, i + 1])
                        elif op == "maxPreKey":
                            out = st.preKeyStore.loadMaxPreKeyId()
                        elif op == "unsent":
                            c = st.preKeyStore.dbConn.cursor()
                            c.execute("SELECT record FROM prekeys WHERE sent_to_server is NULL or sent_to_server = ?", (0,))
                            out = [bytes(x[0]) for x in c.fetchall()]
                        elif op == "nullcmp":
                            c = st.preKeyStore.dbConn.cursor()
                            out = [sorted(c.execute(q, (0,)).fetchall()) for q in ("SELECT prekey_id FROM prekeys WHERE sent_to_server = ?", "SELECT prekey_id FROM prekeys WHERE sent_to_server != ?",
                                                                                   "SELECT prekey_id FROM prekeys WHERE sent_to_server is not NULL or prekey_id = ?")]
                        elif op == "storeSigned":
                            out = st.storeSignedPreKey(i, Tok(blob))
                        elif op == "removeSigned":
                            out = st.removeSignedPreKey(i)
                        elif op == "storeSenderKey":
                            out = st.storeSenderKey(SKName(g, sender), Tok(blob))
                        elif op == "loadSenderRaw":
                            c = st.senderKeyStore.dbConn.cursor()
                            c.execute("SELECT record FROM sender_keys WHERE group_id = ? and sender_id = ?", (g, sender))
                            x = c.fetchone()
                            out = bytes(x[0]) if x else None
                        elif op == "pragma":
                            conn = st.identityKeyStore.dbConn
                            conn.commit()
                            out = (jmode, conn.execute("PRAGMA journal_mode = %s" % jmode).fetchone(), conn.execute("PRAGMA journal_mode").fetchone(),
                                   conn.execute("PRAGMA synchronous = %s" % sync).fetchone(), conn.execute("PRAGMA synchronous").fetchone())
                        elif op == "literal":
                            c = st.preKeyStore.dbConn.cursor()
                            out = [c.execute("SELECT 1 FROM prekeys WHERE prekey_id = ?", (i,)).fetchone(), sorted(c.execute("SELECT 'x', prekey_id, 7 FROM prekeys").fetchall())]
                        elif op == "regid":
                            out = (st.getLocalRegistrationId(), [bytes(x) for x in st.identityKeyStore.dbConn.cursor().execute("SELECT public_key, private_key FROM identities WHERE recipient_id = -1").fetchone()])
                        elif op == "die":
                            # the process dies in the middle of a session replacement or not at all; then restarts
                            conn = st.identityKeyStore.dbConn
                            conn.cursor().execute("DELETE FROM sessions WHERE recipient_id = ? AND device_id = ?", (r, 1))
                            conn.close()
                            stores[name] = st = open_(sqlite3 if name == "real" else symsql)
                            out = "restarted"
                    except (sqlite3.IntegrityError, sqlite3.OperationalError) as e:
                        out = ("raised", type(e).__name__)
                    res[name] = out
                assert res["real"] == res["sym"], "symsql differs from sqlite3 on %s(%s,%s,%s): real %r, model %r" % (op, r, i, g, res["real"], res["sym"])
                n += 1
            # durable contents
            stores["real"].identityKeyStore.dbConn.commit()
            stores["sym"].identityKeyStore.dbConn.commit()
            c = sqlite3.connect(path)
            for t, cols in (("sessions", "recipient_id, device_id, record"), ("identities", "recipient_id, registration_id, public_key, private_key"), ("prekeys", "prekey_id, sent_to_server, record"),
                            ("signed_prekeys", "prekey_id, record"), ("sender_keys", "group_id, sender_id, record")):
                real = sorted(tuple(x) for x in c.execute("SELECT %s FROM %s" % (cols, t)).fetchall())
                mod = sorted(tuple(r_[k.strip()] for k in cols.split(",")) for r_ in symsql.committed_rows("sym:" + path, t))
                assert repr(real) == repr(mod), "symsql durable table %s differs: real %r model %r" % (t, real, mod)
                n += 1
            c.close()
            for st in stores.values():
                st.identityKeyStore.dbConn.close()
    finally:
        m.sqlite3, ms.sqlite3, mi.KeyHelper = old
        shutil.rmtree(tmp, ignore_errors=True)
    return n


def main():
    seed = int(os.environ.get("VERIF_SEED", "0") or 0)
    t0 = time.time()
    res = {}
    try:
        res["symint_points"] = test_symint(seed)
        res["struct_hex_points"] = test_struct_hex(seed)
        res["rope_points"] = test_ropes(seed)
        res["text_model_points"] = test_text_models(seed)
        res["regex_points"] = test_regex(seed)
        res["symsql_vs_sqlite_points"] = test_symsql(seed)
    except AssertionError as e:
        print("SELFTEST FAILED (intrinsic model differs from CPython): %s" % (e,))
        return 3
    if "--fast" not in sys.argv:
        passed, failed, errors, out = test_repo_suite()
        res["repo_suite_instrumented"] = dict(passed=passed, failed=failed, errors=errors)
        if failed or errors or passed < 79:
            print(out[-3000:])
            print("SELFTEST FAILED: repository suite through the instrumenting loader: %d passed, %d failed, %d errors" % (passed, failed, errors))
            return 3
    res["wall_s"] = round(time.time() - t0, 1)
    print("selftest ok", json.dumps(res))
    return 0


if __name__ == "__main__":
    sys.exit(main())
