"""generic proto2 message stub generated at run time from protobuf DESCRIPTORs, able to hold proxy values.

Semantics reproduced (validated differentially against the real protobuf classes by checks/c10.py:h_stub_vs_real):
  * scalar field read: value if set else the field default; write: type-checked (None -> TypeError); HasField for optional
    scalars and messages; unknown attribute names -> AttributeError (read and write)
  * message field read: auto-created child that becomes present in its parent when anything in it is set or merged
  * repeated fields: list-like containers (slice assignment, extend, len, iteration)
  * MergeFrom / CopyFrom / Clear / ListFields(names) ; SerializeToString -> opaque Wire object, ParseFromString(Wire)
"""
from google.protobuf.descriptor import FieldDescriptor as FD
from .core import Sym, SymInt, SymBool, SymReal, Unsupported
from .vals import SymSeq, ZStr, ZBytes, SymStr

_INT_TYPES = {FD.TYPE_INT32: (-2 ** 31, 2 ** 31 - 1), FD.TYPE_INT64: (-2 ** 63, 2 ** 63 - 1), FD.TYPE_UINT32: (0, 2 ** 32 - 1), FD.TYPE_UINT64: (0, 2 ** 64 - 1),
              FD.TYPE_SINT32: (-2 ** 31, 2 ** 31 - 1), FD.TYPE_SINT64: (-2 ** 63, 2 ** 63 - 1), FD.TYPE_FIXED32: (0, 2 ** 32 - 1), FD.TYPE_FIXED64: (0, 2 ** 64 - 1),
              FD.TYPE_SFIXED32: (-2 ** 31, 2 ** 31 - 1), FD.TYPE_SFIXED64: (-2 ** 63, 2 ** 63 - 1), FD.TYPE_ENUM: (-2 ** 31, 2 ** 31 - 1)}


class Wire(object):
    """serialised stub message (opaque); instrumented code sees a bytes object"""
    __sx_virtual_type__ = bytes

    def __init__(self, snapshot):
        self.snapshot = snapshot


class Repeated(object):
    def __init__(self, owner, field):
        self._owner, self._field, self._items = owner, field, []

    def _touch(self):
        self._owner._mark_present()

    def extend(self, xs):
        xs = list(xs)
        if xs:
            self._touch()
        self._items.extend(xs)

    def append(self, x):
        self._touch()
        self._items.append(x)

    def __setitem__(self, k, v):
        if isinstance(k, slice):
            self._items[k] = list(v)
        else:
            self._items[k] = v
        self._touch()

    def __getitem__(self, k):
        return self._items[k]

    def __len__(self):
        return len(self._items)

    def __iter__(self):
        return iter(self._items)

    def __eq__(self, o):
        return list(self._items) == list(o)

    def __ne__(self, o):
        return not self.__eq__(o)


def _check_value(f, v):
    if v is None:
        raise TypeError("None has type NoneType, but expected a %s value for field %s" % (f.type, f.name))
    t = f.type
    if t in (FD.TYPE_STRING,):
        if not isinstance(v, (str, ZStr, SymStr)):
            raise TypeError("%r has type %s, but expected one of: (str,)" % (v, type(v).__name__))
    elif t == FD.TYPE_BYTES:
        if not (isinstance(v, bytes) or (isinstance(v, SymSeq) and v.kind == "bytes") or isinstance(v, ZBytes)):
            raise TypeError("%r has type %s, but expected one of: (bytes,)" % (type(v).__name__, type(v).__name__))
    elif t == FD.TYPE_BOOL:
        if not isinstance(v, (bool, int, SymBool)):
            raise TypeError("expected bool")
    elif t in _INT_TYPES:
        if isinstance(v, bool) or not isinstance(v, (int, SymInt)):
            if isinstance(v, bool):
                return
            raise TypeError("%r has type %s, but expected one of: (int,)" % (v, type(v).__name__))
        lo, hi = _INT_TYPES[t]
        ok = (v >= lo) & (v <= hi) if isinstance(v, SymInt) else (lo <= v <= hi)
        if not bool(ok):
            raise ValueError("Value out of range for field %s (%s)" % (f.name, "a solver-chosen value" if isinstance(v, SymInt) else v))
    elif t in (FD.TYPE_DOUBLE, FD.TYPE_FLOAT):
        if isinstance(v, bool) or not isinstance(v, (int, float, SymInt, SymReal)):
            raise TypeError("expected float")


_CLASSES = {}


def stub_class(desc):
    """stub class for a message descriptor (cached per descriptor full name)"""
    if desc.full_name in _CLASSES:
        return _CLASSES[desc.full_name]
    fields = {f.name: f for f in desc.fields}

    class Stub(object):
        DESCRIPTOR = desc
        _FIELDS = fields

        def __init__(self, _parent=None, _pfield=None, **kw):
            object.__setattr__(self, "_vals", {})
            object.__setattr__(self, "_parent", _parent)
            object.__setattr__(self, "_pfield", _pfield)
            object.__setattr__(self, "_present", _parent is None)
            for k, v in kw.items():
                setattr(self, k, v)

        def _mark_present(self):
            if not self._present:
                object.__setattr__(self, "_present", True)
            p = self._parent
            if p is not None:
                p._vals[self._pfield] = self
                p._mark_present()

        def __getattr__(self, name):
            f = fields.get(name)
            if f is None:
                raise AttributeError(name)
            if name in self._vals:
                return self._vals[name]
            if f.label == FD.LABEL_REPEATED:
                r = Repeated(self, f)
                self._vals[name] = r
                return r
            if f.type == FD.TYPE_MESSAGE:
                # auto-created child, not present until modified
                cache = self.__dict__.setdefault("_children", {})
                if name not in cache:
                    cache[name] = stub_class(f.message_type)(_parent=self, _pfield=name)
                return cache[name]
            return f.default_value

        def __setattr__(self, name, v):
            f = fields.get(name)
            if f is None:
                raise AttributeError("Assignment not allowed (no field \"%s\" in protocol message object)." % name)
            if f.label == FD.LABEL_REPEATED or f.type == FD.TYPE_MESSAGE:
                raise AttributeError("Assignment not allowed to %s field \"%s\" in protocol message object." % ("repeated" if f.label == FD.LABEL_REPEATED else "composite", name))
            _check_value(f, v)
            self._vals[name] = v
            self._mark_present()

        def HasField(self, name):
            f = fields.get(name)
            if f is None:
                raise ValueError("Protocol message %s has no field %s." % (desc.name, name))
            if f.label == FD.LABEL_REPEATED:
                raise ValueError("Protocol message has no singular \"%s\" field." % name)
            if f.type == FD.TYPE_MESSAGE:
                return name in self._vals and self._vals[name]._present
            return name in self._vals

        def ClearField(self, name):
            self._vals.pop(name, None)
            self.__dict__.get("_children", {}).pop(name, None)

        def MergeFrom(self, other):
            if not isinstance(other, Stub):
                raise TypeError("Parameter to MergeFrom() must be instance of same class: expected %s got %s." % (desc.full_name, type(other).__name__))
            self._mark_present()
            for name, v in other._vals.items():
                f = fields[name]
                if f.label == FD.LABEL_REPEATED:
                    getattr(self, name).extend(list(v))
                elif f.type == FD.TYPE_MESSAGE:
                    if v._present:
                        getattr(self, name).MergeFrom(v)
                else:
                    self._vals[name] = v

        def CopyFrom(self, other):
            self._vals.clear()
            self.__dict__.pop("_children", None)
            self.MergeFrom(other)

        def ListFieldNames(self):
            out = []
            for name, v in self._vals.items():
                f = fields[name]
                if f.label == FD.LABEL_REPEATED:
                    if len(v):
                        out.append(name)
                elif f.type == FD.TYPE_MESSAGE:
                    if v._present:
                        out.append(name)
                else:
                    out.append(name)
            return sorted(out)

        def SerializeToString(self):
            c = type(self)()
            c.MergeFrom(self)
            return Wire(c)

        def ParseFromString(self, data):
            if not isinstance(data, Wire):
                raise Unsupported("ParseFromString of non-stub bytes")
            self._vals.clear()
            self.__dict__.pop("_children", None)
            self.MergeFrom(data.snapshot)

        def __bool__(self):
            return True

    Stub.__name__ = "Stub_" + desc.name
    _CLASSES[desc.full_name] = Stub
    for nt in desc.nested_types:
        setattr(Stub, nt.name, stub_class(nt))
    for et in desc.enum_types:
        for v in et.values:
            setattr(Stub, v.name, v.number)
    return Stub
