"""process-level mutable state of the code under test.

Every explored path stands for a fresh process.  Containers that live at module level, at class level or as default argument values of the
code under test survive from one path to the next inside a worker; if the code (or a changed version of it) writes to one of them, later
paths would start from a state no fresh process has.  Every such container is recorded when its module is loaded and put back to its
import-time content before each path (changes made by later imports -- registries filled at import time -- are folded into the baseline)."""
import copy, types

MUT = (dict, list, set, bytearray)
_SNAP = {}        # id(container) -> [container, baseline copy]
_depth = [0]
_pre = [None]


def _sig(c):
    if type(c) is dict:
        return tuple((id(k), id(v)) for k, v in c.items())
    if type(c) is bytearray:
        return bytes(c)
    return tuple(id(x) for x in c)


def _note(c):
    if type(c) in MUT and id(c) not in _SNAP:
        _SNAP[id(c)] = [c, copy.copy(c)]


def _func(f):
    for d in (getattr(f, "__defaults__", None) or ()):
        _note(d)
    for d in (getattr(f, "__kwdefaults__", None) or {}).values():
        _note(d)


def _class(cls):
    for name, v in list(vars(cls).items()):
        if name.startswith("__") and name.endswith("__"):
            continue
        if type(v) in MUT:
            _note(v)
        elif isinstance(v, types.FunctionType):
            _func(v)
        elif isinstance(v, (classmethod, staticmethod)):
            _func(v.__func__)
        elif isinstance(v, property):
            for f in (v.fget, v.fset, v.fdel):
                if f is not None:
                    _func(f)


def snapshot_module(mod):
    for name, v in list(vars(mod).items()):
        if name.startswith("__"):
            continue
        if type(v) in MUT:
            _note(v)
        elif getattr(v, "__module__", None) == mod.__name__:
            if isinstance(v, type):
                _class(v)
            elif isinstance(v, types.FunctionType):
                _func(v)


def import_begins():
    if _depth[0] == 0:
        _pre[0] = {i: _sig(e[0]) for i, e in _SNAP.items()}
    _depth[0] += 1


def import_ends(mod):
    _depth[0] -= 1
    snapshot_module(mod)
    if _depth[0] == 0 and _pre[0] is not None:
        # what the import itself changed in containers recorded earlier belongs to the baseline
        for i, e in _SNAP.items():
            sig = _pre[0].get(i)
            if sig is None or _sig(e[0]) != sig:
                # changed by this import, or first seen during it (e.g. a registry that a sibling module's class creation filled)
                e[1] = copy.copy(e[0])
        _pre[0] = None


def restore():
    n = 0
    for c, base in _SNAP.values():
        if _sig(c) == _sig(base):
            continue
        n += 1
        if type(c) is dict:
            c.clear()
            c.update(base)
        elif type(c) is set:
            c.clear()
            c.update(base)
        else:
            c[:] = base
    return n
