"""check driver: distributes the cases of one property over worker processes (symbolic exploration of
the instrumented real code), replays every solver model concretely against the uninstrumented code,
classifies confirmed violations against known_findings.json, writes evidence, sets the exit code.

exit 0: held on everything explored (known findings are printed as KNOWN-FINDING lines)
exit 1: a replayed violation that is not a listed finding (VIOLATION line printed)
exit 3: harness error (spurious counterexample, worker crash, failed self-validation)
"""
import sys, os, json, time, subprocess, importlib, argparse, hashlib, concurrent.futures, traceback, tempfile

VERIF = os.path.dirname(os.path.dirname(os.path.abspath(__file__)))
EVDIR = os.environ.get("VERIF_EVIDENCE_DIR") or os.path.join(VERIF, "evidence")      # scratch runs against other trees write elsewhere
PY = sys.executable


def load_check(pid):
    return importlib.import_module("checks.%s" % pid.lower())


def case_list(mod, tier):
    cs = mod.cases(tier)
    names = [c["name"] for c in cs]
    assert len(set(names)) == len(names), "duplicate case names"
    return cs


# ---------------------------------------------------------------------------------------------
# worker side
def worker_main(argv):
    ap = argparse.ArgumentParser()
    ap.add_argument("module")
    ap.add_argument("--tier", default="quick")
    ap.add_argument("--cases", required=True)
    ap.add_argument("--out", required=True)
    a = ap.parse_args(argv)
    sys.dont_write_bytecode = True
    import logging
    logging.disable(logging.CRITICAL)
    from sx import loader, core, harness
    loader.install()
    mod = importlib.import_module(a.module)
    want = a.cases.split("\t")
    cs = {c["name"]: c for c in mod.cases(a.tier)}
    results = []
    seed = int(os.environ.get("VERIF_SEED", "0") or 0)
    import z3
    z3.set_param("smt.random_seed", seed % (2 ** 31))
    z3.set_param("sat.random_seed", seed % (2 ** 31))
    for name in want:
        c = cs[name]
        t0 = time.time()
        fn = c["fn"]
        args = c.get("args", ())

        core.QUERY_TIMEOUT_MS = c.get("query_timeout_ms", getattr(mod, "DEFAULT_QUERY_TIMEOUT_MS", 20000))

        def run(ctx, fn=fn, args=args):
            harness.reset_yowsup()
            return fn(ctx, *args)
        try:
            st = core.explore(run, max_paths=c.get("max_paths", 20000), timeout_s=c.get("timeout_s", getattr(mod, "DEFAULT_TIMEOUT_S", 120)),
                              expected=tuple(c.get("expected", ())))
        except BaseException as e:
            st = dict(paths=0, infeasible=0, obligations=0, discharged=0, queries=0, solver_s=0.0, violations=[],
                      inconclusive=["worker exception %s: %s" % (type(e).__name__, e)], samples=[], complete=False,
                      max_decisions=0, crash=traceback.format_exc()[-2000:])
        st["name"] = name
        st["wall_s"] = round(time.time() - t0, 3)
        st["solver_s"] = round(st["solver_s"], 3)
        max_s = c.get("keep_samples", 6)
        st["n_samples"] = len(st["samples"])
        if len(st["samples"]) > max_s:
            # keep an evenly spread subset for replay/evidence
            k = len(st["samples"])
            idx = sorted(set(int(i * (k - 1) / (max_s - 1)) for i in range(max_s)))
            st["samples"] = [st["samples"][i] for i in idx]
        results.append(st)
    out = {"results": results, "loaded": loader.LOADED}
    with open(a.out, "w") as f:
        json.dump(out, f, default=str)


def replayer_main(argv):
    ap = argparse.ArgumentParser()
    ap.add_argument("module")
    ap.add_argument("--tier", default="quick")
    ap.add_argument("--inp", required=True)
    ap.add_argument("--out", required=True)
    a = ap.parse_args(argv)
    sys.dont_write_bytecode = True
    import logging
    logging.disable(logging.CRITICAL)
    from sx import loader, core, harness
    loader.use_repo()
    mod = importlib.import_module(a.module)
    cs = {c["name"]: c for c in mod.cases(a.tier)}
    jobs = json.load(open(a.inp))
    out = []
    for j in jobs:
        c = cs[j["case"]]
        harness.reset_yowsup()
        fn = c["fn"]
        args = c.get("args", ())
        try:
            r = core.run_concrete(lambda ctx: fn(ctx, *args), j["values"], expected=tuple(c.get("expected", ())))
        except BaseException as e:
            r = {"failed": [], "error": "%s: %s" % (type(e).__name__, e), "tb": traceback.format_exc()[-1500:]}
        r["case"] = j["case"]
        r["values"] = j["values"]
        r["role"] = j["role"]
        r["label"] = j.get("label")
        out.append(r)
    json.dump(out, open(a.out, "w"), default=str)


# ---------------------------------------------------------------------------------------------
def _spawn(kind, modname, tier, extra, out, timeout):
    cmd = [PY, "-m", "sx.run", kind, modname, "--tier", tier] + extra + ["--out", out]
    env = dict(os.environ)
    env["PYTHONPATH"] = VERIF + os.pathsep + env.get("PYTHONPATH", "")
    env["PYTHONDONTWRITEBYTECODE"] = "1"
    env["PYTHONHASHSEED"] = "0"
    try:
        p = subprocess.run(cmd, env=env, cwd=VERIF, stdout=subprocess.PIPE, stderr=subprocess.STDOUT, timeout=timeout)
        return p.returncode, p.stdout.decode("utf-8", "replace")
    except subprocess.TimeoutExpired as e:
        return 124, "timeout after %ss\n%s" % (timeout, (e.stdout or b"").decode("utf-8", "replace")[-2000:])


def load_known(pid):
    p = os.path.join(VERIF, "known_findings.json")
    if not os.path.exists(p):
        return []
    return [e for e in json.load(open(p)).get("findings", []) if e.get("property") == pid]


def default_key(mod, case, label, where):
    fam = case.split("[")[0]
    lab = label
    if lab.startswith("raised "):
        lab = lab.split(":")[0]
        inner = (where or "").split("; ")[-1].split(" ")[-1] if where else ""
        return "%s|%s|%s" % (fam, lab, inner)
    return "%s|%s" % (fam, lab)


def main(argv=None):
    ap = argparse.ArgumentParser()
    ap.add_argument("property")
    ap.add_argument("--tier", default=os.environ.get("VERIF_TIER", "quick"))
    ap.add_argument("--jobs", type=int, default=int(os.environ.get("VERIF_JOBS", "16")))
    ap.add_argument("--only", default=None, help="substring filter on case names (debugging)")
    ap.add_argument("--replay", default=None, help="replay file: re-run one recorded counterexample concretely")
    ap.add_argument("--save-witnesses", action="store_true", help="maintenance: store this run's path models as witnesses/<ID>.json (run on the pinned tree only)")
    a = ap.parse_args(argv)
    pid = a.property.upper()
    tier = a.tier
    seed = int(os.environ.get("VERIF_SEED", "0") or 0)
    t0 = time.time()
    sys.path.insert(0, VERIF)
    mod = load_check(pid)
    modname = "checks.%s" % pid.lower()
    if a.replay:
        return replay_file(modname, a.replay)
    cs = case_list(mod, tier)
    if a.only:
        cs = [c for c in cs if a.only in c["name"]]
    tmp = tempfile.mkdtemp(prefix="sx_%s_" % pid, dir=os.environ.get("VERIF_TMP", None))
    harness_errors = []
    # ---- distribute: greedy by declared weight
    nj = max(1, min(a.jobs, len(cs)))
    bins = [[] for _ in range(nj)]
    load = [0.0] * nj
    for c in sorted(cs, key=lambda c: -c.get("weight", 1.0)):
        i = load.index(min(load))
        bins[i].append(c["name"])
        load[i] += c.get("weight", 1.0)
    results = {}
    loaded = {}
    budget = sum(c.get("timeout_s", getattr(mod, "DEFAULT_TIMEOUT_S", 120)) for c in cs)

    def run_bin(i):
        if not bins[i]:
            return None
        out = os.path.join(tmp, "w%d.json" % i)
        tmo = sum(next(c for c in cs if c["name"] == n).get("timeout_s", getattr(mod, "DEFAULT_TIMEOUT_S", 120)) for n in bins[i]) + 60
        rc, log = _spawn("worker", modname, tier, ["--cases", "\t".join(bins[i])], out, tmo)
        return i, rc, log, out
    with concurrent.futures.ThreadPoolExecutor(nj) as ex:
        for r in ex.map(run_bin, range(nj)):
            if r is None:
                continue
            i, rc, log, out = r
            if rc != 0 or not os.path.exists(out):
                harness_errors.append("worker %d rc=%s: %s" % (i, rc, log[-1500:]))
                continue
            d = json.load(open(out))
            loaded.update(d["loaded"])
            for st in d["results"]:
                results[st["name"]] = st
    # ---- concrete replay of every path sample and every violation model
    jobs = []
    for name, st in results.items():
        for s in st["samples"]:
            jobs.append({"case": name, "values": s["values"], "role": "sample"})
        for v in st["violations"]:
            if v.get("values") is not None:
                jobs.append({"case": name, "values": v["values"], "role": "violation", "label": v["label"]})
    # stored witnesses: solver models of the paths explored on the pinned tree; replayed concretely on every run so that a
    # changed tree which defeats the symbolic run (Unsupported / timeout) is still confronted with the solver-derived inputs
    wpath = os.path.join(VERIF, "witnesses", "%s.json" % pid)
    n_wit = 0
    if os.path.exists(wpath) and not a.save_witnesses:
        names = set(c["name"] for c in cs)
        for name, vals in json.load(open(wpath)).get(tier, {}).items():
            if name in names:
                for v in vals:
                    jobs.append({"case": name, "values": v, "role": "witness"})
                    n_wit += 1
    replayed = []
    if jobs:
        nr = max(1, min(a.jobs, (len(jobs) + 7) // 8))
        chunks = [jobs[i::nr] for i in range(nr)]

        def run_rep(i):
            inp = os.path.join(tmp, "r%d.in.json" % i)
            out = os.path.join(tmp, "r%d.out.json" % i)
            json.dump(chunks[i], open(inp, "w"))
            rc, log = _spawn("replayer", modname, tier, ["--inp", inp], out, 600)
            return i, rc, log, out
        with concurrent.futures.ThreadPoolExecutor(nr) as ex:
            for i, rc, log, out in ex.map(run_rep, range(nr)):
                if rc != 0 or not os.path.exists(out):
                    harness_errors.append("replayer %d rc=%s: %s" % (i, rc, log[-1500:]))
                    continue
                replayed.extend(json.load(open(out)))
    # ---- classify
    known = load_known(pid)
    keyf = getattr(mod, "finding_key", None)
    confirmed = {}     # key -> dict
    spurious = []
    unreal = []
    for r in replayed:
        if r.get("error"):
            harness_errors.append("replay error in %s: %s" % (r["case"], r["error"]))
            continue
        failed = r.get("failed", [])
        if r["role"] == "violation":
            if not failed and r.get("unrealisable"):
                unreal.append("%s: counterexample not realisable within the replay budget (%s): %s" % (r["case"], r["unrealisable"], r.get("label")))
                continue
            if not failed:
                spurious.append(r)
                continue
        if failed:
            for lab in failed:
                key = None
                if keyf:
                    key = keyf(r["case"], lab, r["values"], r.get("where"))
                if key is None:
                    key = default_key(mod, r["case"], lab, r.get("where"))
                confirmed.setdefault(key, dict(key=key, case=r["case"], label=lab, values=r["values"], where=r.get("where"), count=0))
                confirmed[key]["count"] += 1
    # symbolic violations without model values (solver could not produce one) -> inconclusive
    inconclusive = list(unreal)
    for name, st in results.items():
        for inc in st["inconclusive"]:
            inconclusive.append("%s: %s" % (name, inc))
        for he in sorted(set(st.get("harness_errors", []))):
            harness_errors.append("%s: %s" % (name, he))
        for v in st["violations"]:
            if v.get("values") is None:
                inconclusive.append("%s: violation without model: %s" % (name, v["label"]))
    for r in spurious:
        harness_errors.append("SPURIOUS counterexample (does not reproduce on the real code): case=%s label=%s values=%s"
                              % (r["case"], r.get("label"), json.dumps(r["values"])[:300]))
    if a.save_witnesses:
        os.makedirs(os.path.join(VERIF, "witnesses"), exist_ok=True)
        old = json.load(open(wpath)) if os.path.exists(wpath) else {}
        old[tier] = {name: [s_["values"] for s_ in st["samples"]] for name, st in sorted(results.items()) if st["samples"]}
        json.dump(old, open(wpath, "w"), indent=0, sort_keys=True)
    known_active = {e["key"]: e for e in known if e.get("status", "known") == "known"}
    violations = []
    known_hits = []
    os.makedirs(os.path.join(EVDIR, "replays"), exist_ok=True)
    for key, c in sorted(confirmed.items()):
        if key in known_active:
            known_hits.append((key, c))
            continue
        path = os.path.join(EVDIR, "replays", "%s_%s.json" % (pid, hashlib.sha1(key.encode()).hexdigest()[:10]))
        json.dump({"property": pid, "module": modname, "tier": tier, "case": c["case"], "label": c["label"], "key": key,
                   "values": c["values"], "where": c["where"],
                   "how": "cd /verif && bin/check %s --replay %s" % (pid, path)}, open(path, "w"), indent=1)
        violations.append((key, c, path))
    # ---- report
    tot = lambda k: sum(st.get(k, 0) for st in results.values())
    n_paths = tot("paths")
    print("[%s %s] cases=%d paths=%d infeasible=%d obligations=%d discharged=%d queries=%d solver_s=%.1f replayed=%d wall=%.1fs"
          % (pid, tier, len(results), n_paths, tot("infeasible"), tot("obligations"), tot("discharged"), tot("queries"),
             tot("solver_s"), len(replayed), time.time() - t0))
    for x in inconclusive:
        print("INCONCLUSIVE %s" % x[:400])
    for key, c in known_hits:
        print("KNOWN-FINDING: property=%s %s -- %s" % (pid, key, known_active[key].get("description", "")))
    for key, c, path in violations:
        print("  confirmed on the real code: case=%s label=%s values=%s where=%s" % (c["case"], c["label"], json.dumps(c["values"])[:300], c["where"]))
        print("VIOLATION property=%s replay=%s" % (pid, path))
    for h in harness_errors:
        print("HARNESS-ERROR %s" % h[:3000])
    # ---- evidence
    level = getattr(mod, "LEVEL", "model_checking")
    samples = []
    for name, st in sorted(results.items()):
        for s in st["samples"][:2]:
            samples.append({"case": name, "solver_model": s["values"], "notes": s.get("notes", [])[:6]})
    nontrivial = sum(1 for st in results.values() if st["paths"] > 0 and st["obligations"] > 0)
    distinct_paths = sum(st["paths"] for st in results.values() if st["obligations"] > 0)
    ev = {
        "property_id": pid, "tier": tier, "seed": seed, "level": level,
        "coverage": {
            "evaluations": n_paths,
            "distinct_nontrivial": distinct_paths,
            "rule": "one evaluation = one feasible execution path of the instrumented real code explored symbolically (path "
                    "condition decided by z3); paths are distinct by construction (DFS over branch decisions); non-trivial = the "
                    "path reached the harness' obligations (at least one obligation checked on it)",
            "samples": samples[:40],
            "states": n_paths, "transitions": sum(st.get("max_decisions", 0) for st in results.values()) + tot("queries"),
            "traces_validated_against_impl": sum(1 for r in replayed if r["role"] in ("sample", "witness") and not r.get("error")),
            "stored_witnesses_replayed": n_wit,
            "obligations": tot("obligations"), "discharged": tot("discharged"),
            "exhaustive": all(st.get("complete") for st in results.values()) and not inconclusive,
            "cases": {name: {k: st.get(k) for k in ("paths", "infeasible", "obligations", "discharged", "queries", "solver_s", "wall_s", "complete", "n_samples")}
                      for name, st in sorted(results.items())},
            "nontrivial_cases": nontrivial,
            "solver_queries": tot("queries"), "solver_seconds": round(tot("solver_s"), 2),
            "inconclusive": inconclusive[:50], "inconclusive_count": len(inconclusive),
            "functions_encoded": getattr(mod, "CODE", []),
            "modules_instrumented": {k: v for k, v in sorted(loaded.items())},
            "bounds": getattr(mod, "BOUNDS", {}).get(tier, getattr(mod, "BOUNDS", {})),
            "outside_claim": getattr(mod, "OUTSIDE", []),
            "known_findings_hit": [k for k, _ in known_hits],
            "explanation": getattr(mod, "EXPLANATION", ""),
            "solver": "z3 %s (python API), mathematical integers + strings + arrays" % _z3v(),
        },
        "assumptions": getattr(mod, "ASSUMPTIONS", []),
        "wall_s": round(time.time() - t0, 2),
        "violations": len(violations),
    }
    extra = getattr(mod, "extra_evidence", None)
    if extra:
        try:
            ev["coverage"].update(extra(tier, results))
        except Exception as e:
            harness_errors.append("extra_evidence failed: %r" % e)
    os.makedirs(EVDIR, exist_ok=True)
    json.dump(ev, open(os.path.join(EVDIR, "%s.json" % pid), "w"), indent=1, default=str)
    import shutil
    shutil.rmtree(tmp, ignore_errors=True)
    if violations:
        return 1
    if harness_errors:
        return 3
    return 0


def _z3v():
    try:
        import z3
        return z3.get_version_string()
    except Exception:
        return "?"


def replay_file(modname, path):
    d = json.load(open(path))
    tmp = tempfile.mkdtemp(prefix="sx_replay_")
    inp = os.path.join(tmp, "in.json")
    out = os.path.join(tmp, "out.json")
    json.dump([{"case": d["case"], "values": d["values"], "role": "violation", "label": d["label"]}], open(inp, "w"))
    rc, log = _spawn("replayer", modname, d.get("tier", "quick"), ["--inp", inp], out, 600)
    if rc != 0:
        print(log)
        return 3
    r = json.load(open(out))[0]
    print(json.dumps(r, indent=1))
    if r.get("failed"):
        print("REPRODUCED property=%s case=%s failed=%s" % (d["property"], d["case"], r["failed"]))
        return 1
    print("not reproduced")
    return 0


if __name__ == "__main__":
    if len(sys.argv) > 1 and sys.argv[1] == "worker":
        worker_main(sys.argv[2:])
    elif len(sys.argv) > 1 and sys.argv[1] == "replayer":
        replayer_main(sys.argv[2:])
    else:
        sys.exit(main())
