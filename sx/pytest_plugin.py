"""pytest plugin: run the repository's own tests through the instrumenting loader (translator validation)"""
import sys, logging
sys.dont_write_bytecode = True
from sx import loader
loader.install()
