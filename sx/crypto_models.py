"""models of cryptographic library APIs as structured uninterpreted terms over byte ropes.

Algebra provided (everything else is opaque):
  cbc_dec(k, iv, cbc_enc(k, iv, p)) = p              (same key and iv terms, whole ciphertext)
  gcm_dec(k, n, aad, gcm_enc(k, n, aad, p)) = p
  PKCS7 pad/unpad: exact (fill pieces)
  x25519(a, pub(b)) = x25519(b, pub(a))               (DH commutativity: the shared secret term is order-normalised)
Equality of terms is syntactic on normal forms.  Treating two syntactically different terms as different values is the
ideal-primitive assumption (HKDF / HMAC / AES behave injectively); it is named in the evidence of the properties using it.
"""
import z3
from . import core
from .core import SymInt, SymBool, Unsupported, toint
from .vals import SymSeq, Piece, Fill, Term, valkey, S, blob


def rope(x, kind="bytes"):
    if isinstance(x, SymSeq):
        return SymSeq(x.items, kind)
    if isinstance(x, (bytes, bytearray, list)):
        return SymSeq(list(x), kind)
    raise Unsupported("rope(%r)" % type(x))


def tblob(term, n):
    return SymSeq([Piece(term, 0, toint(n))], "bytes")


def whole_term(r, fn):
    """if rope r is exactly one whole blob of a Term with function fn: that Term, else None"""
    items = r.norm()
    if len(items) == 1 and isinstance(items[0], Piece) and not isinstance(items[0], Fill) and isinstance(items[0].base, Term) \
            and items[0].base.fn == fn and z3.is_true(S(items[0].off == 0)):
        t = items[0].base
        if getattr(t, "size", None) is not None and z3.is_true(S(toint(t.size) == items[0].ln)):
            return t
    return None


# ---- HKDF (axolotl.kdf.hkdfv3.HKDFv3 API) ---------------------------------------------------------------------------
class M_HKDF(object):
    def deriveSecrets(self, key, info, n, salt=None):
        t = Term("hkdf", rope(key), rope(info), rope(salt) if salt is not None else "nosalt")
        t.size = n
        return tblob(t, n)


class M_ByteUtil(object):
    @staticmethod
    def split(inp, a, b, c=None):
        out = [inp[:a], inp[a:a + b]]
        if c:
            out.append(inp[a + b:a + b + c])
        return out


# ---- cryptography.hazmat.primitives.ciphers -------------------------------------------------------------------------
class M_algorithms(object):
    @staticmethod
    def AES(key):
        return ("aes", rope(key))


class M_modes(object):
    @staticmethod
    def CBC(iv):
        return ("cbc", rope(iv))

    @staticmethod
    def GCM(iv, tag=None):
        return ("gcm", rope(iv), tag)


class M_Cipher(object):
    def __init__(self, alg, mode, backend=None):
        self.key, self.mode = alg[1], mode

    def encryptor(self):
        return M_CipherCtx(self, True)

    def decryptor(self):
        return M_CipherCtx(self, False)


class M_CipherCtx(object):
    """CBC context of the `cryptography` package: update() returns the output for every complete block at once (here: for the whole
    buffer when it is block-aligned; a partial block stays buffered), finalize() returns what is left (nothing) or raises on a partial block"""

    def __init__(self, c, enc):
        self.c, self.enc, self.buf = c, enc, SymSeq([], "bytes")
        self.emitted = False

    def update(self, data):
        if self.emitted:
            raise Unsupported("a second update() on a cipher context that already produced output (CBC chaining across calls is not modelled)")
        self.buf = self.buf + rope(data)
        n = self.buf.length()
        if (isinstance(n, int) and n == 0) or (not isinstance(n, int) and bool(n == 0)):
            return SymSeq([], "bytes")
        aligned = (n % 16 == 0) if isinstance(n, int) else bool(n % 16 == 0)
        if not aligned:
            return SymSeq([], "bytes")
        out = self._output()
        self.emitted = True
        self.buf = SymSeq([], "bytes")
        return out

    def finalize(self):
        n = self.buf.length()
        if (isinstance(n, int) and n == 0) or (not isinstance(n, int) and bool(n == 0)):
            return SymSeq([], "bytes")
        return self._output()

    def _output(self):
        if self.c.mode[0] != "cbc":
            raise Unsupported("cipher mode %s" % self.c.mode[0])
        iv = self.c.mode[1]
        n = self.buf.length()
        aligned = (n % 16 == 0) if isinstance(n, int) else bool(n % 16 == 0)
        if not aligned:
            raise ValueError("The length of the provided data is not a multiple of the block length.")
        if self.enc:
            t = Term("cbc_enc", self.c.key, iv, self.buf)
            t.size = n
            return tblob(t, n)
        t = whole_term(self.buf, "cbc_enc")
        if t is not None:
            k, iv0, pt = t.args
            if valkey(k) == valkey(self.c.key) and valkey(iv0) == valkey(iv):
                return SymSeq(pt.items, "bytes")
        t = Term("cbc_dec", self.c.key, iv, self.buf)
        t.size = n
        return tblob(t, n)


class M_PKCS7(object):
    def __init__(self, bits):
        self.b = bits // 8

    def padder(self):
        return M_Pad(self.b, True)

    def unpadder(self):
        return M_Pad(self.b, False)


class M_Pad(object):
    def __init__(self, b, pad):
        self.b, self.pad, self.buf = b, pad, SymSeq([], "bytes")

    def update(self, d):
        self.buf = self.buf + rope(d)
        return SymSeq([], "bytes")

    def finalize(self):
        n = self.buf.length()
        if self.pad:
            k = self.b - (n % self.b)
            return self.buf + SymSeq([Fill(k, toint(k))], "bytes")
        items = self.buf.norm()
        if not items:
            raise ValueError("Invalid padding bytes.")
        last = items[-1]
        if isinstance(last, Fill):
            v = last.value
            ok = SymBool(z3.And(toint(v) >= 1, toint(v) <= self.b, last.ln >= toint(v)))
            if ok:
                keep = S(last.ln - toint(v))
                rest = items[:-1] + ([Fill(v, keep)] if not z3.is_true(S(keep == 0)) else [])
                return SymSeq(rest, "bytes")
            raise ValueError("Invalid padding bytes.")
        if isinstance(last, Piece):
            # last byte of an arbitrary (abstract) plaintext: the real unpadder raises or strips at least one byte of it
            raise ValueError("Invalid padding bytes. (arbitrary last plaintext byte: raises or strips plaintext)")
        raise Unsupported("unpad of a concrete tail")


class M_padding(object):
    PKCS7 = M_PKCS7


# ---- hmac / hashlib ----------------------------------------------------------------------------------------------------
class M_hmac(object):
    @staticmethod
    def compare_digest(a, b):
        from . import harness as _H
        r = _H.rope_eq(a, b)
        return r if isinstance(r, bool) else core.SymBool(r)

    @staticmethod
    def new(key, msg=None, digestmod=None):
        m = M_Mac(key, digestmod)
        if msg is not None:
            m.update(msg)
        return m


class M_Mac(object):
    def __init__(self, key, digestmod):
        self.key, self.buf, self.alg = rope(key), SymSeq([], "bytes"), str(getattr(digestmod, "__name__", digestmod))

    def update(self, d):
        self.buf = self.buf + rope(d)

    def digest(self):
        t = Term("hmac", self.alg, self.key, self.buf)
        t.size = 32
        return tblob(t, 32)


class M_Hash(object):
    def __init__(self, alg, data=b""):
        self.alg, self.buf = alg, SymSeq([], "bytes")
        if data:
            self.update(data)

    def update(self, d):
        self.buf = self.buf + rope(d)

    def digest(self):
        n = {"sha1": 20, "sha256": 32, "md5": 16}[self.alg]
        t = Term("hash", self.alg, self.buf)
        t.size = n
        return tblob(t, n)

    def copy(self):
        h = M_Hash(self.alg)
        h.buf = SymSeq(self.buf.items, "bytes")
        return h


class M_hashlib(object):
    @staticmethod
    def sha1(data=b""):
        return M_Hash("sha1", data)

    @staticmethod
    def sha256(data=b""):
        return M_Hash("sha256", data)

    @staticmethod
    def md5(data=b""):
        return M_Hash("md5", data)


def rope_key(r):
    return valkey(rope(r))


# ---- base64 as an inverse pair -----------------------------------------------------------------------------------------
import base64 as _b64


class M_base64(object):
    """b64decode(b64encode(x)) = x; concrete arguments use the real library"""

    @staticmethod
    def _enc(name, x):
        if isinstance(x, (bytes, bytearray)):
            return getattr(_b64, name)(x)
        r = rope(x)
        c = r.concrete()
        if c is not None:
            return getattr(_b64, name)(c)
        t = Term(name, r)
        n = r.length()
        t.size = ((n + 2) // 3) * 4
        return tblob(t, t.size)

    @staticmethod
    def b64encode(x):
        return M_base64._enc("b64encode", x)

    @staticmethod
    def urlsafe_b64encode(x):
        return M_base64._enc("urlsafe_b64encode", x)

    @staticmethod
    def b64decode(x):
        if isinstance(x, (bytes, bytearray, str)):
            return _b64.b64decode(x)
        t = whole_term(rope(x), "b64encode")
        if t is not None:
            return SymSeq(t.args[0].items, "bytes")
        raise Unsupported("b64decode of a symbolic value that is not a whole b64encode term")


# ---- X25519 (axolotl.ecc.curve.Curve API) and AES-GCM --------------------------------------------------------------------
class M_ECKey(object):
    def __init__(self, kind, ident):
        self.kind, self.ident = kind, ident

    def serialize(self):
        t = Term("pubkey", self.ident)
        t.size = 32
        if self.kind == "pub":
            return SymSeq([5], "bytes") + tblob(t, 32)
        t2 = Term("privkey", self.ident)
        t2.size = 32
        return tblob(t2, 32)

    def getPublicKey(self):
        return self.serialize()[1:]


class M_KeyPair(object):
    def __init__(self, ident):
        self.publicKey = M_ECKey("pub", ident)
        self.privateKey = M_ECKey("priv", ident)

    def getPublicKey(self):
        return self.publicKey

    def getPrivateKey(self):
        return self.privateKey


class M_Curve(object):
    counter = [0]

    @staticmethod
    def generateKeyPair():
        M_Curve.counter[0] += 1
        return M_KeyPair("fresh-%d" % M_Curve.counter[0])

    @staticmethod
    def calculateAgreement(pub, priv):
        a, b = sorted([str(pub.ident), str(priv.ident)])       # DH commutativity: shared(a,b) == shared(b,a)
        t = Term("x25519", a, b)
        t.size = 32
        return tblob(t, 32)


class M_AESGCM(object):
    def __init__(self, key):
        self.key = rope(key)

    def encrypt(self, nonce, data, aad):
        pt = rope(data)
        t = Term("gcm_enc", self.key, rope(nonce), rope(aad or b""), pt)
        t.pt = pt
        t.size = pt.length() + 16
        return tblob(t, t.size)

    def decrypt(self, nonce, data, aad):
        t = whole_term(rope(data), "gcm_enc")
        if t is not None and valkey(t.args[0]) == valkey(self.key) and valkey(t.args[1]) == valkey(rope(nonce)) and valkey(t.args[2]) == valkey(rope(aad or b"")):
            return t.pt
        raise ValueError("InvalidTag")
