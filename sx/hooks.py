"""run-time hooks the instrumented code calls: calls of C-level callables on proxies, membership,
subscripts with symbolic keys, %-formatting"""
import sys, types, math, binascii, struct, builtins
import z3
from . import core
from .core import Sym, SymInt, SymBool, SymReal, Unsupported, toint, is_sym
from .vals import (SymSeq, Piece, Fill, Gen, SymChar, SymStr, ZStr, ZBytes, NumStr, Term, S, valkey)

INTRINSICS = {}          # callable -> handler(*a, **k) returning a value or NotImplemented
SELF_METHODS = {}        # (type of __self__, method name) -> handler(self, *a, **k)


def intrinsic(*fs):
    def deco(h):
        for f in fs:
            INTRINSICS[f] = h
        return h
    return deco


def _anysym(a):
    for x in a:
        if isinstance(x, Sym):
            return True
    return False


def _list_has_sym(x):
    if isinstance(x, (list, tuple)):
        for e in x:
            if isinstance(e, Sym):
                return True
    return False


# ---------------------------------------------------------------------------------------------
@intrinsic(len)
def i_len(x):
    if isinstance(x, SymSeq):
        return x.length()
    if isinstance(x, ZStr):
        return x.length()
    if isinstance(x, ZBytes):
        raise Unsupported("len of encoded symbolic string")
    if isinstance(x, list) and _list_has_sym(x) and any(isinstance(e, Gen) for e in x):
        return SymSeq(x).length()
    return NotImplemented


@intrinsic(type)
def i_type(*a):
    if len(a) != 1:
        return NotImplemented
    x = a[0]
    if isinstance(x, (SymInt, Gen)):
        return int
    if isinstance(x, SymBool):
        return bool
    if isinstance(x, SymReal):
        return float
    if isinstance(x, SymSeq):
        return bytes if x.kind == "bytes" else bytearray
    if isinstance(x, ZBytes):
        return bytes
    if isinstance(x, (SymStr, SymChar, ZStr)):
        return str
    if getattr(type(x), "__sx_virtual_type__", None) is not None:
        return type(x).__sx_virtual_type__
    return NotImplemented


_KIND = ((SymInt, int), (Gen, int), (SymBool, bool), (SymReal, float), (ZBytes, bytes), (SymStr, str), (SymChar, str), (ZStr, str))


def _virtual_type(x):
    if isinstance(x, SymSeq):
        return bytes if x.kind == "bytes" else bytearray
    for c, t in _KIND:
        if isinstance(x, c):
            return t
    return getattr(type(x), "__sx_virtual_type__", None)


@intrinsic(isinstance)
def i_isinstance(x, cls):
    vt = _virtual_type(x)
    if vt is None:
        return NotImplemented
    if isinstance(cls, tuple):
        return any(isinstance(c, type) and issubclass(vt, c) for c in cls) or builtins.isinstance(x, cls)
    return issubclass(vt, cls) or builtins.isinstance(x, cls)


ROPE_BYTEARRAYS = False    # harness switch: bytearray(...) objects created by instrumented code are ropes


@intrinsic(bytearray)
def i_bytearray(*a):
    if ROPE_BYTEARRAYS and core.symbolic_mode() and not (a and isinstance(a[0], Sym)) and not (a and _list_has_sym(a[0])):
        return SymSeq(list(bytearray(*a)), "bytearray")
    if not a:
        return NotImplemented
    x = a[0]
    if isinstance(x, core.FillList):
        return SymSeq([Fill(x.value, toint(x.count))], "bytearray")
    if isinstance(x, SymSeq):
        return SymSeq(x.items, "bytearray")
    if isinstance(x, (list, tuple)) and _list_has_sym(x):
        return SymSeq(x, "bytearray")
    if isinstance(x, ZBytes):
        raise Unsupported("bytearray(encoded symbolic string)")
    return NotImplemented


@intrinsic(bytes)
def i_bytes(*a):
    if not a:
        return NotImplemented
    x = a[0]
    if isinstance(x, core.FillList):
        return SymSeq([Fill(x.value, toint(x.count))], "bytes")
    if isinstance(x, SymSeq):
        return SymSeq(x.items, "bytes")
    if isinstance(x, (list, tuple)) and _list_has_sym(x):
        return SymSeq(x, "bytes")
    if isinstance(x, ZBytes):
        return x
    if isinstance(x, SymInt):
        if x.ub is not None:
            return SymSeq([Fill(0, x.t)], "bytes")
        raise Unsupported("bytes(symbolic count)")
    return NotImplemented


@intrinsic(list)
def i_list(*a):
    if a and isinstance(a[0], SymSeq):
        return list(iter(a[0]))
    if a and isinstance(a[0], SymStr):
        return list(a[0].chars)
    return NotImplemented


@intrinsic(chr)
def i_chr(x):
    if isinstance(x, SymInt):
        return SymChar(x)
    if isinstance(x, Gen):
        raise Unsupported("chr of generic element")
    return NotImplemented


@intrinsic(ord)
def i_ord(x):
    if isinstance(x, SymChar):
        return x.code
    if isinstance(x, SymStr):
        if len(x) != 1:
            raise TypeError("ord() expected a character")
        c = x.chars[0]
        return c.code if isinstance(c, SymChar) else ord(c)
    if isinstance(x, SymSeq):
        n = x.length()
        if n != 1:
            raise TypeError("ord() expected a character, but string of length %s found" % n)
        return x.items[0]
    return NotImplemented


@intrinsic(int)
def i_int(*a, **k):
    if not a:
        return NotImplemented
    x = a[0]
    if isinstance(x, SymInt):
        return x
    if isinstance(x, SymBool):
        return x.__int__()
    if isinstance(x, SymReal):
        return x.trunc()
    if isinstance(x, NumStr):
        return SymInt(x.n)
    if isinstance(x, ZStr):
        # int() of a free string: defined iff it is a decimal numeral; fork on that
        n = z3.StrToInt(x.t)
        if core.CTX.branch(n >= 0):        # str.to_int is -1 for non-numerals
            return SymInt(n)
        raise ValueError("invalid literal for int() with base 10: <sym>")
    if isinstance(x, (SymStr, SymChar)) and len(a) == 1 and not k:
        cs = SymStr([x]).codes() if isinstance(x, SymChar) else x.codes()
        if not cs:
            raise ValueError("invalid literal for int() with base 10: ''")
        C = core.CTX
        if C.branch(z3.And([z3.And(toint(c) >= 48, toint(c) <= 57) for c in cs])):
            v = 0
            for c in cs:
                v = v * 10 + (c - 48)
            return v
        # signs, blanks, underscores and non-ASCII digits make other strings valid numerals as well: only the plain case is modelled
        raise Unsupported("int() of a string that is not all ASCII digits")
    if isinstance(x, (SymStr, SymSeq)) and len(a) == 2 and a[1] == 16 and not k:
        cs = x.codes() if isinstance(x, SymStr) else list(x.items)
        if not cs or any(isinstance(c, Piece) for c in cs):
            raise Unsupported("int(<abstract>, 16)")
        C = core.CTX
        v = 0
        for c in cs:
            if isinstance(c, int):
                n = int(chr(c), 16)
            elif getattr(c, "nib", None) is not None:
                n = c.nib
            else:
                c = toint(c)
                if not C.branch(z3.Or(z3.And(c >= 48, c <= 57), z3.And(c >= 65, c <= 70), z3.And(c >= 97, c <= 102))):
                    raise Unsupported("int(s, 16) of a string that is not all hex digits")
                n = SymInt(S(z3.If(c <= 57, c - 48, z3.If(c <= 70, c - 55, c - 87))), ub=16)
            v = v * 16 + n
        return v
    if isinstance(x, (SymStr, SymChar)):
        raise Unsupported("int(SymStr, base)")
    return NotImplemented


@intrinsic(float)
def i_float(*a):
    if a and isinstance(a[0], SymInt):
        return SymReal(z3.ToReal(a[0].t))
    if a and isinstance(a[0], SymReal):
        return a[0]
    if a and isinstance(a[0], Sym):
        raise Unsupported("float(%s)" % type(a[0]).__name__)
    return NotImplemented


@intrinsic(bool)
def i_bool(*a):
    if a and isinstance(a[0], Sym):
        return builtins.bool(a[0])
    return NotImplemented


@intrinsic(str)
def i_str(*a, **k):
    if not a:
        return NotImplemented
    x = a[0]
    if isinstance(x, (ZStr, SymStr)):
        return x
    if isinstance(x, SymChar):
        return SymStr([x])
    if isinstance(x, SymInt):
        if core.CTX.branch(x.t >= 0):
            return NumStr(x.t)
        raise Unsupported("str() of negative symbolic int")
    if isinstance(x, ZBytes) and len(a) > 1:
        return x.z
    if isinstance(x, Sym):
        raise Unsupported("str(%s)" % type(x).__name__)
    return NotImplemented


@intrinsic(repr, ascii)
def i_repr(*a, **k):
    if a and isinstance(a[0], Sym):
        return "<sym>"
    return NotImplemented


@intrinsic(format)
def i_format(x, spec=""):
    if isinstance(x, SymInt) and spec == "x":
        # lower-case hex rendering of a non-negative integer: fork on the number of digits (<= 16)
        C = core.CTX
        if C.branch(x.t < 0):
            raise Unsupported("format(negative symbolic, 'x')")
        for k in range(1, 17):
            if C.branch(x.t < 16 ** k):
                # digit decomposition with fresh variables: x == sum d_i * 16^i, 0 <= d_i < 16 (keeps the queries linear)
                ds = [z3.Int(C.fresh_name("hexdigit")) for _ in range(k)]
                C.add(z3.And([z3.And(d >= 0, d < 16) for d in ds] + [x.t == z3.Sum([ds[i] * (16 ** i) for i in range(k)])]))
                out = []
                for i in range(k - 1, -1, -1):
                    d = ds[i]
                    code = SymInt(S(z3.If(d < 10, d + 48, d + 87)), ub=128)
                    code.nib = SymInt(d, ub=16)
                    out.append(SymChar(code))
                return SymStr(out)
        raise Unsupported("format(symbolic >= 2^64, 'x')")
    if isinstance(x, Sym):
        return "<sym>"
    return NotImplemented


@intrinsic(hash)
def i_hash(x):
    if isinstance(x, Sym):
        raise Unsupported("hash of symbolic value")
    return NotImplemented


@intrinsic(map)
def i_map(f, *its):
    if any(isinstance(i, Sym) or _list_has_sym(i) for i in its):
        return [sx_call(f, *xs) for xs in zip(*its)]
    return NotImplemented


@intrinsic(sorted)
def i_sorted(x, **k):
    if _list_has_sym(x):
        raise Unsupported("sorted() of symbolic values")
    return NotImplemented


@intrinsic(math.floor)
def i_floor(x):
    if isinstance(x, SymReal):
        return x.floor()
    if isinstance(x, SymInt):
        return x
    return NotImplemented


@intrinsic(math.ceil)
def i_ceil(x):
    if isinstance(x, SymReal):
        return -((-x.t) and SymReal(-x.t).floor())
    if isinstance(x, SymInt):
        return x
    return NotImplemented


@intrinsic(min)
def i_min(*a, **k):
    if len(a) == 2 and _anysym(a):
        return core.ite(a[0] <= a[1], a[0], a[1])
    return NotImplemented


@intrinsic(max)
def i_max(*a, **k):
    if len(a) == 2 and _anysym(a):
        return core.ite(a[0] >= a[1], a[0], a[1])
    return NotImplemented


@intrinsic(range)
def i_range(*a):
    if _anysym(a):
        if len(a) == 1:
            lo, hi = 0, a[0]
        elif len(a) == 2:
            lo, hi = a
        elif len(a) == 3 and isinstance(a[2], int) and a[2] > 0 and isinstance(a[0], int):
            lo, hi, step = a
            # number of iterations by forking on the bound (at most 64)
            for k in range(0, 65):
                if bool(hi <= lo + k * step):
                    return range(lo, lo + k * step, step)
            raise Unsupported("range(): symbolic bound above 64 iterations")
        else:
            raise Unsupported("range with symbolic step")
        if isinstance(lo, SymInt):
            raise Unsupported("range with symbolic start")
        # fork on the value of hi (bounded unrolling, at most 64)
        for n in range(lo, lo + 65):
            if bool(hi <= n):
                return range(lo, n)
        raise Unsupported("range(): symbolic bound above 64 iterations")
    return NotImplemented


@intrinsic(binascii.hexlify)
def i_hexlify(x, *a):
    if isinstance(x, SymSeq):
        out = []
        for b in x.items:
            if isinstance(b, Piece):
                raise Unsupported("hexlify of abstract piece")
            for nib in ((b >> 4) & 15, b & 15):
                if isinstance(nib, SymInt):
                    ch = SymInt(S(z3.If(nib.t < 10, nib.t + 48, nib.t + 87)), ub=256)
                    ch.nib = nib
                    out.append(ch)
                else:
                    out.append(ord("0123456789abcdef"[nib]))
        return SymSeq(out, "bytes")
    return NotImplemented


@intrinsic(binascii.unhexlify)
def i_unhexlify(x):
    if isinstance(x, (SymStr, SymSeq)):
        cs = x.codes() if isinstance(x, SymStr) else list(x.items)
        if len(cs) % 2:
            raise binascii.Error("Odd-length string")
        out = []

        def nib(c):
            if isinstance(c, int):
                return int(chr(c), 16)
            if getattr(c, "nib", None) is not None:
                return c.nib                   # the character was rendered from this digit: decoding it gives the digit back
            c = toint(c)
            C = core.CTX
            ok = z3.Or(z3.And(c >= 48, c <= 57), z3.And(c >= 65, c <= 70), z3.And(c >= 97, c <= 102))
            if not C.branch(ok):
                raise binascii.Error("Non-hexadecimal digit found")
            return SymInt(S(z3.If(c <= 57, c - 48, z3.If(c <= 70, c - 55, c - 87))), ub=16)
        for i in range(0, len(cs), 2):
            out.append(nib(cs[i]) * 16 + nib(cs[i + 1]))
        return SymSeq(out, "bytes")
    return NotImplemented


_STRUCT_BE = {">I": 4, ">H": 2, ">B": 1, "B": 1, ">Q": 8, "!I": 4, "!H": 2}


@intrinsic(int.from_bytes)
def i_from_bytes(data, byteorder="big", *, signed=False):
    if isinstance(data, SymSeq):
        if signed:
            raise Unsupported("int.from_bytes(signed=True) of symbolic bytes")
        es = data._elems("int.from_bytes")
        if byteorder == "little":
            es = es[::-1]
        elif byteorder != "big":
            raise ValueError("byteorder must be either 'little' or 'big'")
        v = 0
        for b in es:
            v = v * 256 + b
        return v
    return NotImplemented


def symint_to_bytes(x, length=1, byteorder="big", *, signed=False):
    """int.to_bytes on a symbolic integer"""
    if signed:
        raise Unsupported("to_bytes(signed=True) of a symbolic integer")
    C = core.CTX
    if C.branch(z3.Or(toint(x) < 0, toint(x) >= (1 << (8 * length)))):
        raise OverflowError("int too big to convert" if not C.branch(toint(x) < 0) else "can't convert negative int to unsigned")
    out = [(x >> (8 * (length - 1 - i))) & 255 for i in range(length)]
    if byteorder == "little":
        out = out[::-1]
    elif byteorder != "big":
        raise ValueError("byteorder must be either 'little' or 'big'")
    return SymSeq(out, "bytes")


SymInt.to_bytes = symint_to_bytes


@intrinsic(bytes.fromhex, bytearray.fromhex)
def i_fromhex(x):
    if isinstance(x, SymStr):
        cs = [c for c in x.chars]
        if any(isinstance(c, str) and c.isspace() for c in cs):
            cs = [c for c in cs if not (isinstance(c, str) and c.isspace())]
        try:
            return i_unhexlify(SymStr(cs))
        except binascii.Error as e:
            raise ValueError("non-hexadecimal number found in fromhex() arg")
    return NotImplemented


@intrinsic(sum)
def i_sum(it, start=0):
    it = list(it)
    if _anysym(it) or isinstance(start, Sym):
        v = start
        for x in it:
            v = v + x
        return v
    return NotImplemented


@intrinsic(any)
def i_any(it):
    it = list(it)
    if _anysym(it):
        for x in it:
            if bool(x):
                return True
        return False
    return any(it)


@intrinsic(all)
def i_all(it):
    it = list(it)
    if _anysym(it):
        for x in it:
            if not bool(x):
                return False
        return True
    return all(it)


@intrinsic(abs)
def i_abs(x):
    if isinstance(x, SymInt):
        return core.ite(x >= 0, x, -x)
    return NotImplemented


@intrinsic(reversed)
def i_reversed(x):
    if isinstance(x, SymSeq):
        return x.__reversed__()
    if isinstance(x, SymStr):
        return iter(x.chars[::-1])
    return NotImplemented


@intrinsic(divmod)
def i_divmod(a, b):
    if _anysym((a, b)):
        return (a // b, a % b)
    return NotImplemented


@intrinsic(struct.pack)
def i_pack(fmt, *a):
    if _anysym(a):
        if len(a) > 1 and len(fmt) == len(a) + 1 and fmt[0] in "><!" and all((fmt[0] + f) in _STRUCT_BE for f in fmt[1:]):
            out = SymSeq([], "bytes")
            for f, x in zip(fmt[1:], a):
                r = i_pack(fmt[0] + f, x)
                if r is NotImplemented:
                    r = struct.pack(fmt[0] + f, x)
                out = out + r
            return out
        if fmt in _STRUCT_BE and len(a) == 1:
            n = a[0]
            w = _STRUCT_BE[fmt]
            C = core.CTX
            if C.branch(z3.Or(toint(n) < 0, toint(n) >= (1 << (8 * w)))):
                raise struct.error("argument out of range")
            return SymSeq([(n >> (8 * (w - 1 - i))) & 255 for i in range(w)], "bytes")
        raise Unsupported("struct.pack(%r) of symbolic" % fmt)
    return NotImplemented


@intrinsic(struct.unpack)
def i_unpack(fmt, data):
    if isinstance(data, SymSeq):
        if fmt in _STRUCT_BE:
            w = _STRUCT_BE[fmt]
            n = data.length()
            if not (isinstance(n, int) and n == w):
                if isinstance(n, int) or not bool(n == w):
                    raise struct.error("unpack requires a buffer of %d bytes" % w)
            its = [data[i] for i in range(w)]
            v = 0
            for it in its:
                v = (v << 8) | it if not isinstance(v, int) or v else it
            return (v,)
        raise Unsupported("struct.unpack(%r) of symbolic" % fmt)
    return NotImplemented


import time as _time


@intrinsic(_time.time)
def i_time():
    if core.symbolic_mode():
        return 1500000000.0 + getattr(core.CTX, "_clock", 0)
    return NotImplemented


import urllib.parse as _up


def _q_byte(b):
    """percent-encoding of one byte with safe='' -> list of chars"""
    if isinstance(b, int):
        return list(_up.quote(bytes([b]), safe=""))
    t = b.t
    unres = z3.Or(z3.And(t >= 48, t <= 57), z3.And(t >= 65, t <= 90), z3.And(t >= 97, t <= 122), t == 95, t == 46, t == 45, t == 126)
    if core.CTX.branch(unres):
        return [SymChar(b)]
    hi, lo = b // 16, b % 16
    hx = lambda n: SymChar(SymInt(S(z3.If(n.t < 10, n.t + 48, n.t + 55)), ub=128))
    return ["%", hx(hi), hx(lo)]


@intrinsic(_up.quote)
def i_quote(x, safe="/", encoding=None, errors=None):
    if not isinstance(x, Sym):
        return NotImplemented
    if safe != "":
        raise Unsupported("quote with safe characters")
    out = []
    if isinstance(x, SymSeq):
        for b in x.items:
            if isinstance(b, Piece):
                raise Unsupported("quote of abstract bytes")
            out += _q_byte(b if isinstance(b, int) else b)
        return SymStr(out)
    chars = [x] if isinstance(x, SymChar) else list(x.chars)
    C = core.CTX
    for ch in chars:
        if isinstance(ch, str):
            out += list(_up.quote(ch, safe=""))
            continue
        c = ch.code
        if C.branch(z3.And(c.t >= 0xD800, c.t <= 0xDFFF)):
            raise UnicodeEncodeError("utf-8", "?", 0, 1, "surrogates not allowed")
        if C.branch(c.t < 0x80):
            bs = [c]
        elif C.branch(c.t < 0x800):
            bs = [192 + c // 64, 128 + c % 64]
        elif C.branch(c.t < 0x10000):
            bs = [224 + c // 4096, 128 + (c // 64) % 64, 128 + c % 64]
        else:
            bs = [240 + c // 262144, 128 + (c // 4096) % 64, 128 + (c // 64) % 64, 128 + c % 64]
        for b in bs:
            out += _q_byte(b)
    return SymStr(out)


def i_join(sep, it):
    items = list(it)
    if any(isinstance(x, (SymChar, SymStr)) for x in items):
        out = []
        for i, x in enumerate(items):
            if i and sep:
                out.extend(sep)
            if isinstance(x, SymStr):
                out.extend(x.chars)
            elif isinstance(x, SymChar):
                out.append(x)
            else:
                out.extend(x)
        return SymStr(out)
    if any(isinstance(x, ZStr) for x in items):
        t = None
        for i, x in enumerate(items):
            xt = ZStr.term(x)
            if i and sep:
                t = z3.Concat(t, ZStr.term(sep))
            t = xt if t is None else z3.Concat(t, xt)
        return ZStr(t)
    if any(isinstance(x, Gen) for x in items):
        raise Unsupported("join over generic elements")
    return sep.join(items)


def i_bytes_join(sep, it):
    items = list(it)
    if any(isinstance(x, SymSeq) for x in items):
        out = SymSeq([], "bytes")
        for i, x in enumerate(items):
            if i and sep:
                out.extend(sep)
            out.extend(x)
        return out
    return sep.join(items)


# ---------------------------------------------------------------------------------------------
_BuiltinMethod = type("".join)
_MethodDescr = type(str.join)


# ---- access observer (data-race analysis of C11): container accesses made by instrumented code are reported --------------------------------
ACCESS_OBSERVER = None        # callable(container, "r" | "w", frame of the instrumented code)
_CONTAINERS = (list, dict, bytearray, set)
_MUTATORS = frozenset(("append", "extend", "insert", "pop", "remove", "clear", "sort", "reverse", "update", "setdefault", "popitem", "add", "discard",
                       "__setitem__", "__delitem__", "__iadd__", "appendleft", "popleft"))


def sx_touch(obj, rw):
    if ACCESS_OBSERVER is not None and type(obj) in _CONTAINERS:
        ACCESS_OBSERVER(obj, rw, sys._getframe(1))


def _observe(obj, rw):
    if type(obj) in _CONTAINERS:
        ACCESS_OBSERVER(obj, rw, sys._getframe(2))


import re as _re


def _re_dispatch(name, pattern, a, k):
    """re.<name>(pattern, ...) / compiled.<name>(...) with a symbolic subject string -> sx.symre"""
    from . import symre
    idx = 1 if name in ("sub", "subn") else 0
    subject = a[idx] if len(a) > idx else k.get("string")
    if not isinstance(subject, (SymStr, SymChar)):
        return NotImplemented
    if isinstance(subject, SymChar):
        subject = SymStr([subject])
    fn = symre.API.get(name)
    if fn is None:
        raise Unsupported("re.%s on a symbolic string" % name)
    kk = dict(k)
    kk.pop("string", None)
    if name in ("sub", "subn"):
        return fn(pattern, a[0], subject, *a[2:], **kk)
    return fn(pattern, subject, *a[1:], **kk)


for _n in ("sub", "subn", "match", "fullmatch", "search", "findall", "split", "finditer"):
    def _mk(_n=_n):
        def h(pattern, *a, **k):
            return _re_dispatch(_n, pattern, a, k)
        return h
    INTRINSICS[getattr(_re, _n)] = _mk()


def sx_call(f, *a, **k):
    if ACCESS_OBSERVER is not None and type(f) is _BuiltinMethod:
        _observe(f.__self__, "w" if f.__name__ in _MUTATORS else "r")
    if type(getattr(f, "__self__", None)) is _re.Pattern and _anysym(a):          # (a compiled pattern's methods are of type builtin_method)
        r = _re_dispatch(f.__name__, f.__self__, a, k)
        if r is not NotImplemented:
            return r
    try:
        h = INTRINSICS.get(f)
    except TypeError:
        h = None
    if h is not None:
        r = h(*a, **k)
        if r is not NotImplemented:
            return r
    elif type(f) is _BuiltinMethod:
        s = f.__self__
        if type(s) is str:
            n = f.__name__
            if n == "join" and a:
                r = i_join(s, *a)
                if r is not NotImplemented:
                    return r
            elif _anysym(a):
                r = _str_method(s, n, a)
                if r is not NotImplemented:
                    return r
        elif type(s) is bytes and f.__name__ == "join" and a:
            r = i_bytes_join(s, *a)
            if r is not NotImplemented:
                return r
        elif type(s) in (list,) and f.__name__ in ("index", "count", "remove") and a and isinstance(a[0], Sym):
            return _list_method(s, f.__name__, a[0])
        elif type(s) is dict and ((a and isinstance(a[0], Sym)) or _has_symkey(s)):
            r = _dict_method(s, f.__name__, a)
            if r is not NotImplemented:
                return r
        elif type(s) in (bytearray, bytes) and _anysym(a):
            if f.__name__ in ("extend", "append", "insert", "remove", "__iadd__", "__setitem__"):
                raise Unsupported("in-place %s of symbolic bytes into a real bytearray (set hooks.ROPE_BYTEARRAYS)" % f.__name__)
            return getattr(SymSeq(s, "bytes" if type(s) is bytes else "bytearray"), f.__name__)(*a)
    return f(*a, **k)


def _str_method(s, n, a):
    x = a[0]
    if n in ("startswith", "endswith", "__eq__", "__contains__", "find", "index", "split"):
        raise Unsupported("str.%s with symbolic argument" % n)
    if n == "format":
        return "<fmt>"
    return NotImplemented


def _list_method(lst, n, x):
    if n == "index":
        for i, e in enumerate(lst):
            if bool(e == x):
                return i
        raise ValueError("<sym> is not in list")
    if n == "count":
        c = 0
        for e in lst:
            if bool(e == x):
                c += 1
        return c
    if n == "remove":
        for i, e in enumerate(lst):
            if bool(e == x):
                del lst[i]
                return None
        raise ValueError("list.remove(x): x not in list")


def _dict_find(d, k):
    for x in d:
        if bool(x == k):
            return x
    return _MISSING


_MISSING = object()


def _dict_method(d, n, a):
    if n == "items":
        return [(unkey(k), v) for k, v in d.items()]
    if n == "keys":
        return [unkey(k) for k in d]
    if n in ("values", "copy", "clear", "update", "popitem", "__len__"):
        return NotImplemented
    if not a:
        return NotImplemented
    k = a[0]
    x = _dict_find(d, k)
    if n == "get":
        return d[x] if x is not _MISSING else (a[1] if len(a) > 1 else None)
    if n == "pop":
        if x is not _MISSING:
            return d.pop(x)
        if len(a) > 1:
            return a[1]
        raise KeyError("<sym>")
    if n == "setdefault":
        if x is not _MISSING:
            return d[x]
        return symdict_store(d, k, a[1] if len(a) > 1 else None)
    if n == "__contains__":
        return x is not _MISSING
    raise Unsupported("dict.%s with symbolic key" % n)


class SymKey(object):
    """wrapper that lets a symbolic value live as a key in a real dict: hash by identity; equality with
    other keys is decided by the hooks (association-list semantics), never by dict probing"""
    __slots__ = ("v",)

    def __init__(self, v):
        self.v = v

    def __hash__(self):
        return id(self)

    def __eq__(self, o):
        if o is self:
            return True
        if isinstance(o, SymKey):
            o = o.v
        return self.v == o

    def __ne__(self, o):
        r = self.__eq__(o)
        return (not r) if isinstance(r, bool) else ~r

    def __repr__(self):
        return "SymKey(%r)" % (self.v,)


def unkey(k):
    return k.v if isinstance(k, SymKey) else k


def symdict_store(d, k, v):
    d[SymKey(k)] = v
    return v


def _has_symkey(d):
    for x in d:
        if type(x) is SymKey:
            return True
    return False


def _symtuple(k):
    return isinstance(k, tuple) and any(isinstance(e, Sym) for e in k)


def sx_in(a, b):
    if ACCESS_OBSERVER is not None:
        _observe(b, "r")
    if _symtuple(a) and isinstance(b, dict):
        return _dict_find(b, a) is not _MISSING
    if isinstance(a, SymInt):
        if isinstance(b, range) and b.step == 1:
            return SymBool(z3.And(a.t >= b.start, a.t < b.stop))
        if isinstance(b, (tuple, list, set, frozenset)):
            if all(isinstance(x, int) for x in b):
                return SymBool(z3.Or([a.t == x for x in b])) if b else False
        if isinstance(b, dict):
            return _dict_find(b, a) is not _MISSING
    if isinstance(a, (SymStr, SymChar)):
        if isinstance(b, (list, tuple)):
            n = len(a)
            for x in b:
                if len(x) == n and bool(a == x):
                    return True
            return False
        if isinstance(b, dict):
            return _dict_find(b, a) is not _MISSING
        if isinstance(b, str):
            if len(a) == 1:
                c = a.chars[0] if isinstance(a, SymStr) else a
                return SymBool(z3.Or([toint(c.code) == ord(x) for x in b])) if b else False
    if isinstance(a, ZStr):
        if isinstance(b, dict):
            return _dict_find(b, a) is not _MISSING
        if isinstance(b, (list, tuple, set, frozenset)):
            for x in b:
                if bool(a == x):
                    return True
            return False
        if isinstance(b, str):
            raise Unsupported("symbolic string in concrete string")
    if isinstance(b, ZStr):
        return b.__contains__(a)
    if isinstance(b, dict) and _has_symkey(b) and not isinstance(a, Sym):
        return _dict_find(b, a) is not _MISSING
    if isinstance(a, Sym) and not isinstance(b, Sym):
        if isinstance(b, (list, tuple)):
            for x in b:
                if bool(x == a):
                    return True
            return False
        raise Unsupported("%s in %s" % (type(a).__name__, type(b).__name__))
    return a in b


def sx_getitem(d, k):
    if ACCESS_OBSERVER is not None:
        _observe(d, "r")
    if _symtuple(k) and isinstance(d, dict):
        x = _dict_find(d, k)
        if x is _MISSING:
            raise KeyError("<sym>")
        return d[x]
    if isinstance(k, Sym):
        if isinstance(d, dict):
            x = _dict_find(d, k)
            if x is _MISSING:
                raise KeyError("<sym>")
            return d[x]
        if isinstance(d, (list, tuple, str, bytes, bytearray)):
            if isinstance(k, SymInt):
                n = len(d)
                C = core.CTX
                if C.branch(z3.Or(k.t >= n, k.t < -n)):
                    raise IndexError("list index out of range")
                kt = k.t
                if C.branch(kt < 0):
                    kt = kt + n
                lo, hi = 0, n          # bisect: O(log n) decisions per path
                while hi - lo > 1:
                    mid = (lo + hi) // 2
                    if C.branch(kt < mid):
                        hi = mid
                    else:
                        lo = mid
                return d[lo]
    elif type(d) is dict and _has_symkey(d):
        x = _dict_find(d, k)
        if x is _MISSING:
            raise KeyError(k)
        return d[x]
    return d[k]


def sx_setitem(d, k, v):
    if ACCESS_OBSERVER is not None:
        _observe(d, "w")
    if (isinstance(k, Sym) or _symtuple(k)) and isinstance(d, dict):
        x = _dict_find(d, k)
        if x is not _MISSING:
            d[x] = v
        else:
            symdict_store(d, k, v)
        return
    if type(d) is dict and _has_symkey(d) and not isinstance(k, Sym):
        x = _dict_find(d, k)
        if x is not _MISSING:
            d[x] = v
            return
    d[k] = v


def sx_delitem(d, k):
    if ACCESS_OBSERVER is not None:
        _observe(d, "w")
    if isinstance(d, dict) and (isinstance(k, Sym) or _symtuple(k) or _has_symkey(d)):
        x = _dict_find(d, k)
        if x is _MISSING:
            raise KeyError("<sym>" if isinstance(k, Sym) else k)
        del d[x]
        return
    del d[k]


def sx_mod(a, b):
    if isinstance(a, str):
        args = b if isinstance(b, tuple) else (b,)
        if any(isinstance(x, Sym) for x in args):
            if a.count("%s") == 1 and a.count("%") == 1 and len(args) == 1 and isinstance(args[0], (SymChar, SymStr)):
                pre, post = a.split("%s")
                x = args[0]
                return SymStr(list(pre) + ([x] if isinstance(x, SymChar) else x.chars) + list(post))
            if a.count("%s") == len(args) and a.count("%") == len(args) and all(isinstance(x, (SymStr, SymChar, str)) for x in args):
                parts = a.split("%s")
                out = list(parts[0])
                for p, x in zip(parts[1:], args):
                    out += (list(x.chars) if isinstance(x, SymStr) else [x] if isinstance(x, SymChar) else list(x)) + list(p)
                return SymStr(out)
            if a.count("%s") == len(args) and a.count("%") == len(args) and all(isinstance(x, (ZStr, str)) for x in args):
                parts = a.split("%s")
                t = ZStr(parts[0])
                for p, x in zip(parts[1:], args):
                    t = t + x + p
                return t
            return "<fmt>"
    return a % b


def sx_is(a, b):
    return a is b


def sx_reraise():
    e = sys.exc_info()[1]
    if isinstance(e, core.SxControl):
        raise e


def dict_items(d):
    """items with SymKey wrappers removed (for harness-side inspection)"""
    return [(unkey(k), v) for k, v in d.items()]


def dict_get(d, k, default=None):
    x = _dict_find(d, k)
    return default if x is _MISSING else d[x]
