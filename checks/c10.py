"""C10 -- message payloads: attribute objects and protobuf bytes round-trip.

The real AttributesConverter (instrumented) runs on attribute objects whose field values are solver variables (z3
strings, integers in the field's range, reals, opaque byte blobs of symbolic length); protobuf message objects are
replaced by a generic proto2 stub generated from the real DESCRIPTORs (sx/protostub.py).  Every model is replayed with
the real protobuf classes through message_to_protobytes / protobytes_to_message, and the stub is compared with real
protobuf on concrete conversions on every run."""
import z3
from sx import core, hooks, harness as H
from sx.core import SymInt, SymReal, SymBool
from sx.vals import SymSeq, ZStr

DEFAULT_TIMEOUT_S = 40          # a case of this check takes about a second; a tree on which it takes longer than this is not explored further
DEFAULT_QUERY_TIMEOUT_MS = 4000
PROPERTY = "C10"
LEVEL = "model_checking"
CODE = ["yowsup/layers/protocol_messages/protocolentities/attributes/converter.py:AttributesConverter.* (all *_to_proto / proto_to_* / message_to_protobytes / protobytes_to_message)",
        "yowsup/layers/protocol_messages/protocolentities/protomessage.py + message_text.py + message_extendedtext.py (entity cases)",
        "yowsup/layers/protocol_messages/protocolentities/attributes/attributes_*.py"]
BOUNDS = {"quick": "[+ two replies with one stanza id] " 
                   "[+ duration = n/4, n in [0,2^20]; retry after refusal for image / video, top level and quoted] " 
                   "[+ values handed to the attribute constructors as the expectation] " 
                   "11 content kinds x optional-field families {all set, none set, each single optional set}; every set field an unconstrained value of its type "
                   "(strings incl. empty, integers over the proto range incl. 0, opaque bytes of length 0..64, doubles); quoted message nesting depth <= 2; the same families as peer payloads "
                   "(reference mapping -> parse -> re-serialise); every kind together with a sender-key distribution; text / extended-text entities changed after a first serialisation",
          "thorough": "nesting depth <= 3 and pairs of optional fields"}
OUTSIDE = ["protobuf wire (de)serialisation itself (trusted to protobuf; exercised concretely on every witness)", "optional-field subsets other than the enumerated families (fields are mapped independently)",
           "fields of the WhatsApp schema that the library does not model"]
ASSUMPTIONS = ["a field that was absent may come back explicitly set to its default value (same value for every reader); a present field must stay present", "proto2 stub semantics (presence, defaults, MergeFrom, AttributeError on unknown names, TypeError on None) validated against the real protobuf runtime on each run"]
EXPLANATION = "symbolic execution of the hand-written field mapping on symbolic field values with a descriptor-generated protobuf stub"


def restore():
    """undo conv(): the real protobuf classes back in place (other cases of the same worker process use them)"""
    import yowsup.layers.protocol_messages.protocolentities.attributes.converter as C
    import yowsup.layers.protocol_messages.proto.e2e_pb2 as e2e
    import yowsup.layers.protocol_messages.proto.protocol_pb2 as proto
    import yowsup.layers.protocol_messages.protocolentities.protomessage as PM
    C.Message, C.ContextInfo, C.MessageKey, PM.Message = e2e.Message, e2e.ContextInfo, proto.MessageKey, e2e.Message
    C.AttributesConverter._AttributesConverter__instance = None


def conv(ctx):
    import yowsup.layers.protocol_messages.protocolentities.attributes.converter as C
    if H.sym(ctx):
        from sx import protostub
        import yowsup.layers.protocol_messages.proto.e2e_pb2 as e2e
        import yowsup.layers.protocol_messages.proto.protocol_pb2 as proto
        C.Message = protostub.stub_class(e2e.Message.DESCRIPTOR)
        import yowsup.layers.protocol_messages.protocolentities.protomessage as PM
        PM.Message = C.Message
        C.ContextInfo = protostub.stub_class(e2e.ContextInfo.DESCRIPTOR)
        C.MessageKey = protostub.stub_class(proto.MessageKey.DESCRIPTOR)
    return C, C.AttributesConverter()


class V(object):
    """symbolic field values (concrete ones in replay mode)"""

    def __init__(self, ctx):
        self.ctx, self.i = ctx, 0

    def _n(self, hint):
        self.i += 1
        return "%s%d" % (hint, self.i)

    def s(self, hint="s", nonempty=False):
        return H.zstr(self.ctx, self._n(hint), nonempty=nonempty)

    def n(self, hint="n", hi=2 ** 32 - 1):
        return self.ctx.int(self._n(hint), 0, hi)

    def b(self, hint="b"):
        L = self.ctx.int(self._n(hint + "len"), 0, 64)
        return H.blob(self.ctx, self._n(hint), L)

    def f(self, hint="f"):
        return self.ctx.real(self._n(hint), -180, 180)

    def q(self, hint="q", hi=2 ** 20):
        """a non-negative multiple of 0.25 (exact in single precision, which the schema's float fields have)"""
        n = self.ctx.int(self._n(hint + "_quarters"), 0, hi)
        if H.sym(self.ctx):
            return SymReal(z3.ToReal(core.toint(n)) / 4)
        return n / 4.0

    def flag(self, hint="flag"):
        return self.ctx.flag(self._n(hint))


def attr_mods():
    import importlib
    p = "yowsup.layers.protocol_messages.protocolentities.attributes."
    names = dict(image="attributes_image.ImageAttributes", dl="attributes_downloadablemedia.DownloadableMediaMessageAttributes", ctxinfo="attributes_context_info.ContextInfoAttributes",
                 msg="attributes_message.MessageAttributes", ext="attributes_extendedtext.ExtendedTextAttributes", doc="attributes_document.DocumentAttributes",
                 contact="attributes_contact.ContactAttributes", loc="attributes_location.LocationAttributes", video="attributes_video.VideoAttributes",
                 audio="attributes_audio.AudioAttributes", sticker="attributes_sticker.StickerAttributes",
                 skdm="attributes_sender_key_distribution_message.SenderKeyDistributionMessageAttributes", protocol="attributes_protocol.ProtocolAttributes",
                 key="attributes_protocol.MessageKeyAttributes")
    out = {}
    for k, v in names.items():
        m, c = v.split(".")
        out[k] = getattr(importlib.import_module(p + m), c)
    return out


def _opt(which, name, make):
    """optional field policy: 'all' -> set, 'none' -> None, otherwise set iff which == name"""
    if which == "all" or which == name or (isinstance(which, tuple) and name in which):
        return make()
    return None


def _recording(v, cls):
    """constructor wrapper: remembers the values the composer handed over (the attribute object may keep something else)"""
    import inspect
    sig = inspect.signature(cls.__init__)

    def make(*a, **kw):
        obj = cls(*a, **kw)
        given = dict(sig.bind(obj, *a, **kw).arguments)
        given.pop("self", None)
        v.ledger.append((obj, {k: x for k, x in given.items() if x is not None and (isinstance(x, core.Sym) or not hasattr(x, "__dict__"))}))
        return obj
    return make


def composed_obs(prefix, v, sent, got):
    """every scalar the composer handed to a constructor is what the same-named getter of the parsed object returns"""
    where = {}

    def walk(s, g, path):
        if s is None or id(s) in where or not hasattr(s, "__dict__"):
            return
        where[id(s)] = (path, g)
        for name, sv in vars(s).items():
            if hasattr(sv, "__dict__") and not isinstance(sv, core.Sym) and type(sv).__module__.startswith("yowsup."):
                walk(sv, getattr(g, name, None) if g is not None else None, path + "." + name.lstrip("_"))
    walk(sent, got, prefix)
    obs = []
    for obj, given in getattr(v, "ledger", ()):
        if id(obj) not in where:
            continue
        path, g = where[id(obj)]
        if g is None:
            continue
        for name, val in given.items():
            if isinstance(val, (list, tuple)) or not isinstance(getattr(type(g), name, None), property):
                continue
            obs.append(("%s.%s (as handed to the constructor)" % (path, name), val_eq(val, getattr(g, name))))
    return obs


def raw_values(v):
    return {id(obj): given for obj, given in getattr(v, "ledger", ())}


def build(ctx, v, kind, which, depth):
    if not hasattr(v, "ledger"):
        v.ledger = []
    A = {k: _recording(v, cls) for k, cls in attr_mods().items()}
    if not hasattr(v, "top_depth"):
        v.top_depth, v.top_context = depth, None

    def context(depth):
        q = None
        if depth > 0:
            q = A["msg"](conversation=v.s("quoted", nonempty=True)) if depth == 1 else build(ctx, v, "image", "none", depth - 1)
        v.last_context = A["ctxinfo"](stanza_id=_opt(which, "stanza_id", v.s), participant=_opt(which, "participant", v.s), quoted_message=q,
                            remote_jid=_opt(which, "remote_jid", v.s), mentioned_jid=[v.s("jid", True), v.s("jid", True)] if which in ("all", "mentioned_jid") else None,
                            edit_version=_opt(which, "edit_version", lambda: v.n("ev", 2 ** 31 - 1)), revoke_message=_opt(which, "revoke_message", v.flag))
        if depth == v.top_depth:
            v.top_context = v.last_context
        return v.last_context

    def ci():
        return context(depth) if which in ("all", "context_info", "stanza_id", "participant", "remote_jid", "mentioned_jid", "edit_version", "revoke_message") else None

    def dl():
        return A["dl"](mimetype=v.s("mime"), file_length=v.n("flen", 2 ** 64 - 1), file_sha256=v.b("sha"), url=_opt(which, "url", v.s), media_key=_opt(which, "media_key", v.b), context_info=ci())
    if kind == "text":
        return A["msg"](conversation=v.s("text", nonempty=True))
    if kind == "image":
        return A["msg"](image=A["image"](dl(), v.n("w"), v.n("h"), _opt(which, "caption", v.s), _opt(which, "jpeg_thumbnail", v.b)))
    if kind == "contact":
        return A["msg"](contact=A["contact"](v.s("name"), v.b("vcard"), ci()))
    if kind == "location":
        return A["msg"](location=A["loc"](v.f("lat"), v.f("lon"), _opt(which, "name", v.s), _opt(which, "address", v.s), _opt(which, "url", v.s),
                                           _opt(which, "duration", lambda: v.q("dur")), _opt(which, "accuracy_in_meters", lambda: v.n("acc")), _opt(which, "speed_in_mps", v.f),
                                           _opt(which, "degrees_clockwise_from_magnetic_north", lambda: v.n("deg")), _opt(which, "axolotl_sender_key_distribution_message", v.b),
                                           _opt(which, "jpeg_thumbnail", v.b)))
    if kind == "extended_text":
        return A["msg"](extended_text=A["ext"](v.s("text"), _opt(which, "matched_text", v.s), _opt(which, "canonical_url", v.s), _opt(which, "description", v.s), _opt(which, "title", v.s),
                                               _opt(which, "jpeg_thumbnail", v.b), ci()))
    if kind == "document":
        d = dl()
        # DocumentAttributes.file_length and its downloadable part's file_length are one protobuf field: one value
        return A["msg"](document=A["doc"](d, v.s("fname"), d.file_length, _opt(which, "title", v.s), _opt(which, "page_count", lambda: v.n("pages")), _opt(which, "jpeg_thumbnail", v.b)))
    if kind == "audio":
        return A["msg"](audio=A["audio"](dl(), v.n("secs"), v.flag("ptt"), _opt(which, "streaming_sidecar", v.b)))
    if kind == "video":
        return A["msg"](video=A["video"](dl(), v.n("w"), v.n("h"), v.n("secs"), _opt(which, "gif_playback", v.flag), _opt(which, "jpeg_thumbnail", v.b),
                                         _opt(which, "gif_attribution", lambda: v.n("attr", 2)), _opt(which, "caption", v.s), _opt(which, "streaming_sidecar", v.b)))
    if kind == "sticker":
        return A["msg"](sticker=A["sticker"](dl(), v.n("w"), v.n("h"), _opt(which, "png_thumbnail", v.b)))
    if kind == "sender_key_distribution":
        return A["msg"](sender_key_distribution_message=A["skdm"](v.s("group", True), v.b("skdm")))
    if kind == "revoke":
        return A["msg"](protocol=A["protocol"](A["key"](v.s("jid", True), v.flag("fromme"), v.s("id", True), v.s("participant")), 0))
    raise ValueError(kind)


OPTIONALS = {
    "text": [], "image": ["caption", "jpeg_thumbnail", "url", "media_key", "context_info", "mentioned_jid", "remote_jid"], "contact": ["context_info", "mentioned_jid"],
    "location": ["name", "address", "url", "duration", "accuracy_in_meters", "speed_in_mps", "degrees_clockwise_from_magnetic_north", "axolotl_sender_key_distribution_message", "jpeg_thumbnail"],
    "extended_text": ["matched_text", "canonical_url", "description", "title", "jpeg_thumbnail", "context_info", "stanza_id", "participant", "remote_jid", "mentioned_jid", "edit_version", "revoke_message"],
    "document": ["title", "page_count", "jpeg_thumbnail", "url", "media_key", "context_info", "mentioned_jid"], "audio": ["streaming_sidecar", "url", "media_key", "context_info", "mentioned_jid"],
    "video": ["gif_playback", "jpeg_thumbnail", "gif_attribution", "caption", "streaming_sidecar", "url", "media_key", "context_info", "mentioned_jid", "edit_version"],
    "sticker": ["png_thumbnail", "url", "media_key", "context_info", "mentioned_jid"], "sender_key_distribution": [], "revoke": [],
}


def val_eq(a, b):
    """equality of two field values as an obligation (None only equals None)"""
    if a is None or b is None:
        return a is None and b is None
    if isinstance(a, (SymSeq, bytes, bytearray)) or isinstance(b, (SymSeq, bytes, bytearray)):
        return H.rope_eq(a, b)
    if isinstance(a, float) and isinstance(b, float):
        return a == b
    return core.eq(a, b)


def attrs_obs(prefix, sent, got, only_set=True):
    """every field the sender set is returned with the same value (recursively through attribute objects)"""
    obs = []
    if sent is None:
        return obs
    if got is None:
        return [(prefix + ": returned at all", False)]
    for name, sv in vars(sent).items():
        pub = name[1:] if name.startswith("_") else name
        if sv is None and only_set:
            continue
        gv = getattr(got, name, None)
        if hasattr(sv, "__dict__") and not isinstance(sv, (core.Sym,)) and type(sv).__module__.startswith("yowsup."):
            obs += attrs_obs(prefix + "." + pub, sv, gv, only_set)
        elif isinstance(sv, (list, tuple)):
            gl = list(gv) if gv is not None else None
            if gl is None or len(gl) != len(sv):
                obs.append((prefix + "." + pub + ": same number of elements", False))
            else:
                for i, (x, y) in enumerate(zip(sv, gl)):
                    obs.append((prefix + "." + pub + "[%d]" % i, val_eq(x, y)))
        else:
            obs.append((prefix + "." + pub, val_eq(sv, gv)))
    return obs


def find_context(obj, seen=None):
    """the context info of a message's content (first one found walking the attribute objects, not descending into quoted messages)"""
    seen = seen or set()
    if obj is None or id(obj) in seen or not hasattr(obj, "__dict__"):
        return None
    seen.add(id(obj))
    for name, val in vars(obj).items():
        if name.lstrip("_") == "context_info" and val is not None:
            return val
    for name, val in vars(obj).items():
        if name.lstrip("_") != "quoted_message" and hasattr(val, "__dict__") and type(val).__module__.startswith("yowsup."):
            r = find_context(val, seen)
            if r is not None:
                return r
    return None


def h_roundtrip(ctx, kind, which, depth):
    C, c = conv(ctx)
    v = V(ctx)
    sent = build(ctx, v, kind, which, depth)
    wire = c.message_to_protobytes(sent)
    got = c.protobytes_to_message(wire)
    obs = composed_obs(kind, v, sent, got) + attrs_obs(kind, sent, got)
    if getattr(v, "top_context", None) is not None:
        # the context the application handed to the constructors (the attribute object itself might have dropped it)
        obs += attrs_obs(kind + ".context_info(as composed)", v.top_context, find_context(got))
    # peer direction: what was parsed is re-serialised without changing any modelled field
    again = c.protobytes_to_message(c.message_to_protobytes(got))
    obs += attrs_obs("re-serialised:" + kind, got, again, only_set=False)
    return obs


def proto_obs(prefix, a, b):
    """two protobuf messages (stub or real) carry the same fields with the same values"""
    from google.protobuf.descriptor import FieldDescriptor as FD
    obs = []
    for f in a.DESCRIPTOR.fields:
        if f.label == FD.LABEL_REPEATED:
            xa, xb = list(getattr(a, f.name)), list(getattr(b, f.name))
            if len(xa) != len(xb):
                obs.append(("%s.%s: same number of elements (%d vs %d)" % (prefix, f.name, len(xa), len(xb)), False))
            else:
                for i, (x, y) in enumerate(zip(xa, xb)):
                    obs.append(("%s.%s[%d]" % (prefix, f.name, i), val_eq(x, y)))
            continue
        ha, hb = a.HasField(f.name), b.HasField(f.name)
        if ha and not hb:
            obs.append(("%s.%s: lost" % (prefix, f.name), False))
        elif ha or hb:
            # a field that was absent may come back explicitly set to its default value (readers see the same value); anything else is a change
            if f.type == FD.TYPE_MESSAGE:
                obs += proto_obs(prefix + "." + f.name, getattr(a, f.name), getattr(b, f.name))
            else:
                obs.append(("%s.%s" % (prefix, f.name), val_eq(getattr(a, f.name), getattr(b, f.name))))
    return obs


def h_peer_payload(ctx, kind, which, depth):
    """a payload as a peer client sends it (fields under the schema's names, built by the independent reference mapping) is parsed and
    re-serialised by the library without losing or changing any field the library models"""
    from ref import e2e_ref
    C, c = conv(ctx)
    v = V(ctx)
    model = build(ctx, v, kind, which, depth)
    if H.sym(ctx):
        P = e2e_ref.message(C.Message(), model, raw_values(v))
        wire = P.SerializeToString()
    else:
        import yowsup.layers.protocol_messages.proto.e2e_pb2 as e2e
        P = e2e_ref.message(e2e.Message(), model, raw_values(v))
        wire = P.SerializeToString()
    got = c.protobytes_to_message(wire)
    Q = C.Message() if H.sym(ctx) else e2e.Message()
    Q.ParseFromString(c.message_to_protobytes(got))
    return composed_obs("parsed:" + kind, v, model, got) + attrs_obs("parsed:" + kind, model, got) + proto_obs("re-serialised:" + kind, P, Q)


def h_roundtrip_with_skdm(ctx, kind):
    """the first message to a group member carries the sender key next to the content: both survive"""
    C, c = conv(ctx)
    v = V(ctx)
    A = attr_mods()
    sent = build(ctx, v, kind, "none", 0)
    sent.sender_key_distribution_message = A["skdm"](v.s("group", True), v.b("skdm"))
    got = c.protobytes_to_message(c.message_to_protobytes(sent))
    return attrs_obs(kind + "+sender_key_distribution", sent, got)


def h_retry_after_refusal(ctx, kind, quoted):
    """the application hands over a message with a value the schema refuses (a negative width), gets the error, corrects the value and
    sends the SAME objects again (or quotes the same object in a new reply): the second attempt is serialised in full"""
    C, c = conv(ctx)
    v = V(ctx)
    A = attr_mods()
    sent = build(ctx, v, kind, "none", 0)
    media = getattr(sent, kind)
    good = media.width
    outer = A["msg"](extended_text=A["ext"](v.s("reply"), None, None, None, None, None, A["ctxinfo"](stanza_id=v.s("sid", True), participant=v.s("p", True), quoted_message=sent))) if quoted else sent
    media.width = -1
    refused = False
    try:
        c.message_to_protobytes(outer)
    except (ValueError, TypeError):
        refused = True
    media.width = good
    got = c.protobytes_to_message(c.message_to_protobytes(outer))
    inner = got.extended_text.context_info.quoted_message if quoted and got.extended_text is not None and got.extended_text.context_info is not None else (None if quoted else got)
    return [("the value the schema cannot carry is refused", refused)] + attrs_obs(kind + " (second attempt)", sent, inner)


def h_two_quotes(ctx):
    """two replies handled one after the other in one process whose contexts name the SAME quoted stanza id (the same original quoted twice,
    or ids colliding across chats) but carry different quoted content: each comes back with its own quote"""
    C, c = conv(ctx)
    v = V(ctx)
    A = attr_mods()
    sid = v.s("stanza", True)
    q1, q2, t1, t2 = v.s("quoted", True), v.s("quoted", True), v.s("text", True), v.s("text", True)

    def reply(text, quoted):
        return A["msg"](extended_text=A["ext"](text, None, None, None, None, None, A["ctxinfo"](stanza_id=sid, participant=v.s("p", True), quoted_message=A["msg"](conversation=quoted))))
    got1 = c.protobytes_to_message(c.message_to_protobytes(reply(t1, q1)))
    got2 = c.protobytes_to_message(c.message_to_protobytes(reply(t2, q2)))

    def quote_of(g):
        ci = g.extended_text.context_info if g.extended_text is not None else None
        return ci.quoted_message.conversation if ci is not None and ci.quoted_message is not None else None
    return [("the first reply comes back with its own quote", val_eq(quote_of(got1), q1)), ("the second reply comes back with ITS quote, not the first one's", val_eq(quote_of(got2), q2)),
            ("... and its own text", val_eq(got2.extended_text.text, t2))]


def h_two_messages(ctx):
    """two messages composed one after the other in one process: the application adds a mention to the first one's context IN PLACE
    (list append), then composes a second message without mentions: nothing of the first leaks into the second"""
    C, c = conv(ctx)
    v = V(ctx)
    A = attr_mods()
    jid, t1, t2, sid = v.s("jid", True), v.s("text", True), v.s("text", True), v.s("stanza", True)
    ctx1 = A["ctxinfo"]()
    ctx1.mentioned_jid.append(jid)
    m1 = A["msg"](extended_text=A["ext"](t1, None, None, None, None, None, ctx1))
    got1 = c.protobytes_to_message(c.message_to_protobytes(m1))
    ctx2 = A["ctxinfo"](stanza_id=sid)
    m2 = A["msg"](extended_text=A["ext"](t2, None, None, None, None, None, ctx2))
    got2 = c.protobytes_to_message(c.message_to_protobytes(m2))
    g1 = list(got1.extended_text.context_info.mentioned_jid or []) if got1.extended_text.context_info is not None else None
    g2 = list(got2.extended_text.context_info.mentioned_jid or []) if got2.extended_text.context_info is not None else None
    return [("first message carries the mention added in place", g1 is not None and len(g1) == 1 and val_eq(g1[0], jid)),
            ("second message, composed without mentions, carries none (%s)" % (len(g2) if g2 is not None else None), g2 is not None and len(g2) == 0),
            ("second message carries its own quoted stanza id", val_eq(got2.extended_text.context_info.stanza_id, sid))]


def _settable(cls):
    import inspect
    return sorted(n for n, m in inspect.getmembers(cls, lambda x: isinstance(x, property)) if m.fset is not None)


def _fresh(cls):
    """an object of an attribute class made through its constructor: required parameters get a marker string"""
    import inspect
    kw = {}
    for n, prm in list(inspect.signature(cls.__init__).parameters.items())[1:]:
        if prm.default is inspect.Parameter.empty and prm.kind in (prm.POSITIONAL_OR_KEYWORD, prm.KEYWORD_ONLY):
            kw[n] = "init-" + n
    return cls(**kw)


def h_setters(ctx, key):
    """content composed by editing an object after it was made (text first, preview filled in afterwards): setting one field
    changes that field, to the value given, and no other field"""
    cls = attr_mods()[key]
    props = _settable(cls)
    if not props:
        return [("the class has no settable fields (nothing to edit)", True)]
    name = ctx.choice("field", props)
    earlier = ctx.choice("field_set_before", ["none"] + props)
    try:
        obj = _fresh(cls)
        if earlier != "none":
            setattr(obj, earlier, "first-" + earlier)
    except AssertionError:
        return [("the class (or the field set first) demands a typed value: a marker string is refused (outside this case)", True)]
    before = {p: getattr(obj, p) for p in props}
    value = "edited-" + name
    try:
        setattr(obj, name, value)
    except AssertionError:
        return [("the field demands a typed value: a marker string is refused (outside this case)", True)]
    after = {p: getattr(obj, p) for p in props}
    changed = sorted(p for p in props if p != name and not (after[p] is before[p] or after[p] == before[p]))
    return [("%s.%s reads back as the value set (got %r)" % (cls.__name__, name, after[name]), after[name] == value),
            ("setting %s.%s leaves the other fields as they were (changed: %s)" % (cls.__name__, name, changed), not changed)]


def h_entity_reserialise(ctx, kind):
    """entity level (protomessage.py): the application changes the content of an entity it has already serialised once
    (forwarding a received message with a new text, a retry with an edited caption): the next stanza carries the new content"""
    C, c = conv(ctx)
    v = V(ctx)
    C.AttributesConverter._AttributesConverter__instance = c if hasattr(C.AttributesConverter, "_AttributesConverter__instance") else None
    from yowsup.layers.protocol_messages.protocolentities.message_text import TextMessageProtocolEntity
    from yowsup.layers.protocol_messages.protocolentities.message_extendedtext import ExtendedTextMessageProtocolEntity
    from yowsup.layers.protocol_messages.protocolentities.attributes.attributes_message_meta import MessageMetaAttributes
    s1, s2 = v.s("first", True), v.s("second", True)
    if kind == "text":
        e = TextMessageProtocolEntity(s1, to="4915901234567@s.whatsapp.net")
        first = e.toProtocolTreeNode()
        e.conversation = s2
        back = TextMessageProtocolEntity.fromProtocolTreeNode(e.toProtocolTreeNode())
        return [("re-serialised entity carries the new text", val_eq(back.conversation, s2)),
                ("first stanza carried the first text", val_eq(TextMessageProtocolEntity.fromProtocolTreeNode(first).conversation, s1))]
    A = attr_mods()
    e = ExtendedTextMessageProtocolEntity(A["ext"](s1, None, None, None, None, None, None), MessageMetaAttributes(recipient="4915901234567@s.whatsapp.net"))
    first = e.toProtocolTreeNode()
    e.text = s2
    back = ExtendedTextMessageProtocolEntity.fromProtocolTreeNode(e.toProtocolTreeNode())
    return [("re-serialised entity carries the new text", val_eq(back.text, s2)),
            ("first stanza carried the first text", val_eq(ExtendedTextMessageProtocolEntity.fromProtocolTreeNode(first).text, s1))]


def h_stub_vs_real(ctx):
    """the stub behaves like the real protobuf runtime on the operations the converter uses (concrete values)"""
    from sx import protostub
    import yowsup.layers.protocol_messages.proto.e2e_pb2 as e2e
    S = protostub.stub_class(e2e.Message.DESCRIPTOR)
    R = e2e.Message
    obs = []

    def both(f):
        out = []
        for M in (R, S):
            try:
                out.append(("ok", f(M)))
            except Exception as e:
                out.append(("exc", type(e).__name__))
        return out
    checks = {
        "default of unset string": lambda M: M().conversation,
        "HasField unset scalar": lambda M: M.ImageMessage().HasField("caption"),
        "HasField after set empty": lambda M: _set(M.ImageMessage(), "caption", "").HasField("caption"),
        "auto child not present": lambda M: (M().image_message.url, M().HasField("image_message"))[1],
        "child present after set": lambda M: _setchild(M()).HasField("image_message"),
        "MergeFrom empty marks present": lambda M: _merge_empty(M).HasField("image_message"),
        "unknown attribute write": lambda M: setattr(M.LocationMessage(), "_axolotl_sender_key_distribution_message", b"x"),
        "unknown attribute read": lambda M: M.LocationMessage().nosuchfield,
        "None to string": lambda M: setattr(M.ImageMessage(), "caption", None),
        "str to bytes": lambda M: setattr(M.ImageMessage(), "jpeg_thumbnail", "x"),
        "int out of range": lambda M: setattr(M.ImageMessage(), "width", -1),
        "assign message field": lambda M: setattr(M(), "image_message", M.ImageMessage()),
        "repeated slice assign": lambda M: _rep(e2e, protostub, M),
        "default uint": lambda M: M.ImageMessage().width,
        "default bool": lambda M: M.AudioMessage().ptt,
        "default bytes": lambda M: M.ImageMessage().jpeg_thumbnail,
    }
    for name, f in sorted(checks.items()):
        r, s = both(f)
        obs.append(("stub==protobuf: %s (real %s, stub %s)" % (name, r, s), r == s))
    return obs


def _set(m, k, v):
    setattr(m, k, v)
    return m


def _setchild(m):
    m.image_message.url = "u"
    return m


def _merge_empty(M):
    m = M()
    m.image_message.MergeFrom(M.ImageMessage())
    return m


def _rep(e2e, protostub, M):
    Cx = e2e.ContextInfo if M is e2e.Message else protostub.stub_class(e2e.ContextInfo.DESCRIPTOR)
    c = Cx()
    c.mentioned_jid[:] = ["a", "b"]
    return (len(c.mentioned_jid), list(c.mentioned_jid))


def finding_key(case, label, values, where):
    if "location" in case and "AttributeError" in label:
        return "C10|location_to_proto assigns a misspelt field (_axolotl_sender_key_distribution_message)"
    if "audio.streaming_sidecar" in label:
        return "C10|audio streaming_sidecar is not mapped"
    return None


def cases(tier):
    q = tier == "quick"
    cs = [dict(name="stub-vs-real-protobuf", fn=h_stub_vs_real)]
    cs += [dict(name="entity[%s,changed after first serialisation]" % k, fn=h_entity_reserialise, args=(k,)) for k in ("text", "extended_text")]
    cs.append(dict(name="two-messages[mention added in place, then a fresh message]", fn=h_two_messages))
    cs += [dict(name="edited-after-construction[%s]" % k, fn=h_setters, args=(k,)) for k in sorted(attr_mods())]
    cs.append(dict(name="two-replies[same quoted stanza id, different quotes]", fn=h_two_quotes))
    for kind in ("image", "video"):
        for quoted in (False, True):
            cs.append(dict(name="retry-after-refusal[%s,%s]" % (kind, "quoted in a reply" if quoted else "top level"), fn=h_retry_after_refusal, args=(kind, quoted)))
    for kind, opts in sorted(OPTIONALS.items()):
        fams = ["none", "all"] + opts
        for w in fams:
            depth = 2 if (w in ("all", "context_info") and q) else (3 if w in ("all", "context_info") else 0)
            cs.append(dict(name="rt[%s,%s]" % (kind, w), fn=h_roundtrip, args=(kind, w, depth), timeout_s=300, max_paths=5000))
            cs.append(dict(name="peer[%s,%s]" % (kind, w), fn=h_peer_payload, args=(kind, w, depth), timeout_s=300, max_paths=5000))
        if kind != "sender_key_distribution":
            cs.append(dict(name="rt[%s,+sender_key_distribution]" % kind, fn=h_roundtrip_with_skdm, args=(kind,), timeout_s=300, max_paths=5000))
        if not q:
            for i in range(len(opts)):
                for j in range(i + 1, len(opts)):
                    cs.append(dict(name="rt[%s,%s+%s]" % (kind, opts[i], opts[j]), fn=h_roundtrip, args=(kind, (opts[i], opts[j]), 1), timeout_s=300, max_paths=5000))
    return cs
