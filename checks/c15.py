"""C15 -- media encryption: lossless round-trip, tamper detection, WhatsApp-compatible layout.

Symbolic: plaintext length L in [0, Lmax] (contents abstract), media key (abstract 32 bytes), media kind, tamper position.
Real code executed: MediaCipher.encrypt/decrypt and the per-kind wrappers (instrumented); HKDF, AES-CBC and HMAC are
uninterpreted terms with dec(enc(x)) = x, PKCS7 is modelled exactly.  Every model is replayed with the real `cryptography`
library, where the output is also compared byte for byte with ref/mediacipher_ref.py."""
import z3
from sx import core, hooks, harness as H
from sx.core import SymInt
from sx.vals import SymSeq, Piece, Fill, Term, valkey
from sx import crypto_models as M

PROPERTY = "C15"
LEVEL = "model_checking"
CODE = ["yowsup/layers/protocol_media/mediacipher.py:MediaCipher.encrypt/decrypt/encrypt_*/decrypt_*"]
BOUNDS = {"quick": "[+ bytearray content flag; sweep lengths 65518..65537 and 131055..131072] " 
                   "[+ flag: the instance decrypted a genuine file before the tampered one] " 
                   "[+ shared instance: 4 operation pairs x LA in {0,15,16,33} x LB in {1,16} x pre-emption after k<=25 lines] " 
                   "(plus the same obligations with L anywhere in 0..2^20) plaintext length L in [0,80] symbolic (every residue mod 16, incl. 0 and block multiples), 4 media kinds, tamper at a symbolic position of ciphertext or tag, "
                   "truncation by 1..26 bytes, wrong key, wrong kind", "thorough": "L in [0,4096]; concrete replays additionally at every length 0..80 for each kind"}
OUTSIDE = ["plaintexts longer than the bound (the code has no length-dependent branch other than L mod 16, which the symbolic L covers)",
           "strength of the primitives themselves: tamper detection is proved under the ideal-primitive assumption and exercised concretely on the witnesses"]
ASSUMPTIONS = ["HKDF, AES-CBC, HMAC-SHA256 modelled as uninterpreted functions with dec(enc(x))=x for equal key/iv; syntactically different terms are different values (ideal primitives)",
               "PKCS7 padder/unpadder modelled exactly; the model of each primitive is cross-checked against the real library on every witness (concrete replay)"]
EXPLANATION = "symbolic execution of the real mediacipher module with crypto as uninterpreted terms; symbolic plaintext length"

KINDS = ("image", "audio", "video", "document")
INFO = {"image": b"WhatsApp Image Keys", "audio": b"WhatsApp Audio Keys", "video": b"WhatsApp Video Keys", "document": b"WhatsApp Document Keys"}


def _mc(ctx):
    import yowsup.layers.protocol_media.mediacipher as mc
    if H.sym(ctx):
        mc.HKDFv3, mc.ByteUtil, mc.Cipher, mc.algorithms, mc.modes = M.M_HKDF, M.M_ByteUtil, M.M_Cipher, M.M_algorithms, M.M_modes
        mc.default_backend, mc.padding, mc.hmac = (lambda: None), M.M_padding, M.M_hmac
    return mc.MediaCipher()


def _enc(c, kind, p, key):
    return getattr(c, "encrypt_" + kind)(p, key)


def _dec(c, kind, blob, key):
    return getattr(c, "decrypt_" + kind)(blob, key)


def _inputs(ctx, lmax):
    L = ctx.int("L", 0, lmax)
    return L, H.blob(ctx, "P", L), H.blob(ctx, "K", 32)


def h_roundtrip(ctx, kind, lmax):
    c = _mc(ctx)
    L, p, key = _inputs(ctx, lmax)
    handed = p
    if ctx.flag("content_handed_over_as_a_bytearray"):
        handed = SymSeq(list(p.items), "bytearray") if H.sym(ctx) else bytearray(p)
    ct = _enc(c, kind, handed, key)
    out = _dec(c, kind, ct, key)
    return [("the caller's buffer is left as it was", H.rope_eq(handed, p)), ("decrypt(encrypt(p))==p", H.rope_eq(out, p)), ("result-is-bytes", not isinstance(out, SymSeq) and isinstance(out, bytes) or isinstance(out, SymSeq))]


def _ref_terms(p, L, key, kind):
    d = Term("hkdf", M.rope(key), M.rope(INFO[kind]), "nosalt")
    d.size = 112
    D = M.tblob(d, 112)
    iv, k, mk = D[0:16], D[16:48], D[48:80]
    padlen = 16 - (L % 16)
    padded = M.rope(p) + SymSeq([Fill(padlen, core.toint(padlen))], "bytes")
    n = padded.length()
    ct = Term("cbc_enc", k, iv, padded)
    ct.size = n
    CT = M.tblob(ct, n)
    mac = Term("hmac", "openssl_sha256", M.rope(mk), iv + CT)
    mac.size = 32
    return CT + M.tblob(mac, 32)[0:10]


def h_layout(ctx, kind, lmax):
    c = _mc(ctx)
    L, p, key = _inputs(ctx, lmax)
    out = _enc(c, kind, p, key)
    if H.sym(ctx):
        ref = _ref_terms(p, L, key, kind)
        same = valkey(SymSeq(out.items, "bytes")) == valkey(ref)
        return [("ciphertext==reference-layout(HKDF iv/key/mackey, always-padded CBC, 10-byte MAC over iv+ct)", same),
                ("length==16*(L//16+1)+10", core.eq(H.length_of(out), 16 * (L // 16 + 1) + 10))]
    from ref import mediacipher_ref as R
    return [("ciphertext==reference-layout(HKDF iv/key/mackey, always-padded CBC, 10-byte MAC over iv+ct)", bytes(out) == R.encrypt(bytes(p), bytes(key), kind)),
            ("length==16*(L//16+1)+10", len(out) == 16 * (L // 16 + 1) + 10),
            ("reference-decrypts-library-output", _try(lambda: R.decrypt(bytes(out), bytes(key), kind)) == bytes(p))]


def _try(f):
    try:
        return f()
    except Exception as e:
        return e


def h_ref_to_lib(ctx, kind, lmax):
    """what an independent WhatsApp client produced is decrypted by the library (concrete replay does the real work)"""
    c = _mc(ctx)
    L, p, key = _inputs(ctx, lmax)
    if H.sym(ctx):
        blob = _ref_terms(p, L, key, kind)
    else:
        from ref import mediacipher_ref as R
        blob = R.encrypt(bytes(p), bytes(key), kind)
    out = _dec(c, kind, blob, key)
    return [("library-decrypts-reference-ciphertext", H.rope_eq(out, p))]


def h_tamper(ctx, kind, how, lmax):
    c = _mc(ctx)
    L, p, key = _inputs(ctx, lmax)
    ct = _enc(c, kind, p, key)
    n = H.length_of(ct)
    key2, kind2 = key, kind
    if how.startswith("flip"):
        i = ctx.int("pos", 0)
        ctx.assume(i < n)
        if how.startswith("flip-tag"):
            k = int(how[8:])                      # flip exactly the k-th byte of the 10-byte tag
            ctx.assume(i == n - 10 + k if not H.sym(ctx) else (i == n - 10 + k))
        d = ctx.int("delta", 1, 255)
        if H.sym(ctx):
            old = ct[i]
            bad = ct[:i] + SymSeq([(old + d) % 256], "bytes") + ct[i + 1:]
            bad = SymSeq(bad.items, "bytes")
        else:
            b = bytearray(ct)
            b[i] = (b[i] + d) % 256
            bad = bytes(b)
    elif how == "truncate":
        k = ctx.int("cut", 1, 26)
        ctx.assume(k <= n)
        bad = ct[:n - k]
    elif how == "wrong-key":
        key2 = H.blob(ctx, "K2", 32)
        bad = ct
    elif how == "wrong-kind":
        kind2 = ctx.choice("kind2", [x for x in KINDS if x != kind])
        bad = ct
    if ctx.flag("instance_has_decrypted_a_genuine_file_before"):
        # the library keeps one cipher object per download worker: what it accepted earlier must not colour a later verdict
        _dec(c, kind, ct, key)
    try:
        out = _dec(c, kind2, bad, key2)
    except ValueError:
        return [("tampering-rejected", True)]
    except IndexError:
        return [("tampering-rejected", True)]
    return [("tampering-rejected (decrypt returned %s)" % ("a value" if out is not None else "None"), False),
            ("never-different-plaintext", H.rope_eq(out, p) is True)]


def h_vector(ctx):
    """the repository's own fixture vector, against the library and the reference (concrete in both modes)"""
    import base64, re, os
    src = open(os.path.join((os.environ.get("YOWSUP_REPO") or "/repo"), "yowsup/layers/protocol_media/test_mediacipher.py")).read()
    m = re.search(r"IMAGE = \((.*?)\n    \)", src, re.S)
    parts = eval("(" + m.group(1) + ")")
    key, plain, enc = [base64.b64decode(x) for x in parts]
    from ref import mediacipher_ref as R
    if H.sym(ctx):
        return [("reference-matches-fixture-vector", R.encrypt(plain, key, "image") == enc), ("reference-decrypts-fixture", R.decrypt(enc, key, "image") == plain)]
    import yowsup.layers.protocol_media.mediacipher as mc
    c = mc.MediaCipher()
    return [("reference-matches-fixture-vector", R.encrypt(plain, key, "image") == enc), ("library-matches-fixture-vector", c.encrypt_image(plain, key) == enc),
            ("library-decrypts-fixture", c.decrypt_image(enc, key) == plain)]


def h_concrete_lengths(ctx, kind):
    """every length 0..80 with the real library (solver picks nothing here: exhaustive concrete sweep, runs in replay mode only)"""
    if H.sym(ctx):
        ctx.int("dummy", 0, 0)
        return [("sweep-runs-in-replay", True)]
    import yowsup.layers.protocol_media.mediacipher as mc
    from ref import mediacipher_ref as R
    c = mc.MediaCipher()
    key = H.pattern_bytes("K", 32)
    bad = []
    # every length 0..80, and the lengths around multiples of 64 KiB (where implementations that work in slices have their seams)
    for L in list(range(0, 81)) + list(range(65536 - 18, 65536 + 2)) + list(range(2 * 65536 - 17, 2 * 65536 + 1)):
        p = H.pattern_bytes("P", L)
        try:
            ct = _enc(c, kind, p, key)
            if ct != R.encrypt(p, key, kind) or _dec(c, kind, ct, key) != p:
                bad.append(L)
        except Exception:
            bad.append(L)
    return [("all-lengths-0..80-roundtrip-and-match-reference (failing: %s)" % bad[:8], not bad)]


def h_shared_instance(ctx, kind, op_a, op_b):
    """one MediaCipher object used by two threads (the library itself keeps one per download worker): thread A is pre-empted after k of its
    lines inside mediacipher.py (solver's choice), thread B runs a whole operation with ANOTHER key on the same object, A resumes.
    Both results must be what each operation yields when run alone"""
    import sys
    from checks import preempt
    c = _mc(ctx)
    alone = _mc(ctx)
    LA = ctx.choice("LA", [0, 15, 16, 33])
    LB = ctx.choice("LB", [1, 16])
    pa, ka = H.blob(ctx, "PA", LA), H.blob(ctx, "KA", 32)
    pb, kb = H.blob(ctx, "PB", LB), H.blob(ctx, "KB", 32)
    k = ctx.choice("A_preempted_after_lines", list(range(0, 26)))
    blob_a, blob_b = _enc(alone, kind, pa, ka), _enc(alone, kind, pb, kb)

    def A(obj=c):
        return _enc(obj, kind, pa, ka) if op_a == "encrypt" else _dec(obj, kind, blob_a, ka)

    def B(obj=c):
        return _enc(obj, kind, pb, kb) if op_b == "encrypt" else _dec(obj, kind, blob_b, kb)
    want_a, want_b = A(alone), B(alone)
    fname = sys.modules[type(c).__module__].__file__
    r = preempt.run_preempted(A, B, fname, k)
    obs = [("both operations return (stuck %s, errors %s)" % (r["stuck"], {i: repr(e)[:100] for i, e in r["errors"].items()}), not r["stuck"] and not r["errors"])]
    if 1 in r["results"]:
        obs.append(("the pre-empted operation yields what it yields alone", H.rope_eq(r["results"][1], want_a)))
    if 2 in r["results"]:
        obs.append(("the operation that ran in between yields what it yields alone", H.rope_eq(r["results"][2], want_b)))
    return obs


def finding_key(case, label, values, where):
    if values and values.get("L") is not None and values["L"] % 16 == 0 and not case.startswith("tamper"):
        return "C15|block-aligned plaintext is not padded"
    return None


def cases(tier):
    lmax = 80 if tier == "quick" else 4096
    cs = [dict(name="fixture-vector", fn=h_vector)]
    for k in KINDS:
        cs.append(dict(name="roundtrip[%s]" % k, fn=h_roundtrip, args=(k, lmax)))
        cs.append(dict(name="layout[%s]" % k, fn=h_layout, args=(k, lmax)))
        cs.append(dict(name="ref->lib[%s]" % k, fn=h_ref_to_lib, args=(k, lmax)))
        for how in ("flip", "truncate", "wrong-key", "wrong-kind") + tuple("flip-tag%d" % k for k in range(10)):
            cs.append(dict(name="tamper[%s,%s]" % (how, k), fn=h_tamper, args=(k, how, lmax), keep_samples=12))
        cs.append(dict(name="sweep[%s]" % k, fn=h_concrete_lengths, args=(k,)))
        # large media: the same obligations with the length anywhere up to 1 MiB (2 MiB thorough)
        big = (1 << 20) if tier == "quick" else (1 << 21)
        cs.append(dict(name="layout[%s,L<=%d]" % (k, big), fn=h_layout, args=(k, big), timeout_s=300))
        cs.append(dict(name="ref->lib[%s,L<=%d]" % (k, big), fn=h_ref_to_lib, args=(k, big), timeout_s=300))
        cs.append(dict(name="roundtrip[%s,L<=%d]" % (k, big), fn=h_roundtrip, args=(k, big), timeout_s=300))
    for k in ("image",) if tier == "quick" else KINDS:
        for oa in ("encrypt", "decrypt"):
            for ob in ("encrypt", "decrypt"):
                cs.append(dict(name="shared-instance[%s, %s pre-empted by %s]" % (k, oa, ob), fn=h_shared_instance, args=(k, oa, ob), keep_samples=30, timeout_s=300))
    return cs
