"""child process of C13's kill harness: performs ONE store operation on the real store classes over the real sqlite3 library and dies
(os._exit, no clean-up of any kind) at a chosen boundary.  usage: c13_child.py <repo> <db path> <operation> <size> <die at: commit|after-execute|never>"""
import os, sys

repo, path, op, size, die_at = sys.argv[1], sys.argv[2], sys.argv[3], int(sys.argv[4]), sys.argv[5]
sys.dont_write_bytecode = True
sys.path.insert(0, repo)
import sqlite3
import yowsup.axolotl.store.sqlite.liteaxolotlstore as m


class Rec(object):
    def __init__(self, b):
        self.b = b

    def serialize(self):
        return self.b


class Conn(object):
    """the store's connection; dies at the chosen boundary of the operation (armed only while it runs)"""
    armed = False

    def __init__(self, c):
        self.__dict__["_c"] = c

    def commit(self):
        if Conn.armed and die_at == "commit":
            os._exit(17)
        return self._c.commit()

    def __getattr__(self, n):
        return getattr(self._c, n)

    def __setattr__(self, n, v):
        setattr(self._c, n, v)


class Sqlite(object):
    def connect(self, *a, **k):
        return Conn(sqlite3.connect(*a, **k))

    def __getattr__(self, n):
        return getattr(sqlite3, n)


m.sqlite3 = Sqlite()
store = m.LiteAxolotlStore(path)
payload = bytes((i * 31 + 7) % 251 for i in range(1024)) * (size // 1024) + b"\xee" * (size % 1024)
Conn.armed = True
if op == "replace-session":
    store.storeSession(5, 1, Rec(b"NEW" + payload))
elif op == "add-session":
    store.storeSession(9, 1, Rec(b"NEW" + payload))
elif op == "delete-session":
    store.deleteSession(5, 1)
Conn.armed = False
os._exit(0 if die_at == "never" else 3)
