"""the REAL network layer and the REAL connection dispatchers of the library over a socket double.

Nothing of yowsup is replaced: YowNetworkLayer, AsyncoreConnectionDispatcher / SocketConnectionDispatcher and (for the asyncore one) the
asyncore package's dispatcher classes run as they are; only the `socket` module they see is a double whose sockets
  * connect at once, later, or fail (synchronously with gaierror, or later with SO_ERROR),
  * accept all, part or none of the bytes of a send (back-pressure: the solver's choice), or fail with ECONNRESET,
  * deliver incoming chunks, a close by the peer, or block.
Readiness events are delivered through asyncore's own read()/write() wrappers, as its loop does.  What the peer of every connection
received is recorded per socket."""
import errno, socket as _real_socket, threading, queue


class World(object):
    def __init__(self):
        self.sockets = []
        self.violations = []
        self.connect_mode = "later"        # "later" | "gaierror" | "now"


class FakeSocket(object):
    def __init__(self, world):
        self.w = world
        self.no = len(world.sockets)
        world.sockets.append(self)
        self.established = False
        self.closed = False
        self.peer_closed = False
        self.reset = False
        self.so_error = 0
        self.budget = []                  # bytes accepted by the next send calls (empty: everything)
        self.rx = []
        self.written = bytearray()        # what the peer of THIS connection received
        self.blocking_rx = None           # queue used by the blocking (socket dispatcher) variant
        self.idle = threading.Event()

    # -- the calls the dispatchers make
    def setblocking(self, flag):
        pass

    def settimeout(self, t):
        pass

    def fileno(self):
        return 1000 + self.no

    def getsockopt(self, level, opt):
        return self.so_error

    def connect_ex(self, addr):
        if self.w.connect_mode == "gaierror":
            raise _real_socket.gaierror(-2, "Name or service not known")
        if self.w.connect_mode == "now":
            self.established = True
            return 0
        return errno.EINPROGRESS

    def connect(self, addr):              # blocking connect (socket dispatcher)
        if self.w.connect_mode == "gaierror":
            raise _real_socket.gaierror(-2, "Name or service not known")
        if self.w.connect_mode == "refused":
            raise ConnectionRefusedError(errno.ECONNREFUSED, "Connection refused")
        self.established = True

    def send(self, data):
        if self.closed:
            self.w.violations.append("send on the closed socket of connection #%d" % self.no)
            raise OSError(errno.EBADF, "Bad file descriptor")
        if not self.established:
            self.w.violations.append("send on socket #%d before the connection exists" % self.no)
            raise OSError(errno.ENOTCONN, "Transport endpoint is not connected")
        if self.reset or self.peer_closed:
            raise OSError(errno.EPIPE if self.peer_closed else errno.ECONNRESET, "Connection reset by peer")
        n = self.budget.pop(0) if self.budget else len(data)
        n = min(n, len(data))
        if n == 0 and len(data):
            raise BlockingIOError(errno.EWOULDBLOCK, "Resource temporarily unavailable")
        self.written += bytes(data[:n])
        return n

    def sendall(self, data):
        self.send(data)

    def recv(self, n):
        if self.blocking_rx is not None:
            self.idle.set()
            item = self.blocking_rx.get()
            self.idle.clear()
            if isinstance(item, BaseException):
                raise item
            return item
        if self.closed:
            raise OSError(errno.EBADF, "Bad file descriptor")
        if self.rx:
            return self.rx.pop(0)[:n]
        if self.peer_closed:
            return b""
        if self.reset:
            raise OSError(errno.ECONNRESET, "Connection reset by peer")
        raise BlockingIOError(errno.EWOULDBLOCK, "Resource temporarily unavailable")

    def shutdown(self, how):
        if self.closed or not self.established:
            raise OSError(errno.ENOTCONN, "Transport endpoint is not connected")

    def close(self):
        self.closed = True
        self.established = False
        if self.blocking_rx is not None:
            self.blocking_rx.put(OSError(errno.EBADF, "Bad file descriptor"))      # a reader blocked in recv() wakes up


class FakeSocketModule(object):
    """what `import socket` gives the dispatchers"""
    AF_INET, SOCK_STREAM, SOL_SOCKET, SO_ERROR, SHUT_WR, SHUT_RDWR = (_real_socket.AF_INET, _real_socket.SOCK_STREAM, _real_socket.SOL_SOCKET,
                                                                      _real_socket.SO_ERROR, _real_socket.SHUT_WR, _real_socket.SHUT_RDWR)
    error, gaierror, timeout, herror = OSError, _real_socket.gaierror, _real_socket.timeout, _real_socket.herror

    def __init__(self, world):
        self.world = world

    def socket(self, *a, **k):
        return FakeSocket(self.world)

    def __getattr__(self, n):
        return getattr(_real_socket, n)


class Patched(object):
    """context manager: the dispatcher modules (and asyncore) see the socket double; asyncore's loop() returns at once"""

    def __init__(self, world):
        self.world = world

    def __enter__(self):
        import asyncore
        import yowsup.layers.network.dispatcher.dispatcher_asyncore as da
        import yowsup.layers.network.dispatcher.dispatcher_socket as ds
        self.asyncore, self.da, self.ds = asyncore, da, ds
        self.saved = (asyncore.socket, asyncore.loop, da.socket, ds.socket, dict(asyncore.socket_map))
        fake = FakeSocketModule(self.world)
        asyncore.socket = fake
        asyncore.loop = lambda *a, **k: None
        da.socket = fake
        ds.socket = fake
        asyncore.socket_map.clear()
        return fake

    def __exit__(self, *a):
        asyncore = self.asyncore
        asyncore.socket, asyncore.loop, self.da.socket, self.ds.socket, old_map = self.saved
        asyncore.socket_map.clear()
        asyncore.socket_map.update(old_map)
        return False
