"""C07 -- mandatory acknowledgements are sent exactly once and match the stanza.

An incoming stanza with solver-variable fields is injected below the really assembled layer set (encryption
layers + every selected protocol layer); what the set sends down is recorded."""
import z3
from sx import core, hooks, harness as H
from sx.vals import ZStr
from checks import stanza_common as SC, stack_common as ST

DEFAULT_TIMEOUT_S = 40          # a case of this check takes about a second; a tree on which it takes longer than this is not explored further
PROPERTY = "C07"
LEVEL = "model_checking"
CODE = ["yowsup/layers/protocol_notifications/layer.py:recvNotification", "yowsup/layers/axolotl/layer_control.py:receive/on*EncryptNotification",
        "yowsup/layers/protocol_calls/layer.py:recvCall", "yowsup/layers/protocol_iq/layer.py:recvIq", "yowsup/layers/protocol_messages/layer.py:recvMessageStanza",
        "yowsup/layers/protocol_media/layer.py:recvMessageStanza", "yowsup/layers/__init__.py:YowParallelLayer/YowProtocolLayer", "yowsup/stacks/yowstack.py",
        "yowsup/layers/protocol_contacts/layer.py", "yowsup/layers/protocol_groups/layer.py", "ack_outgoing.py / receipt_outgoing.py entities"]
BOUNDS = {"quick": "[+ payload kind protocol-without-key; 2 encrypted envelopes with an unknown-field payload] " 
                   "[+ ping with one of the layers (or none) holding a request] " 
                   "[+ empty mediatype; status text 2 arbitrary bytes or cleared] " 
                   "(ping: followed by a second ping with an unconstrained id) one stanza per run; ids/JIDs/participants/types unconstrained strings; module selections: all, none, each single module off",
          "thorough": "as quick with all 16 module selections, with and without the encryption layers"}
OUTSIDE = ["sequences of stanzas (each stanza is handled independently by the layers; C08 covers request/response histories)",
           "picture notifications that are neither set nor delete (rejected by design, excluded by the property)"]
ASSUMPTIONS = ["python-axolotl is replaced by an ideal stub manager (only reached by the encrypt-count notification)",
               "message payloads are concrete protobuf messages of each kind; their meta attributes are symbolic"]
EXPLANATION = "symbolic execution of the assembled layer set on one stanza with symbolic fields; obligations on the recorded downward stanzas"


def _count(down, tag):
    return [n for n in down if n.tag == tag]


def _attr(node, k):
    return hooks.dict_get(node.attributes, k)


def _ack_obs(down, nid, ntype, nfrom, participant, cls="notification"):
    acks = _count(down, "ack")
    obs = [("exactly-one-ack (got %d)" % len(acks), len(acks) == 1)]
    if len(acks) != 1:
        return obs
    a = acks[0]
    obs.append(("ack-id", SC.val_eq(_attr(a, "id"), nid)))
    obs.append(("ack-class", SC.val_eq(_attr(a, "class"), cls)))
    obs.append(("ack-to==from", SC.val_eq(_attr(a, "to"), nfrom)))
    if ntype is not None:
        obs.append(("ack-type", SC.val_eq(_attr(a, "type"), ntype)))
    if participant is None:
        obs.append(("ack-no-participant", _attr(a, "participant") is None))
    else:
        obs.append(("ack-participant", SC.val_eq(_attr(a, "participant"), participant)))
    return obs


def _stack(flags, enc):
    fs = ST.all_flag_sets()[flags] if flags in ST.all_flag_sets() else ST.FLAG_SETS[flags]
    return ST.build(enc=enc, **fs)


# ---------------------------------------------------------------------------------------------------
def h_notif_generic(ctx, flags, enc):
    """notification of an arbitrary (recognised or not) type, no children"""
    st, bottom, app, mgr = _stack(flags, enc)
    N = SC.N()
    nid, nfrom, ntype = H.zstr(ctx, "id"), H.zstr(ctx, "from"), H.zstr(ctx, "type")
    ctx.assume(ntype != "picture")          # a picture notification without set/delete child is the documented exclusion
    ctx.assume(ntype != "status")           # recognised type: its documented body is covered by notif[StatusNotification...]
    attrs = {"id": nid, "from": nfrom, "type": ntype, "t": H.numstr(ctx, "t", 0)}
    participant = None
    if ctx.flag("has_participant"):
        participant = H.zstr(ctx, "participant")
        attrs["participant"] = participant
    if ctx.flag("has_notify"):
        attrs["notify"] = H.zstr(ctx, "notify")
    bottom.inject(N("notification", attrs))
    return _ack_obs(bottom.down, nid, ntype, nfrom, participant)


def h_contacts_malformed(ctx, flags, enc):
    """a contacts notification the contacts layer cannot present (no `after`, a non-numeric one, no `t`): whatever the presentation
    does -- it raises on the clean tree --, the stanza is acknowledged exactly once"""
    st, bottom, app, mgr = _stack(flags, enc)
    N = SC.N()
    nid, nfrom = H.zstr(ctx, "id"), H.zstr(ctx, "from")
    shape = ctx.choice("shape", ["sync without after", "sync with a non-numeric after", "no t attribute", "update without jid"])
    attrs = {"id": nid, "from": nfrom, "type": "contacts", "t": "1400000000"}
    if shape == "no t attribute":
        del attrs["t"]
        kids = [N("sync", {"after": "1400000000"})]
    elif shape == "sync without after":
        kids = [N("sync", {})]
    elif shape == "sync with a non-numeric after":
        kids = [N("sync", {"after": "soon"})]
    else:
        kids = [N("update", {})]
    raised = None
    try:
        bottom.inject(N("notification", attrs, kids))
    except Exception as e:
        raised = type(e).__name__
    ctx.note("presentation raised: %s" % raised)
    return _ack_obs(bottom.down, nid, "contacts", nfrom, None)


def _doc_notifications():
    """documented notification shapes: name -> node"""
    from checks import c09, c09_templates as T
    out = {}
    found, _ = c09.discover()
    for mn, cn, _l, _d in found:
        E, node = c09._load_fixture(mn, cn)
        if node.tag == "notification" and E.__name__ not in ("NotificationProtocolEntity", "PictureNotificationProtocolEntity"):
            out[E.__name__] = SC.realistic(node, E.__name__)
    for name in ("AddGroupsNotification", "CreateGroupsNotification", "RemoveGroupsNotification", "SubjectGroupsNotification", "ContactsSyncNotification",
                 "IdentityChangeNotification"):
        out[name] = T._sample(name)[1]
    return out


def h_notif_doc(ctx, which, flags, enc):
    st, bottom, app, mgr = _stack(flags, enc)
    node = _doc_notifications()[which]
    drop = ()
    if "participant" in node.attributes and ctx.flag("drop_participant"):
        drop = ("participant",)
    # short text leaves (a status text, a subject) are two arbitrary bytes, or absent altogether (a cleared status)
    sym = SC.symbolise(ctx, node, drop=drop, data="text")
    if which == "StatusNotificationProtocolEntity" and ctx.flag("body_cleared"):
        for ch in sym.children:
            if not ch.children:
                ch.data = None
    bottom.inject(sym)
    a = sym.attributes
    return _ack_obs(bottom.down, a["id"], a["type"], a["from"], a.get("participant"))


def h_call(ctx, kind, flags, enc):
    st, bottom, app, mgr = _stack(flags, enc)
    N = SC.N()
    cid, cfrom, callid = H.zstr(ctx, "id"), H.zstr(ctx, "from"), H.zstr(ctx, "callid")
    attrs = {"id": cid, "from": cfrom, "t": H.numstr(ctx, "t", 0)}
    if ctx.flag("has_notify"):
        attrs["notify"] = H.zstr(ctx, "notify")
    kids = [] if kind == "bare" else [N(kind, {"call-id": callid})]
    bottom.inject(N("call", attrs, kids))
    down = bottom.down
    if kind == "offer":
        rs = _count(down, "receipt")
        obs = [("offer:exactly-one-receipt (got %d)" % len(rs), len(rs) == 1), ("offer:no-ack", len(_count(down, "ack")) == 0)]
        if len(rs) == 1:
            r = rs[0]
            obs.append(("receipt-id", SC.val_eq(_attr(r, "id"), cid)))
            obs.append(("receipt-to==from", SC.val_eq(_attr(r, "to"), cfrom)))
            offer = r.getChild("offer")
            obs.append(("receipt-names-call-id", offer is not None and SC.val_eq(_attr(offer, "call-id"), callid)))
        return obs
    obs = _ack_obs(down, cid, None, cfrom, None, cls="call")
    obs.append(("no-receipt", len(_count(down, "receipt")) == 0))
    return obs


def h_ping(ctx, flags, enc):
    st, bottom, app, mgr = _stack(flags, enc)
    N = SC.N()
    # state left over from the client's own traffic: one layer (solver's choice) has a request outstanding; the server's ping may
    # carry that very id (both sides count from 1)
    from checks import c06
    c06.pending_request(ctx, st, bottom)
    pid = H.zstr(ctx, "id")
    bottom.inject(N("iq", {"id": pid, "type": "get", "xmlns": "urn:xmpp:ping", "from": "s.whatsapp.net"}, [N("ping")] if ctx.flag("ping_child") else []))
    iqs = _count(bottom.down, "iq")
    obs = [("exactly-one-pong (got %d)" % len(iqs), len(iqs) == 1), ("nothing-else-sent", len(bottom.down) == len(iqs))]
    if len(iqs) == 1:
        obs.append(("pong-id", SC.val_eq(_attr(iqs[0], "id"), pid)))
        obs.append(("pong-type-result", SC.val_eq(_attr(iqs[0], "type"), "result")))
        obs.append(("pong-to-server", SC.val_eq(_attr(iqs[0], "to"), "s.whatsapp.net")))
    # a second ping (the server may reuse ids: same or different id) is answered as well
    pid2 = H.zstr(ctx, "id2")
    n0 = len(bottom.down)
    bottom.inject(N("iq", {"id": pid2, "type": "get", "xmlns": "urn:xmpp:ping", "from": "s.whatsapp.net"}))
    again = _count(bottom.down[n0:], "iq")
    obs.append(("second ping: exactly-one-pong (got %d)" % len(again), len(again) == 1 and len(bottom.down) == n0 + 1))
    if len(again) == 1:
        obs.append(("second ping: pong-id", SC.val_eq(_attr(again[0], "id"), pid2)))
    return obs


def _payload(kind):
    """concrete protobuf payloads the library cannot present (no text, no extended text, no supported media attribute)"""
    from yowsup.layers.protocol_messages.proto.e2e_pb2 import Message
    m = Message()
    if kind == "empty":
        pass
    elif kind == "protocol-revoke":
        m.protocol_message.key.id = "ABCDEF"
        m.protocol_message.type = 0
    elif kind == "image-without-mediatype":
        m.image_message.url = "https://mmg.whatsapp.net/x"
        m.image_message.mimetype = "image/jpeg"
    elif kind == "location-without-mediatype":
        m.location_message.degrees_latitude = 1.0
        m.location_message.degrees_longitude = 2.0
    elif kind == "contact-without-mediatype":
        m.contact_message.display_name = "x"
        m.contact_message.vcard = b"BEGIN:VCARD"
    elif kind == "call":
        m.call.call_key = b"k"
    elif kind == "protocol-without-key":
        m.protocol_message.type = 0                # a protocol message that names no message key (what newer clients send for settings changes, history sync ...)
    return m.SerializeToString()


def h_unsupported_message(ctx, kind, flags, enc):
    st, bottom, app, mgr = _stack(flags, enc)
    N = SC.N()
    mid, mfrom = H.zstr(ctx, "id"), H.zstr(ctx, "from")
    attrs = {"id": mid, "from": mfrom, "t": H.numstr(ctx, "t", 0), "type": "text"}
    participant = None
    if ctx.flag("has_participant"):
        participant = H.zstr(ctx, "participant")
        attrs["participant"] = participant
    if ctx.flag("has_notify"):
        attrs["notify"] = H.zstr(ctx, "notify")
    pattrs = {}
    if kind == "unknown-mediatype":
        mt = H.zstr(ctx, "mediatype", nonempty=False)          # a peer can put an empty attribute value on the wire (8-bit length form, length 0)
        for known in ("image", "sticker", "audio", "ptt", "video", "gif", "location", "contact", "document", "url"):
            ctx.assume(mt != known)
        attrs["type"] = "media"
        pattrs["mediatype"] = mt
        data = _payload("empty")
    elif kind == "media-without-mediatype":
        attrs["type"] = "media"
        data = _payload("protocol-revoke")
    else:
        data = _payload(kind)
    bottom.inject(N("message", attrs, [N("proto", pattrs, None, data)]))
    rs = _count(bottom.down, "receipt")
    if kind == "unknown-mediatype" and not _media_on(flags):
        # media messages belong to the optional media module: with the module left out they produce nothing (C06)
        return [("media-module-off:nothing-delivered", len(app.up) == 0), ("media-module-off:no-duplicate-receipts", len(rs) <= 1)]
    obs = [("exactly-one-receipt (got %d)" % len(rs), len(rs) == 1), ("nothing-delivered-to-application", len(app.up) == 0)]
    if len(rs) == 1:
        r = rs[0]
        obs.append(("receipt-id", SC.val_eq(_attr(r, "id"), mid)))
        obs.append(("receipt-to==from", SC.val_eq(_attr(r, "to"), mfrom)))
        if participant is None:
            obs.append(("receipt-no-participant", _attr(r, "participant") is None))
        else:
            obs.append(("receipt-participant", SC.val_eq(_attr(r, "participant"), participant)))
    return obs


def h_unsupported_encrypted(ctx, enctype):
    """an ENCRYPTED message whose decrypted payload only uses fields newer than the library's schema (a reaction, a poll): it is an
    unsupported message like any other -- exactly one ordinary receipt, no retry request (the sender would resend it for ever)"""
    from checks import c03
    unknown_only = b"\xf2\x02\x03abc"                 # field 46, length-delimited: not in the bundled schema
    st, bottom, app, mgr, sl, rl = c03._stack(ctx, sessions=True, outcome="ok", plaintext=unknown_only)
    N = SC.N()
    mid, mfrom = H.zstr(ctx, "id"), c03._jid(ctx, "from")
    bottom.inject(N("message", {"id": mid, "from": mfrom, "type": "text", "t": H.numstr(ctx, "t", 1), "notify": H.zstr(ctx, "notify")}, [N("enc", {"type": enctype, "v": "2"}, None, b"\x33\x08ciphertext")]))
    rs = _count(bottom.down, "receipt")
    obs = [("exactly-one-receipt (got %d)" % len(rs), len(rs) == 1), ("nothing-delivered-to-application", len(app.up) == 0)]
    if len(rs) == 1:
        obs.append(("the receipt is an ordinary one, not a retry request", not (SC.val_eq(_attr(rs[0], "type"), "retry") is True) and rs[0].getChild("retry") is None))
        obs.append(("receipt-id", SC.val_eq(_attr(rs[0], "id"), mid)))
    return obs


def _media_on(flags):
    fs = ST.all_flag_sets()[flags] if flags in ST.all_flag_sets() else ST.FLAG_SETS[flags]
    return fs["media"]


def finding_key(case, label, values, where):
    if case.startswith("unsupported-message[media-without-mediatype") and label.startswith("exactly-one-receipt (got 2)"):
        return "C07|message type=media whose proto child has no mediatype attribute|two receipts"
    return None


NOTIFS = ("SetPictureNotificationProtocolEntity", "DeletePictureNotificationProtocolEntity", "StatusNotificationProtocolEntity",
          "AddContactNotificationProtocolEntity", "RemoveContactNotificationProtocolEntity", "UpdateContactNotificationProtocolEntity",
          "ContactsSyncNotification", "AddGroupsNotification", "CreateGroupsNotification", "RemoveGroupsNotification", "SubjectGroupsNotification",
          "RequestKeysEncryptNotification", "IdentityChangeNotification")
PAYLOADS = ("empty", "protocol-revoke", "protocol-without-key", "image-without-mediatype", "location-without-mediatype", "contact-without-mediatype", "call", "unknown-mediatype", "media-without-mediatype")


def cases(tier):
    q = tier == "quick"
    flagsets = ["all", "none", "no-groups", "no-media", "no-privacy", "no-profiles"] if q else sorted(ST.all_flag_sets())
    encs = (True,) if q else (True, False)
    cs = []
    for fl in flagsets:
        for enc in encs:
            tag = "%s,%s" % (fl, "enc" if enc else "noenc")
            cs.append(dict(name="notif-any-type[%s]" % tag, fn=h_notif_generic, args=(fl, enc)))
            cs.append(dict(name="notif-contacts-unpresentable[%s]" % tag, fn=h_contacts_malformed, args=(fl, enc)))
            for w in NOTIFS:
                cs.append(dict(name="notif[%s,%s]" % (w, tag), fn=h_notif_doc, args=(w, fl, enc)))
            for k in ("offer", "transport", "relaylatency", "reject", "terminate", "bare"):
                cs.append(dict(name="call[%s,%s]" % (k, tag), fn=h_call, args=(k, fl, enc)))
            cs.append(dict(name="ping[%s]" % tag, fn=h_ping, args=(fl, enc)))
            for k in PAYLOADS:
                cs.append(dict(name="unsupported-message[%s,%s]" % (k, tag), fn=h_unsupported_message, args=(k, fl, enc)))
    for enctype in ("msg", "pkmsg"):
        cs.append(dict(name="unsupported-encrypted-message[%s,fields newer than the schema]" % enctype, fn=h_unsupported_encrypted, args=(enctype,)))
    return cs
