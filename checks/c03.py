"""C03 -- end-to-end messaging: the yowsup side as step obligations under an ideal end-to-end stub.

python-axolotl is replaced at the AxolotlManager boundary by an ideal-functionality stub (encrypt returns an opaque
envelope term over its inputs; decrypt returns the plaintext or raises exactly one of yowsup's exception classes chosen
by a solver variable).  The real AxolotlSendLayer / AxolotlReceivelayer / AxolotlControlLayer (+ the message and media
protocol layers on top) are executed on stanzas with symbolic ids, JIDs and a symbolic-length message body.
pad[*] runs the REAL AxolotlManager padding code on a symbolic message and a symbolic random pad length."""
import z3
from sx import core, hooks, harness as H
from sx.core import SymInt
from sx.vals import SymSeq, Piece, Fill, Term, valkey
from sx import crypto_models as M
from checks import stanza_common as SC, stack_common as ST

PROPERTY = "C03"
LEVEL = "model_checking"
CODE = ["yowsup/layers/axolotl/layer_send.py:send/receive/processPlaintextNodeAndSend/sendToContact/sendToGroup*/sendEncEntities/enqueueSent/getEnqueuedMessageNode",
        "yowsup/layers/axolotl/layer_receive.py:receive/onMessage/handleEncMessage/handle*Message/send_retry/processPendingIncomingMessages",
        "yowsup/layers/axolotl/layer_base.py:getKeysFor", "yowsup/axolotl/manager.py:_generate_random_padding/_unpad (real); encrypt/decrypt_*/group_* + yowsup/axolotl/store/sqlite/*.py (real, restart case)",
        "yowsup/layers/protocol_messages/layer.py:recvMessageStanza", "yowsup/layers/protocol_media/layer.py:recvMessageStanza",
        "axolotl/protocolentities/message_encrypted.py, enc.py, receipt_outgoing_retry.py, receipt_incoming_retry.py"]
BOUNDS = {"quick": "[+ retry original in {text, image, location}; own registration id in {4242, 0x50a759b, 0x7fffffff, 1, 0x10000000}] " 
                   "[+ relayed stanza naming its author; 1-3 parked messages] " 
                   "[+ content clause: payload mapping of text / extended text / image / location / contact (all / no optional fields)] " 
                   "[+ first group message with sessions to all members but one] " 
                   "one step per run from a solver-chosen pre-state: 1:1 and group sends (session present / absent, sender key present), every decrypt outcome x envelope type, retry receipt, "
                   "sent-queue bound with 101 sends; message body of symbolic length 0..2^20; ids and JIDs unconstrained strings; retry loop (receiver's real retry request served by the real sender) after 1-2 failed deliveries, 1:1 and group; "
                   "payloads text / extended text with and without a merged sender key, one or two envelopes per message; restart: REAL managers/stores/ratchets for two parties, 3 messages, 1:1 or group, sender or receiver dies after message 1 or 2",
          "thorough": "same steps (the two-message steps are part of both tiers)"}
OUTSIDE = ["whole conversations over the real Signal ratchets beyond the restart case (not encodable symbolically: pure-Python loops over C curve/AES calls, multi-party histories) -- the property's end-to-end clause is only "
           "claimed as step obligations under the ideal stub plus the two-party restart scenarios on the real library",
           "observation: python-axolotl's AESCipher does not pad block-aligned plaintext, so 1 in 16 of yowsup's randomly padded messages cannot be decrypted by the peer (external library, see DESIGN.md)",
           "media payload field values (C10), more than two messages, server faults beyond one duplicate / one undecryptable delivery"]
ASSUMPTIONS = ["ideal end-to-end functionality at the AxolotlManager boundary: ciphertext is an uninterpreted term of (recipient, counter, plaintext); decrypt outcomes are arbitrary (solver-chosen)",
               "received plaintexts are concrete protobuf messages of each kind (protobuf parsing is C-level), their envelope fields are symbolic"]
EXPLANATION = "symbolic execution of the real encryption layers on symbolic stanzas under an ideal-functionality manager stub; taint check of the plaintext term in everything sent down"


class Envelope(object):
    def __init__(self, term, n):
        self.term, self.n = term, n

    def serialize(self):
        return M.tblob(self.term, self.n)


class IdealManager(object):
    """ideal E2E functionality: records calls; ciphertext = opaque term over (kind, recipient, counter, plaintext)"""
    registration_id = 4242

    def __init__(self, ctx, sessions=True, senderkey=True, outcome="ok", plaintext=None):
        self.ctx, self.sessions, self.senderkey, self.outcome, self.plaintext = ctx, sessions, senderkey, outcome, plaintext
        self.calls, self.ctr = [], 0

    def session_exists(self, rid):
        self.calls.append(("session_exists", rid))
        if self.sessions == "partial":
            # sessions with everybody but one member (set by the harness once the member list is known)
            return not bool(SC.val_eq(rid, self.sessionless)) if H.sym(self.ctx) else rid != self.sessionless
        return self.sessions

    def _env(self, kind, rid, data):
        self.ctr += 1
        if H.sym(self.ctx):
            r = M.rope(data) if not isinstance(data, SymSeq) else data
            t = Term("Enc", kind, hooks.valkey(rid) if hasattr(hooks, "valkey") else valkey(rid), self.ctr, r)
            n = r.length() + 53
            t.size = n
            return Envelope(t, n)
        return _ConcreteEnvelope(b"ENC[%d]" % self.ctr + bytes(len(data) + 40))

    def encrypt(self, rid, data):
        self.calls.append(("encrypt", rid, data))
        return self._env("1:1", rid, data)

    def group_encrypt(self, gid, data):
        self.calls.append(("group_encrypt", gid, data))
        return self._env("group", gid, data).serialize()

    def load_senderkey(self, gid):
        empty = not self.senderkey

        class R(object):
            def isEmpty(self_):
                return empty
        return R()

    def group_create_skmsg(self, gid):
        self.calls.append(("group_create_skmsg", gid))
        self.senderkey = True
        return _ConcreteEnvelope(b"SKDM-for-group")

    def create_session(self, rid, bundle, autotrust=False):
        self.calls.append(("create_session", rid))
        self.sessions = True
        if self.outcome == "no-session-until-keys":
            self.outcome = "ok"

    def _decrypt(self, who):
        self.calls.append(("decrypt", who))
        from yowsup.axolotl import exceptions as X
        from axolotl.untrustedidentityexception import UntrustedIdentityException
        o = self.outcome
        if o == "no-session-until-keys":
            raise X.NoSessionException()           # every message of the contact fails like this until its keys have been fetched
        if o == "ok":
            if isinstance(self.plaintext, dict):
                return self.plaintext[self._api]
            return self.plaintext
        self.outcome = "ok" if o in ("no-session",) else o
        if o == "duplicate":
            raise X.DuplicateMessageException()
        if o == "invalid-message":
            raise X.InvalidMessageException()
        if o == "invalid-key-id":
            raise X.InvalidKeyIdException()
        if o == "no-session":
            raise X.NoSessionException()
        if o == "untrusted":
            raise UntrustedIdentityException(who, None)
        raise ValueError(o)

    _api = None

    def decrypt_pkmsg(self, sender, data, unpad):
        self._api = "pkmsg"
        return self._decrypt(sender)

    def decrypt_msg(self, sender, data, unpad):
        self._api = "msg"
        return self._decrypt(sender)

    def group_decrypt(self, groupid, participantid, data):
        self._api = "skmsg"
        return self._decrypt(participantid)

    def group_create_session(self, groupid, participantid, skmsgdata):
        self.calls.append(("group_create_session", groupid, participantid))

    def trust_identity(self, *a):
        self.calls.append(("trust_identity",))


class _ConcreteEnvelope(object):
    def __init__(self, b):
        self.b = b

    def serialize(self):
        return self.b


def _stack(ctx, **mk):
    st, bottom, app, _ = ST.build(enc=True, **ST.FLAG_SETS["all"])
    from yowsup.layers.protocol_iq import YowIqProtocolLayer
    st.setProp(YowIqProtocolLayer.PROP_PING_INTERVAL, 0)
    mgr = IdealManager(ctx, **mk)
    ST.wire_manager(st, mgr)
    send_layer = [s for s in st.getLayer(2).sublayers if type(s).__name__ == "AxolotlSendLayer"][0]
    recv_layer = [s for s in st.getLayer(2).sublayers if type(s).__name__ == "AxolotlReceivelayer"][0]
    return st, bottom, app, mgr, send_layer, recv_layer


def _tainted(node, base):
    """does the plaintext blob `base` occur in any data / attribute of this stanza other than inside an Enc(...) term?"""
    d = node.data
    if isinstance(d, SymSeq):
        for it in d.items:
            if isinstance(it, Piece) and it.base == base:
                return True
    elif isinstance(d, (bytes, bytearray)) and base in ("P",) and False:
        return True
    for c in node.children:
        if _tainted(c, base):
            return True
    return False


def _concrete_tainted(node, body):
    d = node.data
    if isinstance(d, (bytes, bytearray)) and len(body) >= 8 and bytes(body) in bytes(d):
        return True
    return any(_concrete_tainted(c, body) for c in node.children)


def _plain_message(ctx, to, mid, with_body_len=True):
    N = SC.N()
    L = ctx.int("L", 8, 1 << 20)
    body = H.blob(ctx, "P", L)
    return N("message", {"to": to, "type": "text", "id": mid}, [N("proto", {}, None, body)]), body


def _jid(ctx, name, group=False):
    """a JID with an unconstrained user part: 1:1 users contain no '-', group users do"""
    digits = z3.Plus(z3.Range("0", "9"))
    u = H.zstr(ctx, name, charset=z3.Concat(digits, z3.Re("-"), digits) if group else digits, maxlen=24)
    if H.sym(ctx):
        u.free_of = ("@",) if group else ("@", "-")
        u.has = ("-",) if group else ()
    return u + ("@g.us" if group else "@s.whatsapp.net")


def _envelope_obs(ctx, down, body, mid, to):
    obs = []
    msgs = [n for n in down if n.tag == "message"]
    obs.append(("exactly one stanza leaves for the message (got %d)" % len(msgs), len(msgs) == 1))
    for n in down:
        taint = _tainted(n, "P") if H.sym(ctx) else _concrete_tainted(n, body)
        obs.append(("no stanza sent down contains the plaintext body outside an envelope", not taint))
        obs.append(("no stanza sent down carries a proto/body child", n.getChild("proto") is None and n.getChild("body") is None))
    if len(msgs) == 1:
        m = msgs[0]
        obs.append(("envelope keeps id", SC.val_eq(hooks.dict_get(m.attributes, "id"), mid)))
        obs.append(("envelope keeps recipient", SC.val_eq(hooks.dict_get(m.attributes, "to"), to)))
        encs = m.getAllChildren("enc") + [c for p in m.getAllChildren("participants") for t in p.children for c in t.getAllChildren("enc")]
        obs.append(("envelope has at least one enc child", len(encs) >= 1))
    return obs


def h_send_contact(ctx, sessions):
    st, bottom, app, mgr, sl, rl = _stack(ctx, sessions=sessions)
    to, mid = _jid(ctx, "to"), H.zstr(ctx, "id")
    node, body = _plain_message(ctx, to, mid)
    app.toLower(_Passthrough(node))
    obs = []
    if not sessions:
        iqs = [n for n in bottom.down if n.tag == "iq"]
        obs.append(("without a session nothing but a key request leaves first", len(iqs) == 1 and len(bottom.down) == 1))
        if len(iqs) != 1:
            return obs
        # server answers with the contact's keys
        from checks import c09
        found, _ = c09.discover()
        fx = [c09._load_fixture(m, c)[1] for m, c, _l, _d in found if c == "ResultGetKeysIqProtocolEntityTest"][0]
        user = fx.getChild("list").children[0]
        N = SC.N()
        bottom.inject(N("iq", {"id": hooks.dict_get(iqs[0].attributes, "id"), "type": "result", "from": "s.whatsapp.net"}, [N("list", {}, [N("user", {"jid": to}, list(user.children))])]))
    obs += _envelope_obs(ctx, [n for n in bottom.down if n.tag != "iq"], body, mid, to)
    obs.append(("exactly one encryption per message", len([c for c in mgr.calls if c[0] == "encrypt"]) == 1))
    obs.append(("plaintext stanza is kept for a later retry", len(sl.sentQueue) == 1 and sl.sentQueue[0] is node))
    return obs


class _Passthrough(object):
    """an already serialised message stanza handed to the encryption layers (what the protocol layers pass down)"""

    def __init__(self, node):
        self.node = node


def h_send_direct(ctx, kind):
    """AxolotlSendLayer.send on a message stanza (1:1 with session / group with sender key)"""
    st, bottom, app, mgr, sl, rl = _stack(ctx, sessions=True, senderkey=True)
    group = kind == "group"
    to, mid = _jid(ctx, "to", group), H.zstr(ctx, "id")
    node, body = _plain_message(ctx, to, mid)
    relayed = group and ctx.flag("stanza_still_names_the_original_author")
    if relayed:
        # a message received in a group and relayed with entity.forward(): the copy keeps the author in its participant attribute
        hooks.sx_setitem(node.attributes, "participant", _jid(ctx, "author")) if H.sym(ctx) else node.attributes.__setitem__("participant", _jid(ctx, "author"))
    sl.send(node)
    obs = _envelope_obs(ctx, bottom.down, body, mid, to)
    if group:
        ms = [n for n in bottom.down if n.tag == "message"]
        obs.append(("a message to a group is addressed to the whole group: the envelope names no participant", len(ms) == 1 and hooks.dict_get(ms[0].attributes, "participant") is None))
    n_enc = len([c for c in mgr.calls if c[0] in ("encrypt", "group_encrypt")])
    obs.append(("exactly one encryption per message (got %d)" % n_enc, n_enc == 1))
    obs.append(("plaintext stanza is kept for a later retry", len(sl.sentQueue) == 1 and sl.sentQueue[0] is node))
    return obs


def h_send_two(ctx, kind):
    """two consecutive messages: each leaves exactly once as its own envelope, in order, both stay queued for retry"""
    st, bottom, app, mgr, sl, rl = _stack(ctx, sessions=True, senderkey=True)
    N = SC.N()
    to = _jid(ctx, "to", kind == "group")
    ids, bodies, nodes = [], [], []
    for i in range(2):
        mid = H.zstr(ctx, "id%d" % i)
        L = ctx.int("L%d" % i, 8, 1 << 20)
        body = H.blob(ctx, "P" if i == 0 else "Q", L)
        node = N("message", {"to": to, "type": "text", "id": mid}, [N("proto", {}, None, body)])
        ids.append(mid)
        bodies.append(body)
        nodes.append(node)
        sl.send(node)
    msgs = [n for n in bottom.down if n.tag == "message"]
    obs = [("two messages -> exactly two envelopes (got %d)" % len(msgs), len(msgs) == 2 and len(bottom.down) == 2)]
    for n in bottom.down:
        for base, body in (("P", bodies[0]), ("Q", bodies[1])):
            obs.append(("no plaintext body outside an envelope", not (_tainted(n, base) if H.sym(ctx) else _concrete_tainted(n, body))))
    if len(msgs) == 2:
        for i in range(2):
            obs.append(("envelope %d keeps its id (order preserved)" % i, SC.val_eq(hooks.dict_get(msgs[i].attributes, "id"), ids[i])))
    obs.append(("one encryption per message", len([c_ for c_ in mgr.calls if c_[0] in ("encrypt", "group_encrypt")]) == 2))
    obs.append(("both originals stay queued for retry, oldest first", len(sl.sentQueue) == 2 and sl.sentQueue[0] is nodes[0] and sl.sentQueue[1] is nodes[1]))
    return obs


def h_send_no_session(ctx):
    st, bottom, app, mgr, sl, rl = _stack(ctx, sessions=False)
    to, mid = _jid(ctx, "to"), H.zstr(ctx, "id")
    node, body = _plain_message(ctx, to, mid)
    sl.send(node)
    iqs = [n for n in bottom.down if n.tag == "iq"]
    obs = [("without a session only a key request leaves", len(iqs) == 1 and len(bottom.down) == 1)]
    for n in bottom.down:
        obs.append(("key request does not contain the body", not (_tainted(n, "P") if H.sym(ctx) else _concrete_tainted(n, body))))
    if len(iqs) != 1:
        return obs
    from checks import c09
    found, _ = c09.discover()
    fx = [c09._load_fixture(m, c)[1] for m, c, _l, _d in found if c == "ResultGetKeysIqProtocolEntityTest"][0]
    user = fx.getChild("list").children[0]
    N = SC.N()
    reply = N("iq", {"id": hooks.dict_get(iqs[0].attributes, "id"), "type": "result", "from": "s.whatsapp.net"}, [N("list", {}, [N("user", {"jid": to}, list(user.children))])])
    bottom.inject(reply)
    obs += _envelope_obs(ctx, [n for n in bottom.down if n.tag != "iq"], body, mid, to)
    obs.append(("session created once, then one encryption", [c[0] for c in mgr.calls if c[0] in ("create_session", "encrypt")] == ["create_session", "encrypt"]))
    return obs


def h_send_group_first(ctx, sessions):
    """first message to a group: no sender key yet -> group info request -> (key requests) -> one envelope carrying the sender
    key for every participant (each inside its own 1:1 envelope) plus the group ciphertext"""
    st, bottom, app, mgr, sl, rl = _stack(ctx, sessions=sessions, senderkey=False)
    N = SC.N()
    to, mid = "4915900000009-1400000000@g.us", H.zstr(ctx, "id")      # concrete group id: it is copied into a real protobuf message
    node, body = _plain_message(ctx, to, mid)
    sl.send(node)
    iqs = [n for n in bottom.down if n.tag == "iq"]
    obs = [("first group message: only a group-info request leaves", len(iqs) == 1 and len(bottom.down) == 1)]
    if len(iqs) != 1:
        return obs
    p1, p2 = _jid(ctx, "member1"), _jid(ctx, "member2")
    me = "4915900000001@s.whatsapp.net"
    if H.sym(ctx):
        ctx.assume(p1 != p2)
        ctx.assume(p1 != me)
        ctx.assume(p2 != me)
    elif p1 == p2 or me in (p1, p2):
        raise core.Infeasible()
    mgr.sessionless = p2.split("@")[0]
    bottom.inject(N("iq", {"id": hooks.dict_get(iqs[0].attributes, "id"), "type": "result", "from": to},
                    [N("group", {"subject": "s", "creation": "1400000000", "creator": me, "s_t": "1400000001", "id": "1-2", "s_o": me},
                       [N("participant", {"jid": me, "type": "admin"}), N("participant", {"jid": p1}), N("participant", {"jid": p2})])]))
    if sessions is not True:
        kiq = [n for n in bottom.down if n.tag == "iq"][1:]
        obs.append(("members without session: exactly one key request, still no message", len(kiq) == 1 and not [n for n in bottom.down if n.tag == "message"]))
        if len(kiq) != 1:
            return obs
        from checks import c09
        found, _ = c09.discover()
        fx = [c09._load_fixture(m, c)[1] for m, c, _l, _d in found if c == "ResultGetKeysIqProtocolEntityTest"][0]
        user = fx.getChild("list").children[0]
        bottom.inject(N("iq", {"id": hooks.dict_get(kiq[0].attributes, "id"), "type": "result", "from": "s.whatsapp.net"},
                        [N("list", {}, ([N("user", {"jid": p1}, list(user.children))] if sessions is False else []) + [N("user", {"jid": p2}, list(user.children))])]))
    out = [n for n in bottom.down if n.tag != "iq"]
    obs += _envelope_obs(ctx, out, body, mid, to)
    msgs = [n for n in out if n.tag == "message"]
    if len(msgs) == 1:
        parts = msgs[0].getAllChildren("participants")
        tos = [t for p in parts for t in p.children]
        if sessions == "partial":
            # the library hands the sender key only to the members whose keys it just fetched; the others obtain it through the retry
            # path (retry-loop cases), which the property allows -- so only "never twice, never to nobody" is demanded here
            obs.append(("sender key goes to the member without session, to nobody twice", 1 <= len(tos) <= 2))
        else:
            obs.append(("sender key goes to each other member exactly once, not to myself", len(tos) == 2))
        obs.append(("one group ciphertext", len(msgs[0].getAllChildren("enc")) == 1))
        obs.append(("a first group message is addressed to the whole group, not directed at one participant", hooks.dict_get(msgs[0].attributes, "participant") is None))
    obs.append(("group body encrypted exactly once", len([c for c in mgr.calls if c[0] == "group_encrypt"]) == 1))
    return obs


def h_queue_bound(ctx):
    st, bottom, app, mgr, sl, rl = _stack(ctx, sessions=True)
    N = SC.N()
    nodes = []
    for i in range(101):
        n = N("message", {"to": "4915900000001@s.whatsapp.net", "type": "text", "id": "m%d" % i}, [N("proto", {}, None, b"x" * 9)])
        nodes.append(n)
        sl.send(n)
    return [("retry queue holds at most 100 stanzas", len(sl.sentQueue) == 100), ("oldest is discarded first (FIFO)", sl.sentQueue[0] is nodes[1] and sl.sentQueue[-1] is nodes[100]),
            ("every message still left exactly once", len([x for x in bottom.down if x.tag == "message"]) == 101)]


def _payload(kind):
    from yowsup.layers.protocol_messages.proto.e2e_pb2 import Message
    m = Message()
    if kind == "text":
        m.conversation = "hello world"
    elif kind == "key-distribution-only":
        m.sender_key_distribution_message.group_id = "49159-14@g.us"
        m.sender_key_distribution_message.axolotl_sender_key_distribution_message = b"\x01\x02"
    elif kind == "text+key-distribution":
        m.conversation = "hello group"
        m.sender_key_distribution_message.group_id = "49159-14@g.us"
        m.sender_key_distribution_message.axolotl_sender_key_distribution_message = b"\x01\x02"
    elif kind in ("extended-text", "extended-text+key-distribution"):
        # a reply quoting somebody / a link preview; with the sender key merged in when it is re-sent to one member after a retry request
        m.extended_text_message.text = "hello world" if kind == "extended-text" else "hello group"
        m.extended_text_message.context_info.stanza_id = "QUOTED1"
        m.extended_text_message.context_info.participant = "4915900000003@s.whatsapp.net"
        if kind.endswith("key-distribution"):
            m.sender_key_distribution_message.group_id = "49159-14@g.us"
            m.sender_key_distribution_message.axolotl_sender_key_distribution_message = b"\x01\x02"
    return m.SerializeToString()


def h_receive(ctx, enctype, outcome, payload):
    plaintext = _payload(payload)
    if enctype == "pkmsg+skmsg":
        # a member's first message to a group: the sender key travels in a pairwise envelope, the content under the sender key, in ONE stanza
        plaintext = {"pkmsg": _payload("key-distribution-only"), "msg": _payload("key-distribution-only"), "skmsg": _payload(payload)}
    st, bottom, app, mgr, sl, rl = _stack(ctx, sessions=True, outcome=outcome, plaintext=plaintext)
    if outcome in ("invalid-message", "invalid-key-id") or (outcome == "no-session" and enctype == "skmsg"):
        # the account's own registration id travels in every retry request: any 31-bit value (ids with 7, 8, 1 hex digits)
        mgr.registration_id = ctx.choice("own_registration_id", [4242, 0x50a759b, 0x7fffffff, 1, 0x10000000])
    N = SC.N()
    group = enctype in ("skmsg", "pkmsg+skmsg") or "key-distribution" in payload or ctx.flag("in_group")      # sender keys are distributed in group context
    mid, sender = H.zstr(ctx, "id"), _jid(ctx, "from", group)
    attrs = {"id": mid, "from": sender, "type": "text", "t": H.numstr(ctx, "t", 1), "notify": H.zstr(ctx, "notify")}
    participant = None
    if group:
        participant = _jid(ctx, "participant")
        attrs["participant"] = participant
    encs = [N("enc", {"type": t_, "v": "2"}, None, b"\x33\x08ciphertext") for t_ in enctype.split("+")]
    node = N("message", attrs, encs)
    bottom.inject(node)
    down, up = bottom.down, app.up
    receipts = [n for n in down if n.tag == "receipt"]
    obs = []
    if outcome == "ok":
        if payload == "key-distribution-only":
            obs.append(("a pure key-distribution payload does not surface as a message", len(up) == 0))
            obs.append(("... and is not answered with a receipt by the library", len(receipts) == 0))
        else:
            obs.append(("decrypted message is delivered exactly once (got %d)" % len(up), len(up) == 1))
            if len(up) == 1:
                e = up[0]
                body = e.getBody() if hasattr(e, "getBody") else getattr(e, "text", None)
                obs.append(("delivered with the original content", body == ("hello group" if payload.endswith("+key-distribution") else "hello world")))
                obs.append(("delivered with the original id", SC.val_eq(e.getId(), mid)))
                obs.append(("delivered with the original sender", SC.val_eq(e.getFrom(), sender)))
                if group:
                    obs.append(("delivered with the group participant", SC.val_eq(e.getParticipant(), participant)))
            obs.append(("no receipt is sent by the library on success (the application acknowledges)", len(receipts) == 0))
        if "key-distribution" in payload:
            obs.append(("sender key of the group is stored", len([c for c in mgr.calls if c[0] == "group_create_session"]) == 1))
    elif outcome == "duplicate":
        obs.append(("a duplicate is not shown again", len(up) == 0))
        obs.append(("a duplicate is re-acknowledged with exactly one receipt", len(receipts) == 1 and len(down) == 1))
        if len(receipts) == 1:
            r = receipts[0]
            obs.append(("receipt id", SC.val_eq(hooks.dict_get(r.attributes, "id"), mid)))
            obs.append(("receipt to sender", SC.val_eq(hooks.dict_get(r.attributes, "to"), sender)))
            obs.append(("receipt participant", SC.val_eq(hooks.dict_get(r.attributes, "participant"), participant) if group else hooks.dict_get(r.attributes, "participant") is None))
    elif outcome in ("invalid-message", "invalid-key-id") or (outcome == "no-session" and enctype == "skmsg"):
        obs.append(("an undecryptable message is not delivered", len(up) == 0))
        obs.append(("exactly one retry receipt is sent", len(receipts) == 1 and len(down) == 1))
        if len(receipts) == 1:
            r = receipts[0]
            obs.append(("retry receipt type", SC.val_eq(hooks.dict_get(r.attributes, "type"), "retry")))
            reg = r.getChild("registration")
            obs.append(("retry receipt carries the own registration id as 4 big-endian bytes", reg is not None and H.rope_eq(reg.data, mgr.registration_id.to_bytes(4, "big")) is True))
            obs.append(("retry receipt id", SC.val_eq(hooks.dict_get(r.attributes, "id"), mid)))
            # the server delivers the same message again and it still cannot be decrypted: one more retry request
            mgr.outcome = outcome
            bottom.inject(N("message", dict(attrs), [N("enc", {"type": enctype, "v": "2"}, None, b"\x33\x08ciphertext")]))
            rs2 = [n for n in bottom.down if n.tag == "receipt"]
            obs.append(("second failure: exactly one more retry receipt", len(rs2) == 2))
            # third delivery decrypts: delivered exactly once
            mgr.outcome = "ok"
            bottom.inject(N("message", dict(attrs), [N("enc", {"type": enctype, "v": "2"}, None, b"\x33\x08ciphertext")]))
            if payload != "key-distribution-only":
                obs.append(("after the retry the message is delivered exactly once", len(app.up) == 1))
    elif outcome == "no-session":
        iqs = [n for n in down if n.tag == "iq"]
        obs.append(("without a session the message is parked and exactly one key request leaves", len(up) == 0 and len(iqs) == 1 and len(down) == 1))
    elif outcome == "untrusted":
        obs.append(("a message under an untrusted identity is not delivered", len(up) == 0))
        obs.append(("... and nothing is sent for it", len(down) == 0))
    return obs


def h_parked_messages(ctx, count):
    """`count` messages of one contact arrive while no session with it exists: each is parked and asks for the contact's keys; the key
    answers arrive (one per request): every parked message is delivered exactly once, whichever answer releases it"""
    plaintext = _payload("text")
    st, bottom, app, mgr, sl, rl = _stack(ctx, sessions=True, outcome="no-session-until-keys", plaintext=plaintext)
    N = SC.N()
    sender = _jid(ctx, "from")
    ids = [H.zstr(ctx, "id%d" % i) for i in range(count)]
    if H.sym(ctx):
        for i in range(count):
            for j in range(i):
                ctx.assume(ids[i] != ids[j])
    elif len(set(ids)) != count:
        raise core.Infeasible()
    for mid in ids:
        bottom.inject(N("message", {"id": mid, "from": sender, "type": "text", "t": "1400000000", "notify": "n"}, [N("enc", {"type": "msg", "v": "2"}, None, b"\x33\x08ciphertext")]))
    kiq = [n for n in bottom.down if n.tag == "iq"]
    obs = [("every parked message asks for the contact's keys, nothing is delivered yet (%d requests)" % len(kiq), 1 <= len(kiq) <= count and len(app.up) == 0)]
    from checks import c09
    found, _ = c09.discover()
    fx = [c09._load_fixture(m, c)[1] for m, c, _l, _d in found if c == "ResultGetKeysIqProtocolEntityTest"][0]
    user = fx.getChild("list").children[0]
    for q in kiq:
        bottom.inject(N("iq", {"id": hooks.dict_get(q.attributes, "id"), "type": "result", "from": "s.whatsapp.net"}, [N("list", {}, [N("user", {"jid": sender}, list(user.children))])]))
    got = [e.getId() for e in app.up]
    obs.append(("after the key answers every parked message has been delivered exactly once (%d deliveries for %d messages)" % (len(got), count), len(got) == count))
    for i, mid in enumerate(ids):
        n_i = [g for g in got if (SC.val_eq(g, mid) is True)]
        obs.append(("message %d delivered once" % i, len(n_i) == 1 if not H.sym(ctx) else len(got) == count))
    return obs


def h_retry_receipt(ctx):
    """a retry receipt for a queued 1:1 message: acknowledged, keys fetched, the ORIGINAL re-encrypted once"""
    st, bottom, app, mgr, sl, rl = _stack(ctx, sessions=True)
    N = SC.N()
    to, mid = _jid(ctx, "to"), H.zstr(ctx, "id")
    node = N("message", {"to": to, "type": "text", "id": mid}, [N("proto", {}, None, _payload("text"))])
    sl.send(node)
    n0 = len(bottom.down)
    bottom.inject(N("receipt", {"id": mid, "from": to, "type": "retry", "t": "1400000000"}, [N("retry", {"count": "1", "id": mid, "v": "1", "t": "1400000001"}),
                                                                                              N("registration", None, None, b"\x00\x00\x10\x92")]))
    new = bottom.down[n0:]
    acks = [n for n in new if n.tag == "ack"]
    iqs = [n for n in new if n.tag == "iq"]
    obs = [("retry receipt is acknowledged once", len(acks) == 1), ("keys of the requester are fetched", len(iqs) == 1), ("retry receipt does not surface to the application", len(app.up) == 0)]
    if len(iqs) == 1:
        from checks import c09
        found, _ = c09.discover()
        fx = [c09._load_fixture(m, c)[1] for m, c, _l, _d in found if c == "ResultGetKeysIqProtocolEntityTest"][0]
        user = fx.getChild("list").children[0]
        n1 = len(bottom.down)
        bottom.inject(N("iq", {"id": hooks.dict_get(iqs[0].attributes, "id"), "type": "result", "from": "s.whatsapp.net"}, [N("list", {}, [N("user", {"jid": to}, list(user.children))])]))
        again = [n for n in bottom.down[n1:] if n.tag == "message"]
        obs.append(("the queued original is re-encrypted and sent exactly once", len(again) == 1))
        if again:
            obs.append(("resent with the original id and recipient", core.conj(SC.val_eq(hooks.dict_get(again[0].attributes, "id"), mid), SC.val_eq(hooks.dict_get(again[0].attributes, "to"), to))))
            obs.append(("resent as an envelope", again[0].getChild("enc") is not None and again[0].getChild("proto") is None))
    return obs


def h_group_receipts(ctx):
    """a group message stays queued while members acknowledge it: an ordinary delivery receipt of one member must not prevent
    serving the later retry request of another member (re-encrypted for that member only)"""
    st, bottom, app, mgr, sl, rl = _stack(ctx, sessions=True, senderkey=True)
    N = SC.N()
    to, mid = "4915900000009-1400000000@g.us", H.zstr(ctx, "id")
    node = N("message", {"to": to, "type": "text", "id": mid}, [N("proto", {}, None, _payload("text"))])
    sl.send(node)
    m1, m2 = _jid(ctx, "member1"), _jid(ctx, "member2")
    if H.sym(ctx):
        ctx.assume(m1 != m2)
    elif m1 == m2:
        raise core.Infeasible()
    first = ctx.choice("first_receipt", ["delivery-then-retry", "retry-only", "two-deliveries-then-retry"])
    obs = []
    n_up = 0
    if first != "retry-only":
        for k in range(2 if first.startswith("two") else 1):
            bottom.inject(N("receipt", {"id": mid, "from": to, "participant": m1, "t": "1400000002"}))
            n_up += 1
        obs.append(("each member's delivery receipt reaches the application", len(app.up) == n_up))
    n0 = len(bottom.down)
    bottom.inject(N("receipt", {"id": mid, "from": to, "participant": m2, "type": "retry", "t": "1400000003"},
                    [N("retry", {"count": "1", "id": mid, "v": "1", "t": "1400000001"}), N("registration", None, None, b"\x00\x00\x10\x92")]))
    new = bottom.down[n0:]
    iqs = [n for n in new if n.tag == "iq"]
    obs.append(("retry request of another member is served: acknowledged and keys fetched", len([n for n in new if n.tag == "ack"]) == 1 and len(iqs) == 1))
    obs.append(("retry receipt itself does not surface", len(app.up) == n_up))
    if len(iqs) == 1:
        from checks import c09
        found, _ = c09.discover()
        fx = [c09._load_fixture(m, c_)[1] for m, c_, _l, _d in found if c_ == "ResultGetKeysIqProtocolEntityTest"][0]
        user = fx.getChild("list").children[0]
        n1 = len(bottom.down)
        bottom.inject(N("iq", {"id": hooks.dict_get(iqs[0].attributes, "id"), "type": "result", "from": "s.whatsapp.net"}, [N("list", {}, [N("user", {"jid": m2}, list(user.children))])]))
        again = [n for n in bottom.down[n1:] if n.tag == "message"]
        obs.append(("the original is re-encrypted and sent once", len(again) == 1))
        if again:
            obs.append(("... to the requesting member only", SC.val_eq(hooks.dict_get(again[0].attributes, "participant"), m2)))
            obs.append(("... as an envelope", again[0].getChild("proto") is None and len(again[0].getAllChildren("enc")) >= 1))
    return obs


def h_retry_loop(ctx, group, failures):
    """both ends of a retry, each the real layer: the receiver cannot decrypt a message `failures` times and asks for a retry; the request
    IT produced is handed (as the server would) to the sender, who still has the message queued: the original is re-encrypted once, for the
    requester only.  Catches conventions (retry counter, ids, participant) on which the two layers must agree."""
    N = SC.N()
    mid = H.zstr(ctx, "id")
    me_s, me_r = "4915900000001@s.whatsapp.net", "4915900000002@s.whatsapp.net"
    chat = "4915900000001-1400000000@g.us" if group else None
    # receiver side
    st_r, bottom_r, app_r, mgr_r, _, _ = _stack(ctx, sessions=True, outcome="invalid-message", plaintext=_payload("text"))
    attrs = {"id": mid, "from": chat or me_s, "type": "text", "t": "1400000000", "notify": "S"}
    if group:
        attrs["participant"] = me_s
    for _k in range(failures):
        bottom_r.inject(N("message", dict(attrs), [N("enc", {"type": "skmsg" if group else "msg", "v": "2"}, None, b"\x33\x08ciphertext")]))
    rr = [n for n in bottom_r.down if n.tag == "receipt"]
    obs = [("receiver asks for a retry once per failed delivery (got %d)" % len(rr), len(rr) == failures and len(app_r.up) == 0)]
    if len(rr) != failures:
        return obs
    # sender side: has sent the message before
    st_s, bottom_s, app_s, mgr_s, sl, _ = _stack(ctx, sessions=True, senderkey=True)
    # the original is a text or a media message (the media kind travels as an attribute of the payload element and of every envelope)
    mediatype = ctx.choice("original_is", ["text", "image", "location"])
    pattrs = {} if mediatype == "text" else {"mediatype": mediatype}
    sl.send(N("message", {"to": chat or me_r, "type": "text" if mediatype == "text" else "media", "id": mid}, [N("proto", pattrs, None, _payload("text"))]))
    first = [n for n in bottom_s.down if n.tag == "message"]
    obs.append(("the message leaves the sender once", len(first) == 1))
    req = rr[-1]
    rattrs = {"id": hooks.dict_get(req.attributes, "id"), "from": chat or me_r, "type": hooks.dict_get(req.attributes, "type"), "t": "1400000009"}
    if group:
        rattrs["participant"] = me_r
    n0 = len(bottom_s.down)
    bottom_s.inject(N("receipt", rattrs, list(req.children)))          # the server forwards the receiver's request
    new = bottom_s.down[n0:]
    iqs = [n for n in new if n.tag == "iq"]
    obs.append(("the sender serves the request: acknowledged, keys of the requester fetched", len([n for n in new if n.tag == "ack"]) == 1 and len(iqs) == 1))
    if len(iqs) != 1:
        return obs
    from checks import c09
    found, _ = c09.discover()
    fx = [c09._load_fixture(m, c_)[1] for m, c_, _l, _d in found if c_ == "ResultGetKeysIqProtocolEntityTest"][0]
    user = fx.getChild("list").children[0]
    n1 = len(bottom_s.down)
    bottom_s.inject(N("iq", {"id": hooks.dict_get(iqs[0].attributes, "id"), "type": "result", "from": "s.whatsapp.net"}, [N("list", {}, [N("user", {"jid": me_r}, list(user.children))])]))
    again = [n for n in bottom_s.down[n1:] if n.tag == "message"]
    obs.append(("the original is re-encrypted and sent exactly once (got %d)" % len(again), len(again) == 1))
    if len(again) == 1:
        a = again[0]
        obs.append(("... with the original id", SC.val_eq(hooks.dict_get(a.attributes, "id"), mid)))
        obs.append(("... as an envelope without plaintext", a.getChild("proto") is None and len(a.getAllChildren("enc")) >= 1))
        mts = [hooks.dict_get(e.attributes, "mediatype") for e in a.getAllChildren("enc")]
        obs.append(("... whose envelopes name the original's media kind (%s)" % mts, all((m is None) if mediatype == "text" else (m == mediatype) for m in mts)))
        if group:
            obs.append(("... for the requesting member only (the other members already have it: a group-wide resend would show it twice)",
                        SC.val_eq(hooks.dict_get(a.attributes, "participant"), me_r)))
            pair = [c for c in mgr_s.calls if c[0] == "encrypt"]
            grp = [c for c in mgr_s.calls if c[0] == "group_encrypt"]
            obs.append(("... under the requester's pairwise session, the group key is not advanced again (group encryptions: %d)" % len(grp), len(pair) >= 1 and len(grp) == 1))
        else:
            obs.append(("... to the requester", SC.val_eq(hooks.dict_get(a.attributes, "to"), me_r)))
    return obs


class _AbandonedProcess(object):
    pass


def h_restart_conversation(ctx):
    """REAL AxolotlManager + REAL sqlite stores + real python-axolotl for two parties; one of them is restarted between messages (its
    process dies while none of its stanzas is in flight: connections vanish without a final commit, the database file is reopened).
    Every message must decrypt exactly once, with the original content, also after the restart."""
    import os, shutil, tempfile
    from checks import c17
    kind = ctx.choice("conversation", ["1:1", "group"])
    who = ctx.choice("restarted_party", ["sender", "receiver"])
    when = ctx.choice("restart_after_message", [1, 2])
    d = tempfile.mkdtemp(prefix="c03_", dir=c17._TMP if hasattr(c17, "_TMP") else None)
    A, B, G = "4915900000001", "4915900000002", "4915900000001-1400000000@g.us"
    ent = ST.det_entropy("c03-restart-%s-%s-%s" % (kind, who, when))
    ent.__enter__()
    try:
        mgr = {"A": c17._manager(os.path.join(d, "a.db"), A), "B": c17._manager(os.path.join(d, "b.db"), B)}

        def restart(p):
            # process death: the connection disappears, whatever was not committed is lost
            mgr[p]._store.identityKeyStore.dbConn.close()
            mgr[p] = c17._manager(os.path.join(d, p.lower() + ".db"), A if p == "A" else B)
        mgr["A"].create_session(B, c17._bundle(mgr["B"]))
        obs = []
        skdm_sent = False
        for i in (1, 2, 3):
            text = ("message number %d" % i).encode()
            if kind == "1:1":
                ct = mgr["A"].encrypt(B, text)
                from axolotl.protocol.whispermessage import WhisperMessage
                try:
                    got = mgr["B"].decrypt_msg(A, ct.serialize(), True) if isinstance(ct, WhisperMessage) else mgr["B"].decrypt_pkmsg(A, ct.serialize(), True)
                except Exception as e:
                    got = "%s" % type(e).__name__
                if i == 1:
                    # B answers once so that A's session is acknowledged (ordinary conversation)
                    back = mgr["B"].encrypt(A, b"reply")
                    mgr["A"].decrypt_msg(B, back.serialize(), True) if isinstance(back, WhisperMessage) else mgr["A"].decrypt_pkmsg(B, back.serialize(), True)
            else:
                if mgr["A"].load_senderkey(G).isEmpty() or not skdm_sent:
                    skdm = mgr["A"].group_create_skmsg(G)
                    mgr["B"].group_create_session(G, A, skdm.serialize())
                    skdm_sent = True
                ct = mgr["A"].group_encrypt(G, text)
                try:
                    got = mgr["B"].group_decrypt(G, A, ct)
                except Exception as e:
                    got = "%s" % type(e).__name__
            obs.append(("message %d (%s) is decrypted by the receiver with the original content (%s)" % (i, kind, got if not isinstance(got, bytes) else "ok"), got == text))
            if i == when:
                restart("A" if who == "sender" else "B")
        return obs
    finally:
        ent.__exit__()
        for m_ in list(locals().get("mgr", {}).values()):
            c17._close(m_)
        shutil.rmtree(d, ignore_errors=True)


@ST.deterministic("c03-h_manager_exception_mapping")
def h_content(ctx, kind, which):
    """'with the original content': what the application composes is what the recipient's application is handed -- the payload mapping
    of the message kinds the statement names (C10's harness: every field a solver variable), run here on the content clause's behalf"""
    from checks import c10
    try:
        return c10.h_roundtrip(ctx, kind, which, 0) + [(l, o) for l, o in c10.h_peer_payload(ctx, kind, which, 0) if "re-serialised" in l]
    finally:
        c10.restore()


def h_manager_exception_mapping(ctx):
    """REAL AxolotlManager.decrypt_*: each failure class of the ratchet library is reported as the matching yowsup class
    (duplicate != invalid message != invalid key id != no session) -- the receive layer's reactions depend on it"""
    import yowsup.axolotl.manager as mm
    from yowsup.axolotl import exceptions as X
    from axolotl.nosessionexception import NoSessionException
    from axolotl.invalidkeyidexception import InvalidKeyIdException
    from axolotl.invalidmessageexception import InvalidMessageException
    from axolotl.duplicatemessagexception import DuplicateMessageException
    kinds = {"no-session": (NoSessionException, X.NoSessionException), "invalid-key-id": (InvalidKeyIdException, X.InvalidKeyIdException),
             "invalid-message": (InvalidMessageException, X.InvalidMessageException), "duplicate": (DuplicateMessageException, X.DuplicateMessageException)}
    which = ctx.choice("failure", sorted(kinds))
    api = ctx.choice("api", ["decrypt_pkmsg", "decrypt_msg", "group_decrypt"])
    if api == "group_decrypt" and which == "invalid-key-id":
        return []
    raised, expected = kinds[which]

    class Cipher(object):
        def decryptPkmsg(self, m):
            raise raised("x")
        decryptMsg = decrypt = decryptPkmsg
    mgr = mm.AxolotlManager.__new__(mm.AxolotlManager)
    mgr._get_session_cipher = lambda who: Cipher()
    mgr._get_group_cipher = lambda g, u: Cipher()
    saved = (mm.PreKeyWhisperMessage, mm.WhisperMessage)
    mm.PreKeyWhisperMessage = lambda serialized=None: object()
    mm.WhisperMessage = lambda serialized=None: object()
    got = None
    try:
        if api == "group_decrypt":
            mgr.group_decrypt("g", "p", b"data")
        else:
            getattr(mgr, api)("sender", b"data", True)
    except Exception as e:
        got = type(e)
    finally:
        mm.PreKeyWhisperMessage, mm.WhisperMessage = saved          # other cases of this process use the real message classes
    return [("%s: library failure '%s' is reported as yowsup's %s (got %s)" % (api, which, expected.__name__, getattr(got, "__name__", got)), got is expected)]


def h_padding(ctx):
    """REAL manager code: _unpad(message + _generate_random_padding()) == message for every message and every pad length"""
    import yowsup.axolotl.manager as mm

    class Rnd(object):
        @staticmethod
        def randint(a, b):
            return ctx.int("pad", a, b)
    saved = mm.random
    mm.random = Rnd
    try:
        mgr = mm.AxolotlManager.__new__(mm.AxolotlManager)
        L = ctx.int("L", 0, 1 << 20)
        msg = H.blob(ctx, "MSG", L)
        pad = mgr._generate_random_padding()
        padded = msg + pad
        out = mgr._unpad(padded)
    finally:
        mm.random = saved
    return [("pad length in 1..255", core.eq(H.length_of(pad) >= 1, True) if H.sym(ctx) else 1 <= len(pad) <= 255),
            ("unpad(message + padding) == message", H.rope_eq(out, msg))]


def cases(tier):
    cs = [dict(name="send[1:1,session]", fn=h_send_direct, args=("contact",)), dict(name="send[group,sender-key]", fn=h_send_direct, args=("group",)),
          dict(name="send[1:1,no-session]", fn=h_send_no_session), dict(name="send[group,first message,sessions]", fn=h_send_group_first, args=(True,)),
          dict(name="send[group,first message,no sessions]", fn=h_send_group_first, args=(False,)),
          dict(name="send[group,first message,session with all but one member]", fn=h_send_group_first, args=("partial",)), dict(name="send[queue-bound]", fn=h_queue_bound), dict(name="retry-receipt", fn=h_retry_receipt), dict(name="group-receipts", fn=h_group_receipts), dict(name="manager-exception-mapping", fn=h_manager_exception_mapping, keep_samples=12),
          dict(name="pad[real manager]", fn=h_padding)]
    for grp in (False, True):
        for f in (1, 2):
            cs.append(dict(name="retry-loop[%s,%d failed deliveries]" % ("group" if grp else "1:1", f), fn=h_retry_loop, args=(grp, f)))
    cs.append(dict(name="restart[real managers and stores]", fn=h_restart_conversation, keep_samples=12))
    for kind in ("text", "extended_text", "image", "location", "contact"):
        for which in ("none", "all"):
            cs.append(dict(name="content[%s,%s optional fields]" % (kind, which), fn=h_content, args=(kind, which)))
    for count in (1, 2, 3):
        cs.append(dict(name="parked[%d messages waiting for the contact's keys]" % count, fn=h_parked_messages, args=(count,)))
    cs.append(dict(name="send2[1:1]", fn=h_send_two, args=("contact",)))
    cs.append(dict(name="send2[group]", fn=h_send_two, args=("group",)))
    for payload in ("text", "extended-text"):
        cs.append(dict(name="receive[pkmsg+skmsg,ok,%s]" % payload, fn=h_receive, args=("pkmsg+skmsg", "ok", payload)))
    for enctype in ("pkmsg", "msg", "skmsg"):
        for outcome in ("ok", "duplicate", "invalid-message", "invalid-key-id", "no-session", "untrusted"):
            if enctype == "skmsg" and outcome in ("invalid-key-id", "untrusted"):
                continue
            for payload in (("text", "key-distribution-only", "text+key-distribution", "extended-text", "extended-text+key-distribution") if outcome == "ok" else ("text",)):
                cs.append(dict(name="receive[%s,%s,%s]" % (enctype, outcome, payload), fn=h_receive, args=(enctype, outcome, payload)))
    return cs
