"""C06 -- exactly-once routing of stanzas and entities through the assembled stack.

Incoming: a stanza template (C09 catalogue) with solver-variable fields is injected below the assembled layer set;
exactly one entity must reach the application and serialise back to the stanza -- or nothing at all when the owning
optional module is switched off.  Outgoing: an entity built with symbolic fields is sent from the top; exactly one
stanza equal to its serialisation must leave at the bottom (messages: exactly one encrypted envelope)."""
from sx import core, hooks, harness as H
from checks import stanza_common as SC, stack_common as ST, c09, c09_templates as T

DEFAULT_TIMEOUT_S = 40          # a case of this check takes about a second; a tree on which it takes longer than this is not explored further
PROPERTY = "C06"
LEVEL = "model_checking"
CODE = ["yowsup/layers/__init__.py:YowLayer/YowProtocolLayer/YowParallelLayer", "yowsup/stacks/yowstack.py:YowStack/YowStackBuilder.getProtocolLayers",
        "every protocol_*/layer.py handler map and guard", "yowsup/layers/axolotl/layer_send.py:send/receive", "yowsup/layers/axolotl/layer_receive.py:receive/onMessage",
        "yowsup/layers/axolotl/layer_control.py:send/receive", "yowsup/layers/auth/layer_authentication.py"]
BOUNDS = {"quick": "[+ 2 requests from 4 kinds x 2 replies; contentless text message with / without the placeholder child] " 
                   "[+ 7 entity kinds after a failed send; 1-3 parked encrypted messages] " 
                   "[+ identity-change notification; no answer twice] " 
                   "[+ retry answers (content + sender key) among the encrypted incoming payloads] " 
                   "one stanza / entity per run, every kind of the catalogue, fields unconstrained; one request outstanding in any one layer with a registry (or none); encrypted incoming messages (1-2 envelopes); 5 request kinds answered during the send; module selections all, none, each single module off; with encryption layers",
          "thorough": "all 16 module selections x with/without encryption layers"}
OUTSIDE = ["iq replies (they are routed through the request registries: C08)", "encrypted incoming messages and the envelope contents (C03)",
           "sequences of stanzas (state: at most one outstanding request, in a solver-chosen layer, while the stanza arrives)"]
ASSUMPTIONS = ["python-axolotl replaced by an ideal manager stub (sessions exist)", "message payloads concrete protobuf per kind, meta attributes symbolic",
               "keep-alive thread disabled (ping interval 0): its behaviour is C16's subject"]
EXPLANATION = "symbolic execution of the assembled layer set on one stanza/entity with symbolic fields"

# owning optional module of a kind (None = always present)
IN_OWNER = {"AddGroupsNotification": "groups", "CreateGroupsNotification": "groups", "RemoveGroupsNotification": "groups", "SubjectGroupsNotification": "groups",
            "MediaMessageProtocolEntityTest": None}
OUT_OWNER = {}


def _flags(flags):
    return ST.all_flag_sets()[flags] if flags in ST.all_flag_sets() else ST.FLAG_SETS[flags]


def _stack(flags, enc):
    st, bottom, app, mgr = ST.build(enc=enc, **_flags(flags))
    from yowsup.layers.protocol_iq import YowIqProtocolLayer
    st.setProp(YowIqProtocolLayer.PROP_PING_INTERVAL, 0)
    return st, bottom, app, mgr


# ---- incoming catalogue --------------------------------------------------------------------------------------------
def incoming_catalogue():
    """name -> (node, owner module or None, expected entity count with owner on)"""
    out = {}
    found, _ = c09.discover()
    skip_fix = ("IqProtocolEntity", "ErrorIqProtocolEntity", "ResultGetKeysIqProtocolEntity", "SuccessCreateGroupsIqProtocolEntity", "ListGroupsResultIqProtocolEntity",
                "ResultRequestUploadIqProtocolEntity", "ResultPrivacyIqProtocolEntity", "NotificationProtocolEntity", "PictureNotificationProtocolEntity",
                "IbProtocolEntity", "MessageProtocolEntity", "MediaMessageProtocolEntity", "RequestKeysEncryptNotification")
    for mn, cn, _l, _d in found:
        E, node = c09._load_fixture(mn, cn)
        role = c09.ROLES.get(E.__name__, "inout")
        if "in" not in role or E.__name__ in skip_fix:
            continue
        node = SC.realistic(node, E.__name__)
        owner = None
        if node.tag == "message" and node.attributes.get("type") == "media":
            owner = "media"
        out[E.__name__] = (node, owner)
    for name in ("StreamFeatures", "StreamError-conflict", "StreamError-ack", "AccountIb", "ContactsSyncNotification", "AddGroupsNotification",
                 "CreateGroupsNotification", "RemoveGroupsNotification", "SubjectGroupsNotification") + ATTRS_ONLY:
        C, node, role, keep = T._sample(name)
        out[name] = (node, IN_OWNER.get(name))
    for name in CONSUMED_BY_ENCRYPTION:
        out[name] = (T._sample(name)[1], None)
    return out


# notifications the encryption control layer handles itself (answers with an ack and a key request / key upload): nothing surfaces, and
# nobody else answers them a second time
CONSUMED_BY_ENCRYPTION = ("IdentityChangeNotification",)


def protocol_layers(st):
    """every layer instance of the stack that keeps a request registry"""
    out, todo, i = [], [], 0
    while True:
        try:
            todo.append(st.getLayer(i))
        except Exception:
            break
        i += 1
    while todo:
        l = todo.pop(0)
        todo.extend(getattr(l, "sublayers", ()))
        if hasattr(l, "iqRegistry") and hasattr(l, "processIqRegistry"):
            out.append(l)
    return out


def pending_request(ctx, st, bottom):
    """state: one layer (solver's choice) has a request outstanding, registered through the real _sendIq"""
    from yowsup.layers.protocol_iq.protocolentities import PingIqProtocolEntity
    pls = protocol_layers(st)
    who = ctx.choice("layer_with_pending_request", ["none"] + ["%d:%s" % (i, type(l).__name__) for i, l in enumerate(pls)])
    calls = []
    if who == "none":
        return None, calls, None
    layer = pls[int(who.split(":")[0])]
    req = PingIqProtocolEntity()
    layer._sendIq(req, lambda *a: calls.append("success"), lambda *a: calls.append("error"))
    del bottom.down[:]
    return req.getId(), calls, layer


ATTRS_ONLY = ("RetryIncomingReceipt", "RetryIncomingReceipt-group")     # delivered upward as plain receipts: the retry body is the encryption layer's business


def _no_twins(answers):
    """obligation: no two of the stanzas agree in tag, id, class, type, addressee and participant"""
    import z3
    terms = []
    for i in range(len(answers)):
        for j in range(i):
            a, b = answers[i], answers[j]
            if a.tag != b.tag or len(a.children) != len(b.children):
                continue
            same = core.conj(*[SC.val_eq(hooks.dict_get(a.attributes, k), hooks.dict_get(b.attributes, k)) for k in ("id", "class", "type", "to", "participant")])
            if same is True:
                return False
            if same is not False:
                terms.append(z3.Not(same))
    return core.conj(*terms)


def h_incoming(ctx, name, flags, enc):
    st, bottom, app, mgr = _stack(flags, enc)
    node, owner = incoming_catalogue()[name]
    keep = SC.DISCRIMINATORS + c09.KEEP_EXTRA.get(name, ()) + (("from", "status", "kind") if name == "AccountIb" else ())
    pid, calls, player = pending_request(ctx, st, bottom)
    sym = SC.symbolise(ctx, node, keep=keep)
    if pid is not None and node.tag == "iq":
        sid = hooks.dict_get(sym.attributes, "id")
        if sid is not None:
            ctx.assume(sid != pid)           # replies to outstanding requests are C08's subject
    n_down = len(bottom.down)
    bottom.inject(sym)
    # what the layers send down in response (acks, receipts, key requests): no stanza twice -- two layers reacting to the same incoming
    # stanza with the same answer is the duplication the parallel groups must not produce
    answers = bottom.down[n_down:]
    dup = ("no answer to the stanza is sent down twice (%d answers)" % len(answers), _no_twins(answers))
    if name in CONSUMED_BY_ENCRYPTION:
        if not enc:
            return []
        return [("handled by the encryption layers: nothing surfaces (got %d)" % len(app.up), len(app.up) == 0),
                ("answered with exactly one ack (%d)" % len([x for x in answers if x.tag == "ack"]), len([x for x in answers if x.tag == "ack"]) == 1), dup]
    on = owner is None or _flags(flags)[owner]
    if not on:
        return [("module-off:nothing-delivered (got %d)" % len(app.up), len(app.up) == 0), dup]
    obs = [("exactly-one-entity (got %d)" % len(app.up), len(app.up) == 1), dup]
    if pid is not None:
        obs.append(("an outstanding request is untouched by a stanza that is not its reply (callbacks %s)" % calls, not calls and hooks.sx_in(pid, player.iqRegistry)))
    if name in ATTRS_ONLY and len(app.up) == 1 and app.up[0] is not None:
        PTN = SC.N()
        out = app.up[0].toProtocolTreeNode()
        return obs + SC.node_obs("entity", PTN(out.tag, out.attributes), PTN(sym.tag, sym.attributes))
    if len(app.up) == 1:
        ent = app.up[0]
        obs.append(("entity-is-not-None", ent is not None))
        if ent is not None:
            out = ent.toProtocolTreeNode()
            if node.tag == "message":
                # payload is compared through the parsed message (protobuf re-serialisation may reorder fields): top-level fields here
                PTN = SC.N()
                out = PTN(out.tag, out.attributes)
                sym = PTN(sym.tag, sym.attributes)
            obs += SC.node_obs("entity", out, sym)
    return obs


def h_incoming_unknown(ctx, flags, enc):
    """a stanza whose tag, type and xmlns are unconstrained: never delivered twice, never an error"""
    st, bottom, app, mgr = _stack(flags, enc)
    N = SC.N()
    tag = ctx.choice("tag", ["message", "iq", "notification", "receipt", "ack", "presence", "chatstate", "call", "ib", "success", "failure", "foo"])
    attrs = {"id": H.zstr(ctx, "id"), "from": H.zstr(ctx, "from"), "t": H.numstr(ctx, "t", 0)}
    if tag in ("iq", "presence", "receipt"):
        attrs["type"] = H.zstr(ctx, "type")
    if tag == "iq":
        attrs["xmlns"] = H.zstr(ctx, "xmlns")
    if tag == "ack":
        attrs["class"] = H.zstr(ctx, "class")
    if tag == "notification":
        attrs["type"] = H.zstr(ctx, "type")
        for t in ("picture", "status", "contacts", "w:gp2", "encrypt"):
            ctx.assume(attrs["type"] != t)          # recognised kinds come with their documented bodies (catalogue)
    if tag in ("message", "chatstate", "ib", "success", "failure", "call"):
        # documented bodies are the catalogue's subject; here: bodyless unknown variants are simply not deliverable twice
        pass
    kids = []
    if tag == "message":
        attrs["type"] = "text"          # (a contentless type="media" message makes the media layer raise on the pinned tree: observation, see DESIGN section 6)
        kids = [N("unavailable")] if ctx.flag("placeholder_child") else []
    try:
        bottom.inject(N(tag, attrs, kids))
    except (AttributeError, TypeError, KeyError, ValueError, IndexError, AssertionError) as e:
        if tag == "message":
            # a message without content (the server's <unavailable/> placeholder, a childless message) is a documented thing to receive:
            # it produces nothing rather than an error
            return [("a message stanza without content produces nothing rather than an error (%s: %s)" % (type(e).__name__, str(e)[:60]), False)]
        # a malformed body of a recognised tag may be rejected; it must not be delivered AND rejected
        return [("rejected-stanza-not-also-delivered", len(app.up) == 0)]
    return [("at-most-one-entity (got %d)" % len(app.up), len(app.up) <= 1)]


# ---- outgoing catalogue --------------------------------------------------------------------------------------------
def _out_owner(name, ent):
    mod = type(ent).__module__
    if ".protocol_groups." in mod:
        return "groups"
    if ".protocol_media." in mod:
        return "media"
    if ".protocol_privacy." in mod:
        return "privacy"
    if ".protocol_profiles." in mod:
        return "profiles"
    return None


def outgoing_names():
    names = []
    found, _ = c09.discover()
    for mn, cn, _l, _d in found:
        E, node = c09._load_fixture(mn, cn)
        if "out" in c09.ROLES.get(E.__name__, "inout") and E.__name__ not in ("IqProtocolEntity", "MessageProtocolEntity", "PresenceProtocolEntity", "MediaMessageProtocolEntity",
                                                                                 "CleanIqProtocolEntity", "UnregisterIqProtocolEntity", "SetStatusIqProtocolEntity",
                                                                                 "RequestUploadIqProtocolEntity", "TextMessageProtocolEntity"):
            names.append("fixture:%s:%s" % (mn, cn))
    for name in sorted(T.SAMPLES):
        if "out" in T.SAMPLES[name][1] and not name.startswith("Enc"):
            names.append("sample:" + name)
    for w in T.DIRECT:
        if w not in ("PongResultIq",):
            names.append("direct:" + w)
    return names


def _make_out(ctx, name):
    kind, rest = name.split(":", 1)
    if kind == "fixture":
        mn, cn = rest.split(":")
        E, node = c09._load_fixture(mn, cn)
        node = c09._outgoing_shape(SC.realistic(node, E.__name__))
        sym = SC.symbolise(ctx, node, keep=SC.DISCRIMINATORS + c09.KEEP_EXTRA.get(E.__name__, ()))
        return E.fromProtocolTreeNode(sym)
    if kind == "sample":
        path, role, make, keep = T.SAMPLES[rest]
        return make(T._SymArgs(ctx, T._cls(path)))
    return T._direct(ctx, rest)


def h_outgoing(ctx, name, flags, enc):
    st, bottom, app, mgr = _stack(flags, enc)
    ent = _make_out(ctx, name)
    owner = _out_owner(name, ent)
    expected = ent.toProtocolTreeNode()
    app.toLower(ent)
    on = owner is None or _flags(flags)[owner]
    down = bottom.down
    if not on:
        return [("module-off:nothing-sent (got %d)" % len(down), len(down) == 0)]
    obs = [("exactly-one-stanza (got %d)" % len(down), len(down) == 1)]
    if len(down) != 1:
        return obs
    if expected.tag == "message" and enc:
        n_enc = len([c for c in mgr.calls if c[0] in ("encrypt", "group_encrypt")])
        obs.append(("message:exactly-one-hand-over-to-encryption (got %d)" % n_enc, n_enc == 1))
        obs.append(("message:envelope-has-enc-child", down[0].getChild("enc") is not None))
        obs.append(("message:envelope-has-no-plaintext-child", down[0].getChild("proto") is None and down[0].getChild("body") is None))
        obs.append(("message:envelope-id", SC.val_eq(hooks.dict_get(down[0].attributes, "id"), hooks.dict_get(expected.attributes, "id"))))
        obs.append(("message:envelope-to", SC.val_eq(hooks.dict_get(down[0].attributes, "to"), hooks.dict_get(expected.attributes, "to"))))
    else:
        obs += SC.node_obs("stanza", down[0], expected)
    return obs


def h_outgoing_after_failure(ctx, name, flags, enc):
    """one send fails below the layer set (the write raises; the sender gets the error), then the entity is sent: it still leaves as exactly
    one stanza -- every lock on the way down is a recording one, so a lock the failed send left held shows instead of hanging"""
    import threading as _threading
    import yowsup.layers as LM
    from checks import c12
    from yowsup.layers.protocol_presence.protocolentities import AvailablePresenceProtocolEntity

    class FakeThreading(object):
        def Lock(self_):
            return c12.RecLock("a layer's send lock")

        def __getattr__(self_, n):
            return getattr(_threading, n)
    real = LM.threading
    LM.threading = FakeThreading()
    try:
        st, bottom, app, mgr = _stack(flags, enc)
    finally:
        LM.threading = real
    orig_send = bottom.send
    state = {"fail": True}

    def send(data):
        if state["fail"]:
            state["fail"] = False
            raise OSError(32, "Broken pipe")
        return orig_send(data)
    bottom.send = send
    raised = None
    try:
        app.toLower(AvailablePresenceProtocolEntity())
    except OSError as e:
        raised = e
    ent = _make_out(ctx, name)
    try:
        app.toLower(ent)
    except c12.WouldBlock as e:
        return [("the failed send is reported to the sender", raised is not None), ("the next entity is not blocked for ever (%s)" % e, False)]
    return [("the failed send is reported to the sender", raised is not None), ("the next entity leaves as exactly one stanza (got %d)" % len(bottom.down), len(bottom.down) == 1)]


def h_incoming_encrypted(ctx, enctype, payload):
    """encrypted incoming message stanzas (one or several envelopes) through the receive-side encryption layer and the message layers,
    under the ideal manager of C03: exactly one entity at the application"""
    from checks import c03
    obs = c03.h_receive(ctx, enctype, "ok", payload)
    return [(l, o) for l, o in obs if "delivered" in l]


def h_incoming_parked(ctx, count):
    """encrypted messages that had to wait for the sender's keys: exactly one entity each once the keys are there"""
    from checks import c03
    return c03.h_parked_messages(ctx, count)


def h_two_requests(ctx):
    """two request entities of different kinds (owned by different protocol layers) are outstanding at once, ids left to the library: each
    leaves once under its own id, and each reply is routed to exactly one of them"""
    from checks import c08
    return c08.h_history(ctx, 2, 2, ("lastseen", "picture-get", "group-info", "ping"))


def h_outgoing_sync_reply(ctx, kind):
    """request entities whose result the protocol layers turn into an entity: the answer may arrive while the request is still on its way down"""
    from checks import c08
    return c08.h_sync_reply(ctx, kind, "plain")


def h_participants_answer(ctx, action):
    """a group participants request (add / remove) is sent, then the server's documented answer with that id arrives: what the application
    gets carries the answer's fields (its serialisation is the stanza that arrived)"""
    from yowsup.layers.protocol_groups.protocolentities import AddParticipantsIqProtocolEntity, RemoveParticipantsIqProtocolEntity
    st, bottom, app, mgr = _stack("all", True)
    N = SC.N()
    group = "4915900000001-1400000000@g.us"
    members = ["4915900000002@s.whatsapp.net", "4915900000003@s.whatsapp.net"][:1 + (1 if ctx.flag("two_members") else 0)]
    req = (AddParticipantsIqProtocolEntity if action == "add" else RemoveParticipantsIqProtocolEntity)(group, members)
    app.toLower(req)
    obs = [("the request leaves as exactly one stanza (got %d)" % len(bottom.down), len(bottom.down) == 1)]
    if len(bottom.down) != 1:
        return obs
    rid = bottom.down[0]["id"]
    answer = N("iq", {"type": "result", "from": group, "id": rid}, [N(action, {"type": "success", "participant": m}) for m in members])
    bottom.inject(answer)
    obs.append(("the answer surfaces as exactly one entity (got %d)" % len(app.up), len(app.up) == 1))
    if len(app.up) == 1 and app.up[0] is not None:
        out = app.up[0].toProtocolTreeNode()
        obs.append(("the entity carries the answer's fields (its serialisation is the stanza that arrived; got %s)" % type(app.up[0]).__name__, SC.strict_eq(out, answer)))
    return obs


def finding_key(case, label, values, where):
    if case.startswith("out[UnregisterIq,") and label.startswith("exactly-one-stanza (got 0)"):
        return "C06|outgoing UnregisterIqProtocolEntity is dropped by every layer"
    return None


def cases(tier):
    q = tier == "quick"
    flagsets = ["all", "none", "no-groups", "no-media", "no-privacy", "no-profiles"] if q else sorted(ST.all_flag_sets())
    encs = (True,) if q else (True, False)
    cs = []
    inc = sorted(incoming_catalogue())
    outs = outgoing_names()
    for fl in flagsets:
        for enc in encs:
            tag = "%s,%s" % (fl, "enc" if enc else "noenc")
            for n in inc:
                cs.append(dict(name="in[%s,%s]" % (n, tag), fn=h_incoming, args=(n, fl, enc), max_paths=2000))
            cs.append(dict(name="in-unknown[%s]" % tag, fn=h_incoming_unknown, args=(fl, enc), max_paths=4000))
            for n in outs:
                cs.append(dict(name="out[%s,%s]" % (n.split(":")[-1], tag), fn=h_outgoing, args=(n, fl, enc), max_paths=2000))
    for n in [x for x in outs if x.split(":")[-1] in ("TextMessage", "PingIq", "OutgoingReceipt", "LastseenIq", "OutgoingChatstateProtocolEntityTest", "GetSyncIqProtocolEntityTest", "ImageDownloadableMediaMessageProtocolEntityTest")]:
        cs.append(dict(name="out-after-failed-send[%s]" % n.split(":")[-1], fn=h_outgoing_after_failure, args=(n, "all", True), max_paths=2000))
    for k in ("lastseen", "group-info", "picture-get", "media-upload", "groups-list"):
        cs.append(dict(name="out-answered-during-send[%s]" % k, fn=h_outgoing_sync_reply, args=(k,), max_paths=2000))
    for action in ("add", "remove"):
        cs.append(dict(name="out-then-answer[group participants %s]" % action, fn=h_participants_answer, args=(action,)))
    cs.append(dict(name="out[two requests of different kinds outstanding, 2 replies]", fn=h_two_requests, max_paths=20000, timeout_s=300))
    for count in (1, 2, 3):
        cs.append(dict(name="in-encrypted[%d messages parked until the sender's keys arrive]" % count, fn=h_incoming_parked, args=(count,), max_paths=2000))
    for enctype in ("pkmsg", "msg", "skmsg", "pkmsg+skmsg"):
        # "+key-distribution": the answer to a group retry request carries the sender key merged into the original message
        for payload in ("text", "extended-text", "text+key-distribution", "extended-text+key-distribution"):
            cs.append(dict(name="in-encrypted[%s,%s]" % (enctype, payload), fn=h_incoming_encrypted, args=(enctype, payload), max_paths=2000))
    return cs
