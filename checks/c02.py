"""C02 -- wire-format conformance against the independent reference codec (ref/wabinary.py).

D1  dictionary: for every index, the library's token tables (through its own index arithmetic, encoder and decoder)
    agree with the frozen reference copy, in both directions.
D2  ref_decode(lib_encode(t)) == t   on the C01 tree families (symbolic sizes / strings / tokens)
D3  lib_decode(ref_encode(t, choices)) == t   for every permitted choice vector of the reference encoder
"""
import zlib
from sx import core, hooks, harness as H
from sx.core import SymInt
from sx.vals import SymSeq
from checks import codec_common as CC

PROPERTY = "C02"
LEVEL = "model_checking"
CODE = ["yowsup/layers/coder/encoder.py:WriteEncoder.*", "yowsup/layers/coder/decoder.py:ReadDecoder.*",
        "yowsup/layers/coder/tokendictionary.py:TokenDictionary.*", "ref/wabinary.py (independent implementation, harness side)"]
BOUNDS = {"quick": "[+ d2-counts for 5 (attributes, children) pairs; 3 frames x 4 compression patterns through one decoder] " 
                   "[+ the same for the reference decoder; barejid choice on val / jid-server slots n<=2] " 
                   "all 1257 usable dictionary indices; payload length L in [0,2^24) x 3 positions x length-form choices; one unconstrained string slot n<=2 "
                   "(n<=3 for val) x choice vectors {list16, literal, unpacked, no-jid}; string-valued content n<=3 and packed classes; deflate on solver witnesses",
          "thorough": "as quick with n<=3 for every slot (n<=4 val), all single and pairwise choice combinations"}
OUTSIDE = ["the reference dictionary is a frozen copy (no network): drift of the library table is measured against that copy",
           "zlib itself: the deflate alternative is checked with the real zlib on the concrete witnesses of every explored path, not symbolically",
           "strings longer than the stated n; choice vectors combining more than two non-default choices (thorough: two)"]
ASSUMPTIONS = ["ref/wabinary.py is a faithful implementation of the published format (it is run through the same instrumenting hook so that it executes on symbolic values)",
               "strings: non-empty Latin-1, not ending in '@'"]
EXPLANATION = "differential symbolic execution: the library codec and an independent codec run on the same symbolic trees/choices; equality discharged by z3 per path"


def W():
    from ref import wabinary
    return wabinary


def ref_decode(ctx, frame):
    w = W()
    if H.sym(ctx):
        return w.decode(SymSeq(frame.items if isinstance(frame, SymSeq) else list(frame), "bytes"))
    return w.decode(bytes(frame))


def ref_encode(ctx, tree, ch):
    w = W()
    return CC.frame_parts_to_bytes(ctx, w.encode_parts(tree, ch))


def _d2_obs(ctx, tree):
    frame = CC.lib_encode(ctx, tree)
    try:
        out = ref_decode(ctx, frame)
    except W().FormatError as e:
        return [("reference-accepts-library-output (%s)" % e, False)]
    obs = CC.tree_obs("lib->ref", tree, out)
    return obs


def _d3_obs(ctx, tree, ch, label="ref->lib"):
    frame = ref_encode(ctx, CC.to_ref(tree), ch)
    out = CC.lib_decode(ctx, frame)
    obs = CC.tree_obs(label, tree, out)
    if not H.sym(ctx) and ch.len_form is None:
        # deflate alternative with the real zlib on this concrete witness
        z = bytearray(b"\x02" + zlib.compress(bytes(frame[1:])))
        out2 = CC.lib_decode(ctx, z)
        obs += CC.tree_obs("ref->deflate->lib", tree, out2)
    return obs


def h_d2_counts(ctx, n_attrs, n_children):
    """list sizes across the 8/16-bit header boundary: the reference decodes what the library writes"""
    return _d2_obs(ctx, CC.count_tree(ctx, n_attrs, n_children))


def h_two_deflated(ctx, n):
    """the peer compresses several frames of one connection: the SAME decoder (the coder layer keeps one per connection) reads a compressed
    frame, a plain one and another compressed one; each comes back as the tree the reference encoder was given"""
    from yowsup.layers.coder.decoder import ReadDecoder
    from yowsup.layers.coder.tokendictionary import TokenDictionary
    enc, dec0, td, N = CC.lib()
    dec = ReadDecoder(TokenDictionary())
    trees = [N("iq", {"id": "i%d" % i, "type": "result"}, [N("x%d" % i, {"v": "%d" % (i * 7)})]) for i in range(n)]
    order = ctx.choice("compressed_frames", ["first and last", "all", "none", "only the second"])
    obs = []
    for i, t in enumerate(trees):
        frame = bytes(ref_encode(ctx, CC.to_ref(t), W().SHORTEST)) if not H.sym(ctx) else bytes(bytearray(ref_encode(ctx, CC.to_ref(t), W().SHORTEST).items))
        deflate = order == "all" or (order == "first and last" and i in (0, n - 1)) or (order == "only the second" and i == 1)
        if deflate:
            frame = b"\x02" + zlib.compress(frame[1:])
        out = dec.getProtocolTreeNode(bytearray(frame))
        obs += CC.tree_obs("frame %d%s" % (i, " (deflated)" if deflate else ""), t, out)
    return obs


def h_d2_after_rejected(ctx, slot, n):
    """the frame the library writes for a well-formed stanza directly after one it had to refuse is a valid frame for the reference decoder"""
    bad = CC.bad_stanza(ctx.choice("rejected_first", list(CC.BAD_STANZAS)))
    tree = CC.slot_tree(ctx, slot, n)
    from yowsup.layers.coder import YowCoderLayer
    c = YowCoderLayer()
    down = []
    c.toLower = down.append
    err = None
    try:
        c.send(bad)
    except Exception as e:
        err = e
    n0 = len(down)
    c.send(tree)
    obs = [("the stanza that cannot be encoded is refused", err is not None), ("exactly one frame is written for the next stanza (%d)" % (len(down) - n0), len(down) - n0 == 1)]
    if len(down) - n0 != 1:
        return obs
    try:
        out = ref_decode(ctx, down[-1])
    except W().FormatError as e:
        return obs + [("reference-accepts-library-output (%s)" % e, False)]
    return obs + CC.tree_obs("lib->ref after a rejected stanza", tree, out)


# ---- D1 dictionary ------------------------------------------------------------------------------
def h_dict(ctx, lo, hi):
    enc, dec, td, N = CC.lib()
    w = W()
    words = list(w.PRIMARY[3:]) + list(w.SECONDARY)
    i = ctx.int("i", lo, min(hi, len(words)) - 1)
    word = hooks.sx_getitem(words, i) if H.sym(ctx) else words[i]
    tree = N(word, {"k": word}, [N("q")])
    obs = []
    lf = CC.lib_encode(ctx, tree)
    rf = ref_encode(ctx, CC.to_ref(tree), w.SHORTEST)
    obs += CC.tree_obs("ref->lib", tree, CC.lib_decode(ctx, rf))
    try:
        obs += CC.tree_obs("lib->ref", tree, ref_decode(ctx, lf))
    except w.FormatError as e:
        obs.append(("reference-accepts-library-output (%s)" % e, False))
    return obs


def h_dict_sizes(ctx):
    enc, dec, td, N = CC.lib()
    w = W()
    return [("primary-size", len(td.dictionary) == len(w.PRIMARY)), ("secondary-size", len(td.secondaryDictionary) == len(w.SECONDARY)),
            ("tables-equal", list(td.dictionary) == list(w.PRIMARY) and list(td.secondaryDictionary) == list(w.SECONDARY))]


# ---- D2 ---------------------------------------------------------------------------------------------
def h_d2_size(ctx, position):
    return _d2_obs(ctx, CC.size_tree(ctx, position))


def h_d2_slot(ctx, slot, n):
    return _d2_obs(ctx, CC.slot_tree(ctx, slot, n))


def h_d2_class(ctx, cls, n):
    enc, dec, td, N = CC.lib()
    s = CC.classed_string(ctx, "s", n, cls)
    return _d2_obs(ctx, N("receipt", {"id": s, "to": s + "@" + "s.whatsapp.net"}, [N("x")]))


# ---- D3 ---------------------------------------------------------------------------------------------
CHOICE_SETS = {
    "default": {}, "list16": {"list16": True}, "literal": {"literal": True}, "unpacked": {"packed": False}, "nojid": {"jid": False}, "barejid": {"bare_jid": True},
    "len20": {"len_form": 20}, "len31": {"len_form": 31}, "strcontent": {"string_content": True},
    "list16+literal": {"list16": True, "literal": True}, "literal+unpacked": {"literal": True, "packed": False},
    "nojid+unpacked": {"jid": False, "packed": False}, "list16+len31": {"list16": True, "len_form": 31},
    "strcontent+literal": {"string_content": True, "literal": True}, "strcontent+unpacked": {"string_content": True, "packed": False},
}


def h_d3_size(ctx, position, chname):
    ch = W().Choices(**CHOICE_SETS[chname])
    return _d3_obs(ctx, CC.size_tree(ctx, position), ch)


def h_d3_slot(ctx, slot, n, chname):
    ch = W().Choices(**CHOICE_SETS[chname])
    return _d3_obs(ctx, CC.slot_tree(ctx, slot, n), ch)


def h_d3_class(ctx, cls, n, chname):
    enc, dec, td, N = CC.lib()
    ch = W().Choices(**CHOICE_SETS[chname])
    s = CC.classed_string(ctx, "s", n, cls)
    return _d3_obs(ctx, N("receipt", {"id": s, "to": s + "@" + "s.whatsapp.net"}, [N("x")]), ch)


def h_longstr(ctx, n, chname):
    """long attribute strings through both codecs (8/20/31-bit string length forms)"""
    enc, dec, td, N = CC.lib()
    ch = W().Choices(**CHOICE_SETS[chname])
    c = H.chars(ctx, "s", 1)
    ctx.assume(CC.ctx_last_code(ctx, "s", 1) != 64)
    s = c + ("x9-" * (n // 3 + 1))[:n - 1]
    t = N("iq", {"id": s, "t": "1"}, [N("x")])
    return _d2_obs(ctx, t) + _d3_obs(ctx, t, ch)


def h_d3_strcontent(ctx, kind, n, chname):
    """node content sent by the peer as a string (token / packed / JID / literal) instead of binary"""
    enc, dec, td, N = CC.lib()
    ch = W().Choices(**CHOICE_SETS[chname])
    if kind == "token":
        data = b"result"
    elif kind == "token2":
        data = W().SECONDARY[300].encode("latin-1")
    elif kind == "jid":
        data = b"4915901234@s.whatsapp.net"
    elif kind == "jid-free":
        # a JID whose user part is n arbitrary Latin-1 characters (no '@'): travels as a JID pair with a literal user
        s = H.chars(ctx, "s", n)
        for i in range(n):
            ctx.assume(CC.ctx_last_code(ctx, "s", i + 1) != 64)
        data = (s.encode("latin-1") if not H.sym(ctx) else SymSeq(s.codes(), "bytes")) + b"@s.whatsapp.net"
    elif kind in ("digits", "hex", "nibble", "HEX-only"):
        s = CC.classed_string(ctx, "s", n, kind)
        data = s.encode("latin-1") if not H.sym(ctx) else SymSeq(s.codes(), "bytes")
    else:
        s = H.chars(ctx, "s", n)
        ctx.assume(CC.ctx_last_code(ctx, "s", n) != 64)
        data = s.encode("latin-1") if not H.sym(ctx) else SymSeq(s.codes(), "bytes")
    tree = N("iq", {"id": "1"}, [N("value", {"a": "b"}, None, data), N("after")])
    return _d3_obs(ctx, tree, ch)


def finding_key(case, label, values, where):
    if case.startswith("d3-strcontent"):
        return "C02|string-valued-node-content"
    if "len31" in case and "slot" in case:
        return "C02|string-with-31-bit-length"
    return None


def cases(tier):
    q = tier == "quick"
    cs = [dict(name="d1-sizes", fn=h_dict_sizes)]
    for lo in range(0, 1280, 160):
        cs.append(dict(name="d1-dict[%d..%d)" % (lo, lo + 160), fn=h_dict, args=(lo, lo + 160), weight=30, timeout_s=900, max_paths=5000, keep_samples=4))
    for p in CC.POSITIONS:
        cs.append(dict(name="d2-size[%s]" % p, fn=h_d2_size, args=(p,), weight=2))
        for chn in ("default", "list16", "len20", "len31", "list16+len31"):
            cs.append(dict(name="d3-size[%s,%s]" % (p, chn), fn=h_d3_size, args=(p, chn), weight=2))
    for slot in CC.SLOTS:
        nmax = (3 if slot == "val" else 2) if q else (4 if slot == "val" else 3)
        for n in range(1, nmax + 1):
            cs.append(dict(name="d2-slot[%s,n=%d]" % (slot, n), fn=h_d2_slot, args=(slot, n), weight=6 ** n, timeout_s=300 if q else 3000, max_paths=400000))
            chs = ["default", "list16", "literal", "unpacked", "nojid", "len20", "len31"] + (["barejid"] if slot in ("val", "jid-server") and n <= 2 else [])
            if not q:
                chs += ["list16+literal", "literal+unpacked", "nojid+unpacked"]
            for chn in chs:
                if slot == "data" and chn in ("literal", "unpacked", "nojid"):
                    continue
                cs.append(dict(name="d3-slot[%s,n=%d,%s]" % (slot, n, chn), fn=h_d3_slot, args=(slot, n, chn), weight=6 ** n,
                               timeout_s=300 if q else 3000, max_paths=400000))
    for a, c in ((0, 255), (2, 256), (255, 257), (127, 0), (128, 3)):
        cs.append(dict(name="d2-counts[a=%d,c=%d]" % (a, c), fn=h_d2_counts, args=(a, c), weight=1 + (a + c) / 20.0, timeout_s=300))
    cs.append(dict(name="d3-several-frames-through-one-decoder[3 frames, some deflated]", fn=h_two_deflated, args=(3,)))
    for slot in ("val", "tag", "data"):
        cs.append(dict(name="d2-after-rejected-stanza[%s,n=1]" % slot, fn=h_d2_after_rejected, args=(slot, 1), weight=20, timeout_s=300 if q else 3000, max_paths=400000))
    for cls in ("digits", "nibble", "hex", "HEX-only"):
        longs = (127, 128, 255) if q else (126, 127, 128, 129, 254, 255, 256)
        for n in ((1, 2, 3, 4) + longs if cls in ("digits", "HEX-only") else (1, 2, 3, 4)):
            cs.append(dict(name="d2-class[%s,n=%d]" % (cls, n), fn=h_d2_class, args=(cls, n), weight=1 + n / 6.0, timeout_s=600))
            for chn in (("default", "unpacked", "literal") if n < 100 or not q else ("default",)):
                cs.append(dict(name="d3-class[%s,n=%d,%s]" % (cls, n, chn), fn=h_d3_class, args=(cls, n, chn), weight=1 + n / 6.0, timeout_s=600))
    for n in ((255, 256, 300) if q else (255, 256, 300, 65536, 1 << 20)):
        for chn in ("default", "len20", "len31"):
            cs.append(dict(name="longstr[n=%d,%s]" % (n, chn), fn=h_longstr, args=(n, chn), weight=2 + n / 2000.0, timeout_s=300 if q else 3000))
    for kind, ns in (("token", (0,)), ("token2", (0,)), ("jid", (0,)), ("digits", (1, 2, 5)), ("HEX-only", (1, 4)), ("free", (1, 2) if q else (1, 2, 3)), ("jid-free", (1, 2))):
        for n in ns:
            for chn in ("strcontent", "strcontent+literal", "strcontent+unpacked"):
                cs.append(dict(name="d3-strcontent[%s,n=%d,%s]" % (kind, n, chn), fn=h_d3_strcontent, args=(kind, n, chn), weight=4 ** max(n, 1), timeout_s=600))
    return cs
