"""C12 -- a failure while sending or receiving does not wedge the stack.

The real default stack (network .. segments .. noise .. coder .. logger .. encryption layers .. all protocol layers ..
application) is assembled with recording, non-blocking locks.  The solver chooses the failure (site/kind), its position
in a sequence of up to three operations and the follow-up operation; after the failing operation every lock must be
free, the error must have reached the caller and the follow-up send / incoming frame must complete."""
import threading
from sx import core, hooks, harness as H
from checks import stanza_common as SC, stack_common as ST

PROPERTY = "C12"
LEVEL = "fault_enumeration"
CODE = ["yowsup/layers/__init__.py:YowLayer.toLower/toUpper, YowParallelLayer", "yowsup/layers/noise/layer.py:send/receive/_flush_incoming_buffer",
        "yowsup/layers/noise/layer_noise_segments.py:send", "yowsup/layers/coder/layer.py", "yowsup/layers/logger/layer.py", "yowsup/stacks/yowstack.py:getDefaultLayers"]
BOUNDS = {"quick": "[+ keep-alive timeout fault; socket dispatcher reconnect (2 connections, <=2 incoming)] " 
                   "[+ send during a handshake; reconnect histories len<=6 after up+send] " 
                   "[+ keep-alive pong on which the application fails; reconnect histories len<=4 on the real network layer and dispatcher] " 
                   "[+ a segment arriving while the session is not ready; the two callers of the delivery loop with one pre-emption after k<=13 lines] " 
                   "11 failure kinds (6 downward incl. socket error, interrupt, connection found dead by the write; 5 upward incl. a failing key request for a parked message) x position 0..2 in a sequence of 3 operations x follow-up in {send, incoming frame}; oversize length symbolic in [2^24, 2^25]",
          "thorough": "same with sequences of 5 operations and every follow-up after every failure"}
OUTSIDE = ["blocking behaviour of real OS threads (locks are replaced by recording non-blocking locks: a lock still held after the failure is what would block any later thread forever)",
           "the real Noise transport (stubbed: encrypt = tag + data), reconnects (C16)"]
ASSUMPTIONS = ["consonance WANoiseProtocol replaced by a transparent stub in transport state", "python-axolotl replaced by the ideal manager stub"]
EXPLANATION = "solver-driven enumeration of fault site x position x follow-up on the real default stack with recording locks; symbolic oversize length"


class WouldBlock(Exception):
    pass


class Spin(BaseException):
    """a loop that makes no progress (the same failing step repeated over and over): it never returns"""


class RecLock(object):
    """recording lock.  WAIT_S == 0 (single-threaded harnesses): acquiring a held lock is the wedge the property forbids.
    WAIT_S > 0 (two-thread harness): wait that long for the other thread before calling it a wedge"""
    WAIT_S = 0

    def __init__(self, name):
        self.name = name
        self.held = False
        self._l = threading.Lock()

    def acquire(self, blocking=True, timeout=-1):
        if not (self._l.acquire(timeout=self.WAIT_S) if self.WAIT_S else self._l.acquire(False)):
            raise WouldBlock("lock of %s is still held: this acquire would block forever" % self.name)
        self.held = True
        return True

    def release(self):
        if not self.held:
            raise RuntimeError("release unlocked lock")
        self.held = False
        self._l.release()

    def locked(self):
        return self.held

    def __enter__(self):
        self.acquire()

    def __exit__(self, *a):
        self.release()


class NoiseStub(object):
    STATE_TRANSPORT = "transport"

    def __init__(self, layer):
        self.layer = layer
        self.ready = True
        self.state = "transport"
        self.rs = None
        self.refusals = 0

    def send(self, data):
        if not self.ready:
            raise RuntimeError("no transport session (handshake not finished)")
        self.layer.toLower(SC_cat(b"\x45", data))

    def receive(self):
        if not self.ready:
            # like the real state machine: the call is refused BEFORE a segment is read
            self.refusals += 1
            if self.refusals > 2000:
                raise Spin("receive() was refused 2000 times in a row for the same queued segment")
            raise RuntimeError("no transport session: receive is not allowed in this state")
        self.refusals = 0
        f = self.layer._incoming_segments_queue.get(False)
        if bytes(f).startswith(b"CORRUPT"):
            raise ValueError("decrypt failed (authentication tag mismatch)")
        return f

    def reset(self):
        pass


def SC_cat(prefix, data):
    from sx.vals import SymSeq
    if isinstance(data, SymSeq):
        return SymSeq(list(prefix) + data.items, "bytes")
    return prefix + bytes(data)


class Dispatcher(object):
    def __init__(self):
        self.sent = []
        self.fail_next = None

    def sendData(self, d):
        if self.fail_next is not None:
            e, self.fail_next = self.fail_next, None
            if e == "found-dead":
                # the write discovers that the peer is gone (EPIPE): the dispatcher closes and reports the disconnect from inside the send,
                # as the asyncore dispatcher's handle_close() does; the data is dropped
                self.net.onDisconnected()
                return
            raise e
        self.sent.append(d)

    disconnects = 0

    def connect(self, ep):
        pass

    def disconnect(self):
        self.disconnects += 1


def build():
    from yowsup.stacks.yowstack import YowStack, YowStackBuilder
    from yowsup.layers import YowLayer, YowParallelLayer
    from yowsup.layers.noise.layer_noise_segments import YowNoiseSegmentsLayer
    from yowsup.layers.protocol_iq import YowIqProtocolLayer

    from yowsup.layers import EventCallback
    from yowsup.layers.network import YowNetworkLayer

    class App(YowLayer):
        def __init__(self):
            super(App, self).__init__()
            self.up = []
            self.fail_next = False
            self.saw_disconnect = 0

        @EventCallback(YowNetworkLayer.EVENT_STATE_DISCONNECTED)
        def on_disconnected(self, ev):
            # an application that reacts to a lost connection by sending (it will reconnect and announce itself)
            self.saw_disconnect += 1
            self.toLower(_good_entity())

        def receive(self, e):
            if self.fail_next:
                self.fail_next = False
                raise RuntimeError("application callback raised")
            self.up.append(e)

    # every Lock() created inside yowsup.layers (at construction or lazily, whenever) is a recording lock: locks are intercepted
    # where they are CREATED, never replaced afterwards
    import yowsup.layers as LM
    import yowsup.layers.noise.layer as NM
    locks = {}

    class RecEvent(object):
        """an event object created by a layer: waiting for it when nobody is going to set it is the wedge"""

        def __init__(self_):
            self_.flag = False

        def set(self_):
            self_.flag = True

        def clear(self_):
            self_.flag = False

        def is_set(self_):
            return self_.flag

        def wait(self_, timeout=None):
            if not self_.flag and timeout is None:
                raise WouldBlock("waits without a time limit for an event that nothing in this history is going to set")
            return self_.flag

    class FakeThreading(object):
        def Lock(self_):
            l = RecLock("lock#%d" % (len(locks) + 1))
            locks[l.name] = l
            return l

        def Event(self_):
            return RecEvent()

        def __getattr__(self_, n):
            return getattr(threading, n)
    LM.threading = FakeThreading()
    NM.threading = LM.threading
    import yowsup.layers.protocol_iq.layer as IQM
    if not hasattr(IQM, "_verif_real_lock"):
        IQM._verif_real_lock = IQM.Lock
    IQM.Lock = LM.threading.Lock               # the keep-alive's bookkeeping lock is a recording one too
    layers = YowStackBuilder.getDefaultLayers() + (App,)
    st = YowStack(layers, reversed=False)
    n = len(layers)
    insts = [st.getLayer(i) for i in range(n)]
    for i, l in enumerate(insts):
        if isinstance(getattr(l, "lock", None), RecLock):
            l.lock.name = "%d:%s" % (i, type(l).__name__)
    net, seg, noise = insts[0], insts[1], insts[2]
    disp = Dispatcher()
    disp.net = net
    net._dispatcher = disp
    net.connected = True
    net.state = net.STATE_CONNECTED
    noise._wa_noiseprotocol = NoiseStub(noise)
    if isinstance(getattr(noise, "_flush_lock", None), RecLock):
        noise._flush_lock.name = "noise._flush_lock"
    st.setProp(YowNoiseSegmentsLayer.PROP_ENABLED, True)
    st.setProp(YowIqProtocolLayer.PROP_PING_INTERVAL, 0)
    st.setProp("profile", ST.StubProfile())
    mgr = ST.ManagerStub(True)
    ST.wire_manager(st, mgr)
    return st, insts, locks, disp, net, noise, insts[-1]


def _good_entity():
    from yowsup.layers.protocol_presence.protocolentities import AvailablePresenceProtocolEntity
    return AvailablePresenceProtocolEntity()


def _frame(node):
    """bytes of an incoming frame as they reach the noise layer's queue (stub transport: plaintext frame)"""
    from yowsup.layers.coder.encoder import WriteEncoder
    from yowsup.layers.coder.tokendictionary import TokenDictionary
    return bytes(bytearray(WriteEncoder(TokenDictionary()).protocolTreeNodeToBytes(node)))


def _seg(frame):
    n = len(frame)
    return bytes([(n >> 16) & 255, (n >> 8) & 255, n & 255]) + frame


DOWN_FAULTS = ("unencodable-value", "oversize-frame", "no-transport-session", "send-while-the-handshake-is-in-progress", "socket-write-fails", "interrupted-during-socket-write", "connection-found-dead-during-write")
SILENT = ("connection-found-dead-during-write",)          # the caller sees no exception: the disconnect is announced by an event instead
UP_FAULTS = ("undecryptable-frame", "undecodable-frame", "undecodable-compressed-frame", "rejected-stanza", "application-callback-raises", "key-request-for-incoming-message-fails-below",
             "incoming-frame-while-session-not-ready", "application-callback-raises-on-keepalive-pong", "keep-alive-times-out")


def _do_send_ok(top, disp):
    """a send completes: its stanza arrives at the peer (one whole frame that decodes to exactly the stanza sent)"""
    from sx.vals import SymSeq
    from yowsup.layers.coder.decoder import ReadDecoder
    from yowsup.layers.coder.tokendictionary import TokenDictionary
    before = len(disp.sent)
    ent = _good_entity()
    top.toLower(ent)
    new = disp.sent[before:]
    if not new or any(isinstance(c, SymSeq) for c in new):
        return len(new) > 0
    data = b"".join(bytes(c) for c in new)
    if len(data) < 4 or int.from_bytes(data[:3], "big") != len(data) - 3 or data[3:4] != b"\x45":
        return False
    try:
        node = ReadDecoder(TokenDictionary()).getProtocolTreeNode(bytearray(data[4:]))
    except Exception:
        return False
    return SC.strict_eq(node, ent.toProtocolTreeNode())


def _iq_layer(insts):
    for l in insts:
        for s_ in getattr(l, "sublayers", ()):
            if type(s_).__name__ == "YowIqProtocolLayer":
                return s_


def _deflated(frame):
    """the same stanza as the server sends it compressed: flag byte 2, then the zlib stream of the body"""
    import zlib
    return b"\x02" + zlib.compress(frame[1:])


def _do_recv_ok(net, top):
    N = SC.N()
    before = len(top.up)
    net.receive(_seg(_frame(N("presence", {"from": "4915901234567@s.whatsapp.net", "type": "available"}))))
    # a frame that arrived while the session was not ready is still queued: it is delivered, in order, with the next one
    late, top.queued_while_not_ready = getattr(top, "queued_while_not_ready", 0), 0
    # ... and a compressed frame after it
    net.receive(_seg(_deflated(_frame(N("presence", {"from": "4915907654321@s.whatsapp.net", "type": "available"})))))
    return len(top.up) == before + 2 + late


def _inject_fault(ctx, kind, st, insts, disp, net, noise, top):
    """perform one failing operation; returns (raised exception or None)"""
    N = SC.N()
    try:
        if kind == "unencodable-value":
            from yowsup.layers.protocol_presence.protocolentities import PresenceProtocolEntity
            top.toLower(PresenceProtocolEntity(_type=12345))          # an int attribute value cannot be encoded
        elif kind == "oversize-frame":
            L = ctx.int("oversize_len", 1 << 24, 1 << 25)
            coder = insts[3]
            coder.toLower(H.blob(ctx, "BIG", L, "bytes"))             # a frame >= 16 MiB handed down by the coder layer
        elif kind == "no-transport-session":
            noise._wa_noiseprotocol.ready = False
            try:
                top.toLower(_good_entity())
            finally:
                noise._wa_noiseprotocol.ready = True
        elif kind == "send-while-the-handshake-is-in-progress":
            # the session is not ready because a handshake is running (and, as far as this history goes, never finishes in an orderly way)
            noise._wa_noiseprotocol.ready, noise._wa_noiseprotocol.state = False, "handshake"
            try:
                top.toLower(_good_entity())
            finally:
                noise._wa_noiseprotocol.ready, noise._wa_noiseprotocol.state = True, "transport"
        elif kind == "socket-write-fails":
            disp.fail_next = OSError(32, "Broken pipe")
            top.toLower(_good_entity())
        elif kind == "interrupted-during-socket-write":
            # the sending thread is interrupted (Ctrl-C in an interactive client, SystemExit of a worker) inside the network write
            disp.fail_next = KeyboardInterrupt()
            try:
                top.toLower(_good_entity())
            except KeyboardInterrupt as e:
                return e
            finally:
                disp.fail_next = None
        elif kind == "connection-found-dead-during-write":
            disp.fail_next = "found-dead"
            top.toLower(_good_entity())
            _run_detached(st)                      # the stack's loop delivers the deferred part of the event
            net.connected, net.state = True, net.STATE_CONNECTED      # the application's reconnect
        elif kind == "key-request-for-incoming-message-fails-below":
            _no_session_manager(ctx, insts)
            disp.fail_next = OSError(32, "Broken pipe")
            net.receive(_seg(_frame(_enc_message("m1"))))
        elif kind == "incoming-frame-while-session-not-ready":
            # server data trailing a failed handshake / arriving after the session was reset: the transport refuses to read
            noise._wa_noiseprotocol.ready = False
            try:
                net.receive(_seg(_frame(N("presence", {"from": "4915901234567@s.whatsapp.net", "type": "available"}))))
            except Spin as e:
                raise WouldBlock("the noise layer retries the refused read for ever: %s" % e)
            finally:
                noise._wa_noiseprotocol.ready = True
                top.queued_while_not_ready = noise._incoming_segments_queue.qsize()
        elif kind == "application-callback-raises-on-keepalive-pong":
            # the keep-alive's ping is answered in time, but the application's handler raises on the pong
            from yowsup.layers.protocol_iq.protocolentities import PingIqProtocolEntity
            iq = _iq_layer(insts)
            ping = PingIqProtocolEntity()
            iq.waitPong(ping.getId())
            iq.sendIq(ping)
            top.fail_next = True
            net.receive(_seg(_frame(N("iq", {"id": ping.getId(), "type": "result", "from": "s.whatsapp.net"}))))
        elif kind == "keep-alive-times-out":
            # two keep-alive periods without an answer: the iq layer asks for the connection to be closed (from the keep-alive's thread);
            # the close is a fault the stack must survive like any other: nothing blocks, later operations work after the reconnect
            from yowsup.layers.protocol_iq.protocolentities import PingIqProtocolEntity
            iq = _iq_layer(insts)
            nd = disp.disconnects

            class KeepAliveThread(object):          # the thread object the layer keeps while logged in (its body is what this fault plays)
                def stop(self_):
                    pass
            iq._pingThread = KeepAliveThread()
            for _ in range(2):
                ping = PingIqProtocolEntity()
                iq.waitPong(ping.getId())
                iq.sendIq(ping)
            _run_detached(st)
            if disp.disconnects == nd:
                return None
            net.connected, net.state = True, net.STATE_CONNECTED      # the application's reconnect
            return RuntimeError("connection closed by the keep-alive (Ping Timeout)")
        elif kind == "undecryptable-frame":
            net.receive(_seg(b"CORRUPT ciphertext whose tag does not verify"))
        elif kind == "undecodable-frame":
            net.receive(_seg(b"\x00\xf8\x02\xff\xff\xff"))
        elif kind == "undecodable-compressed-frame":
            good = _deflated(_frame(N("presence", {"from": "4915901234567@s.whatsapp.net", "type": "available"})))
            net.receive(_seg(good[:-3] + bytes([good[-3] ^ 0x55]) + good[-2:]))       # a damaged zlib stream (checksum)
        elif kind == "rejected-stanza":
            net.receive(_seg(_frame(N("notification", {"id": "n1", "from": "4915901234567@s.whatsapp.net", "type": "picture", "t": "1400000000"}))))
        elif kind == "application-callback-raises":
            top.fail_next = True
            net.receive(_seg(_frame(N("presence", {"from": "4915901234567@s.whatsapp.net", "type": "available"}))))
    except WouldBlock:
        raise
    except Exception as e:
        return e
    return None


def _wire_is_whole_frames(ctx, chunks):
    """what the peer sees: the bytes handed to the socket so far parse as 3-byte length + payload, repeatedly, with nothing left over"""
    from sx.vals import SymSeq
    if not any(isinstance(c, SymSeq) for c in chunks):
        data = b"".join(bytes(c) for c in chunks)
        i = 0
        while i < len(data):
            if i + 3 > len(data):
                return False
            n = int.from_bytes(data[i:i + 3], "big")
            if i + 3 + n > len(data):
                return False
            i += 3 + n
        return True
    rope = SymSeq([], "bytes")
    for c in chunks:
        rope = rope + (c if isinstance(c, SymSeq) else bytes(c))
    for _ in range(len(chunks) + 1):
        n = rope.length()
        if isinstance(n, int):
            if n == 0:
                return True
            if n < 3:
                return False
        else:
            if bool(n == 0):
                return True
            if bool(n < 3):
                return False
        L = (rope[0] << 16) | (rope[1] << 8) | rope[2]
        rest = n - 3
        if bool(L > rest):
            return False
        rope = rope[3 + L:]
    return bool(rope.length() == 0)


def _run_detached(st):
    from checks import c16
    c16.run_loop(st)


def _enc_message(mid):
    N = SC.N()
    return N("message", {"id": mid, "from": "4915907654321@s.whatsapp.net", "type": "text", "t": "1400000000", "notify": "nn"}, [N("enc", {"type": "msg", "v": "2"}, None, b"\x33\x08ciphertext")])


def _no_session_manager(ctx, insts):
    """the contact's message cannot be decrypted for lack of a session: the receive layer parks it and asks for the contact's keys"""
    from checks import c03

    class NoSession(c03.IdealManager):
        def _decrypt(self, who):
            from yowsup.axolotl import exceptions as X
            self.calls.append(("decrypt", who))
            raise X.NoSessionException()
    mgr = NoSession(ctx, sessions=False, outcome="no-session")
    ST.wire_manager(insts[0].getStack(), mgr)


def h_fault(ctx, kind, n_ops):
    st, insts, locks, disp, net, noise, top = build()
    pos = ctx.choice("position", list(range(n_ops)))
    follow = ctx.choice("followup", ["send", "incoming-frame", "both"])
    obs = []
    for i in range(n_ops):
        if i == pos:
            try:
                err = _inject_fault(ctx, kind, st, insts, disp, net, noise, top)
            except WouldBlock as e:
                return obs + [("no-operation-blocks (%s)" % e, False)]
            if kind not in SILENT:
                obs.append(("error-reported-to-caller", err is not None))
            else:
                obs.append(("the lost connection is announced to the application once (%d)" % top.saw_disconnect, top.saw_disconnect == 1 and err is None))
            if kind == "key-request-for-incoming-message-fails-below":
                # the same contact writes again: the message is handled like the first one -- a key request leaves (it is not parked for ever)
                n0 = len(disp.sent)
                try:
                    net.receive(_seg(_frame(_enc_message("m2"))))
                    obs.append(("a later message of the same contact triggers a key request again", len(disp.sent) > n0))
                except WouldBlock as e:
                    return obs + [("later-operation-blocks-forever (%s)" % e, False)]
                ST.wire_manager(st, ST.ManagerStub(True))
            held = sorted(l.name for l in locks.values() if l.held)
            obs.append(("no-lock-held-after-failure (held: %s)" % held, not held))
            if kind == "application-callback-raises-on-keepalive-pong":
                # the ping WAS answered: the next keep-alive period must not take the connection for dead
                from yowsup.layers.protocol_iq.protocolentities import PingIqProtocolEntity
                iq, nd = _iq_layer(insts), disp.disconnects
                nxt = PingIqProtocolEntity()
                try:
                    iq.waitPong(nxt.getId())
                    iq.sendIq(nxt)
                    _run_detached(st)
                except WouldBlock as e:
                    return obs + [("later-operation-blocks-forever (%s)" % e, False)]
                obs.append(("the answered ping does not count as unanswered at the next keep-alive period (connection kept)", disp.disconnects == nd and bool(net.connected)))
                net.receive(_seg(_frame(SC.N()("iq", {"id": nxt.getId(), "type": "result", "from": "s.whatsapp.net"}))))
        else:
            try:
                ok = _do_send_ok(top, disp) if i % 2 == 0 else _do_recv_ok(net, top)
            except WouldBlock as e:
                return obs + [("later-operation-blocks-forever (%s)" % e, False)]
            obs.append(("operation-%d-completes" % i, ok))
    try:
        if follow in ("send", "both"):
            obs.append(("follow-up-send-completes", _do_send_ok(top, disp)))
        if follow in ("incoming-frame", "both"):
            obs.append(("follow-up-incoming-frame-completes", _do_recv_ok(net, top)))
    except WouldBlock as e:
        obs.append(("follow-up-blocks-forever (%s)" % e, False))
    obs.append(("the socket stream is still a sequence of whole frames (a refused frame left nothing behind)", _wire_is_whole_frames(ctx, disp.sent)))
    return obs


class _TimedQueue(object):
    """the layer's segment queue; a blocking get on an empty queue that nobody will ever fill is reported instead of waited for"""

    def __init__(self, q):
        self.q = q

    def get(self, block=True, timeout=None):
        import queue
        if not block:
            return self.q.get(False)
        try:
            return self.q.get(True, 20)
        except queue.Empty:
            raise WouldBlock("blocking read of the incoming segment queue although it is empty and nobody will fill it")

    def __getattr__(self, n):
        return getattr(self.q, n)


def h_two_flushers(ctx):
    """the two real callers of the delivery loop on their two threads: the handshake worker announcing the transport state (one frame was
    queued during the handshake) and the network thread receiving the next frame.  Schedule (solver's choice): which of them is pre-empted,
    after how many of its lines inside the noise layer, while the other one runs as far as it can; then the first continues."""
    import sys
    st, insts, locks, disp, net, noise, top = build()
    N = SC.N()
    stub = noise._wa_noiseprotocol
    first = ctx.choice("preempted_thread", ["handshake-worker", "network"])
    k = ctx.choice("preempted_after_lines", list(range(0, 14)))
    f1 = _seg(_frame(N("presence", {"from": "4915900000001@s.whatsapp.net", "type": "available"})))
    f2 = _seg(_frame(N("presence", {"from": "4915900000002@s.whatsapp.net", "type": "unavailable"})))
    stub.state = "handshake"
    net.receive(f1)                                   # queued: the handshake is still running
    obs = [("a frame arriving during the handshake is queued, not delivered", len(top.up) == 0)]
    stub.state = "transport"
    noise._incoming_segments_queue = _TimedQueue(noise._incoming_segments_queue)
    RecLock.WAIT_S = 30
    paused, resume = threading.Event(), threading.Event()
    errors = {}
    fname = sys.modules[type(noise).__module__].__file__

    def body(name):
        if name == "handshake-worker":
            noise._on_protocol_state_changed("transport")
        else:
            net.receive(f2)

    def run(name, gated):
        seen = [0]

        def tracer(frame, event, arg):
            if frame.f_code.co_filename != fname:
                return None
            if event == "line":
                if seen[0] == k and not paused.is_set():
                    paused.set()
                    resume.wait(90)
                seen[0] += 1
            return tracer
        if gated:
            sys.settrace(tracer)
        try:
            body(name)
        except BaseException as e:
            errors[name] = e
        finally:
            sys.settrace(None)
            if gated:
                paused.set()
    second = "network" if first == "handshake-worker" else "handshake-worker"
    t1 = threading.Thread(target=run, args=(first, True), daemon=True)
    t2 = threading.Thread(target=run, args=(second, False), daemon=True)
    try:
        t1.start()
        paused.wait(60)
        t2.start()
        t2.join(0.3)                                  # runs to completion unless it has to wait for the pre-empted thread
        resume.set()
        t1.join(90)
        t2.join(90)
    finally:
        RecLock.WAIT_S = 0
        resume.set()
    stuck = [n for n, t in ((first, t1), (second, t2)) if t.is_alive()]
    held = sorted(l.name for l in locks.values() if l.held)
    obs.append(("both threads return (%s; errors: %s)" % (stuck, {n: repr(e)[:120] for n, e in errors.items()}), not stuck and not errors))
    obs.append(("no lock stays held (held: %s)" % held, not held))
    obs.append(("both frames are delivered exactly once (%d deliveries)" % len(top.up), len(top.up) == 2))
    return obs


def h_reconnect(ctx, n, prefix=()):
    """'also after a reconnect': the real network layer and asyncore dispatcher over a socket double; after any failure of a connection or of
    a connect attempt (refused at once, failing later, handler raising, peer closing) a later connect request opens a new connection, and
    the failure was reported (exception to the caller or a down announcement)"""
    from checks import c16
    obs = c16.h_network(ctx, n)
    # "later sends, also after a reconnect, are processed normally": what arrives at the new connection's peer is what was sent on it
    return [(l, o) for l, o in obs if "opens a new socket" in l or "reported to the caller" in l or "no exception" in l or "announced down" in l or "connected flag" in l
            or "peer of connection" in l or "drains" in l]


def h_reconnect_blocking(ctx, n):
    """the same for the library's other dispatcher (blocking socket dispatcher): whatever ends a connection -- incl. an upper layer raising
    on an incoming chunk -- it is announced down, the layer is disconnected and a later connect request works"""
    from checks import c16
    return c16.h_network_blocking(ctx, n)


def finding_key(case, label, values, where):
    kind = case[case.index("[") + 1:case.index(",")] if "," in case else case
    if "lock" not in label and "block" not in label:
        return None
    if kind in DOWN_FAULTS:
        return "C12|YowLayer.toLower keeps its lock when the layer below raises"
    if kind in UP_FAULTS:
        return "C12|YowNoiseLayer._flush_incoming_buffer keeps _flush_lock when an upper layer raises"
    return None


def cases(tier):
    n_ops = 3 if tier == "quick" else 5
    return [dict(name="fault[%s,ops=%d]" % (k, n_ops), fn=h_fault, args=(k, n_ops), keep_samples=12) for k in DOWN_FAULTS + UP_FAULTS] + \
           [dict(name="two-flushers[handshake worker + network thread, one pre-emption]", fn=h_two_flushers, keep_samples=40),
            dict(name="reconnect[real network layer and dispatcher,len<=%d]" % (4 if tier == "quick" else 6), fn=h_reconnect, args=(4 if tier == "quick" else 6,), max_paths=400000, timeout_s=900),
            dict(name="reconnect[socket dispatcher,2 connections,<=2 incoming]", fn=h_reconnect_blocking, args=(2,), max_paths=200000, timeout_s=900, keep_samples=12),
            dict(name="reconnect[after a send that met back-pressure,len<=6]", fn=h_reconnect, args=(6, ("connect-request", "connect-completes", "send")), max_paths=400000, timeout_s=900)]
