"""symbolic stanza templates shared by C06-C09: turn a documented example stanza into a template whose field values
are solver variables (strings as z3 Strings, numbers as decimal renderings of z3 Ints)"""
import z3
from sx import core, hooks, harness as H
from sx.vals import ZStr, NumStr, SymSeq

# attributes that select the kind of stanza (dispatch discriminators): kept concrete in a template
DISCRIMINATORS = ("type", "xmlns", "class", "v", "mediatype", "encoding", "reason", "state", "value", "name", "action", "code", "media", "origin", "duplicate", "privacy", "kind")


# several repository fixtures use placeholder discriminators ("notif_type", "iq_xmlns", "message_type"); where a stanza is
# routed through the layers its real discriminator (the value the class's constructor sets) is needed
REAL = {
    "RequestKeysEncryptNotification": {"type": "encrypt"},
    "SetPictureNotificationProtocolEntity": {"type": "picture"}, "DeletePictureNotificationProtocolEntity": {"type": "picture"},
    "StatusNotificationProtocolEntity": {"type": "status"},
    "TextMessageProtocolEntity": {"type": "text"}, "BroadcastTextMessage": {"type": "text"},
    "MediaMessageProtocolEntity": {"type": "media"}, "ContactMediaMessageProtocolEntity": {"type": "media"},
    "AudioDownloadableMediaMessageProtocolEntity": {"type": "media"}, "ImageDownloadableMediaMessageProtocolEntity": {"type": "media"},
    "VideoDownloadableMediaMessageProtocolEntity": {"type": "media"}, "ExtendedTextMediaMessageProtocolEntity": {"type": "media"},
    "LocationMediaMessageProtocolEntity": {"type": "media"},
    "PresenceProtocolEntity": {"type": "available"},
}


def realistic(node, entity_name):
    ov = REAL.get(entity_name)
    if not ov:
        return node
    attrs = dict(node.attributes)
    attrs.update(ov)
    return N()(node.tag, attrs, list(node.children), node.data)


def N():
    from yowsup.structs import ProtocolTreeNode
    return ProtocolTreeNode


class Namer(object):
    def __init__(self, prefix="a"):
        self.i = 0
        self.prefix = prefix
        self.same = {}        # (key, documented value) -> symbolic value: a field repeated in the documented shape is ONE field

    def next(self, hint=""):
        self.i += 1
        return "%s%d%s" % (self.prefix, self.i, ("_" + hint) if hint else "")


def _is_num(v):
    return isinstance(v, str) and v.isdigit() and (v == "0" or not v.startswith("0"))


FLAGS = {"offline": ("0", "1"), "mode": ("full", "delta"), "context": ("registration", "interactive"), "last": ("true", "false")}


# numeric attributes whose value 0 means "absent" (the entity then legitimately omits the attribute): any value from 1
MIN_NUM = {"backoff": 1}


def sym_value(ctx, namer, key, v, keep=()):
    if key in keep or not isinstance(v, str) or v == "":
        return v
    if (key, v) in namer.same:
        return namer.same[(key, v)]
    r = _sym_value(ctx, namer, key, v)
    namer.same[(key, v)] = r
    return r


def _sym_value(ctx, namer, key, v):
    if key in FLAGS and v in FLAGS[key]:
        return ctx.choice(namer.next(key), FLAGS[key])
    if _is_num(v):
        return H.numstr(ctx, namer.next(key), MIN_NUM.get(key, 0))
    return H.zstr(ctx, namer.next(key), nonempty=True)


def symbolise(ctx, node, namer=None, keep=DISCRIMINATORS, data="keep", list_variant=None, drop=()):
    """copy of `node` with attribute values replaced by fresh symbolic values of the same kind.
    list_variant: None or an int k -- repeated same-tag children are replaced by k symbolised copies"""
    namer = namer or Namer()
    PTN = N()
    attrs = {}
    for k, v in node.attributes.items():
        if k in drop:
            continue
        attrs[k] = sym_value(ctx, namer, k, v, keep)
    children = list(node.children)
    if list_variant is not None and len(children) >= 2 and len(set(c.tag for c in children)) == 1:
        children = [children[i % len(children)] for i in range(list_variant)]
    if list_variant is not None and len(children) >= 2 and len(set(c.tag for c in children)) == 1:
        # copies of a documented list element are distinct elements: forget the field identities of the previous copy
        kids = []
        for c in children:
            saved = dict(namer.same)
            kids.append(symbolise(ctx, c, namer, keep, data, list_variant, drop))
            namer.same = saved
    else:
        kids = [symbolise(ctx, c, namer, keep, data, list_variant, drop) for c in children]
    # list elements are identified by their jid: assume pairwise distinct jids among same-tag siblings
    js = [k.attributes.get("jid") for k in kids if len(set(x.tag for x in kids)) == 1 and isinstance(k.attributes, dict) and "jid" in k.attributes]
    for i in range(len(js)):
        for j in range(i + 1, len(js)):
            ne = (js[i] != js[j])
            ctx.assume(ne)
    d = node.data
    if node.tag == "registration" and isinstance(d, bytes) and len(d) == 4 and data != "blob":
        d = H.symbytes(ctx, namer.next("reg"), 4)          # a number blob: every 32-bit value
    if d is not None and data == "text" and isinstance(d, bytes) and 1 <= len(d) <= 16 and node.tag != "registration" and not node.children:
        # a short text leaf: two arbitrary bytes (any encoding issue of the class shows on non-ASCII values)
        d = H.symbytes(ctx, namer.next("txt"), 2)
    if d is not None and data == "blob":
        L = ctx.int(namer.next("len"), 0, 4096)
        d = H.blob(ctx, namer.next("data"), L)
    return PTN(node.tag, attrs, kids, d)


def assume_distinct_members(ctx, a, b):
    """two stanzas of one shape stand for two different answers: list members (identified by their jid) differ between them"""
    def jids(n, out):
        for c in n.children:
            j = c.attributes.get("jid") if isinstance(c.attributes, dict) else None
            if j is not None and not isinstance(j, str):
                out.append(j)
            jids(c, out)
        return out
    for x in jids(a, []):
        for y in jids(b, []):
            ctx.assume(x != y)


def val_eq(a, b):
    """equality of attribute values, numbers by value"""
    from sx.core import SymInt
    if isinstance(a, (int, SymInt)) and not isinstance(a, bool) and isinstance(b, (str, ZStr)):
        a, b = b, a
    if isinstance(b, (int, SymInt)) and not isinstance(b, bool):
        if isinstance(a, NumStr):
            return core.eq(SymInt(a.n), b)
        if isinstance(a, str) and a.isdigit():
            return core.eq(int(a), b)
        if isinstance(a, (int, SymInt)):
            return core.eq(a, b)
        return False
    if isinstance(a, (ZStr,)) or isinstance(b, (ZStr,)):
        return H.eq(a, b)
    if isinstance(a, str) and isinstance(b, str):
        if a == b:
            return True
        if _is_numlike(a) and _is_numlike(b):
            return int(a) == int(b)
        return False
    if a is None or b is None:
        return a is b
    return H.eq(a, b)


def _is_numlike(v):
    return v.isdigit()


def node_obs(prefix, a, b, unordered_children=False):
    """obligations: stanza a (produced) equals stanza b (expected); attributes as mappings"""
    if a is None or b is None:
        return [(prefix + ":present", a is b)]
    obs = []
    if a.tag != b.tag:
        return [(prefix + ":tag %s vs %s" % (a.tag, b.tag), False)]
    ka = sorted(k for k, _ in hooks.dict_items(a.attributes))
    kb = sorted(k for k, _ in hooks.dict_items(b.attributes))
    if ka != kb:
        return [(prefix + ":attribute-names produced=%s expected=%s" % (ka, kb), False)]
    for k in ka:
        obs.append((prefix + ":@" + k, val_eq(a.attributes[k], b.attributes[k])))
    if (a.data is None) != (b.data is None):
        if not ((a.data in (None, b"")) and (b.data in (None, b""))):
            obs.append((prefix + ":data-presence", False))
    elif a.data is not None:
        obs.append((prefix + ":data", H.rope_eq(a.data, b.data)))
    if len(a.children) != len(b.children):
        return obs + [(prefix + ":n-children %s vs %s" % ([c.tag for c in a.children], [c.tag for c in b.children]), False)]
    for i, (x, y) in enumerate(zip(a.children, b.children)):
        obs += node_obs("%s/%s[%d]" % (prefix, y.tag, i), x, y)
    return obs


def codec_contract_obs(prefix, node):
    """what the binary codec needs from a stanza (C01 covers the codec on all such stanzas): tag and attribute
    keys are non-empty str, attribute values are non-empty strings, data is bytes"""
    obs = []
    obs.append((prefix + ":tag-is-str", isinstance(node.tag, str) and len(node.tag) > 0))
    for k, v in hooks.dict_items(node.attributes):
        obs.append((prefix + ":key-is-str", isinstance(k, str) and len(k) > 0))
        if isinstance(v, ZStr):
            obs.append((prefix + ":@%s-nonempty" % k, core.eq(v.length() > 0, True) if not isinstance(v, NumStr) else True))
        else:
            obs.append((prefix + ":@%s-is-nonempty-str (%s)" % (k, type(v).__name__), isinstance(v, str) and len(v) > 0))
    d = node.data
    if d is not None:
        obs.append((prefix + ":data-is-bytes (%s)" % type(d).__name__, isinstance(d, bytes) or (isinstance(d, SymSeq) and d.kind == "bytes") or type(d).__name__ == "ZBytes"))
    for c in node.children:
        obs += codec_contract_obs(prefix + "/" + (c.tag if isinstance(c.tag, str) else "?"), c)
    return obs


def strict_eq(a, b):
    """structural equality of two concrete stanzas (tag, attributes, data, children pairwise in order).  The library's own
    ProtocolTreeNode.__eq__ is weaker: its `found` flag is never reset, so after one matching child all others count as matching."""
    if a is None or b is None:
        return a is b
    if a.tag != b.tag or dict(a.attributes) != dict(b.attributes) or a.data != b.data or len(a.children) != len(b.children):
        return False
    return all(strict_eq(x, y) for x, y in zip(a.children, b.children))


def real_codec_roundtrip_obs(prefix, node):
    """concrete mode only: push the stanza through the real encoder and decoder"""
    from yowsup.layers.coder.encoder import WriteEncoder
    from yowsup.layers.coder.decoder import ReadDecoder
    from yowsup.layers.coder.tokendictionary import TokenDictionary
    td = TokenDictionary()
    try:
        out = ReadDecoder(td).getProtocolTreeNode(bytearray(WriteEncoder(td).protocolTreeNodeToBytes(node)))
    except Exception as e:
        return [(prefix + ":codec-accepts (%s: %s)" % (type(e).__name__, str(e)[:80]), False)]
    return [(prefix + ":codec-roundtrip", strict_eq(out, node))]
