"""C14 -- one-time prekeys: none lost or re-offered between generation, upload and use.

kernel[*]   AxolotlControlLayer.adjustId on a SYMBOLIC id: 3-byte big-endian for every id < 2^24 (>= 4 bytes above);
            refill arithmetic: ids continue after the highest stored id.
history[*]  real AxolotlControlLayer + real AxolotlManager + real sqlite store + real key generation (batch 3, threshold 2)
            in the lifecycle stack of C16; the solver chooses the event history (connect, success, server key-count request,
            upload result / error, connection loss, restart); a ghost set of confirmed ids is checked after every step."""
import os, shutil, tempfile
from sx import core, hooks, harness as H
from checks import stanza_common as SC, stack_common as ST, c16

PROPERTY = "C14"
LEVEL = "model_checking"
CODE = ["yowsup/layers/axolotl/layer_control.py:on_connected/onAuthed/on_disconnected/flush_keys/on_keys_flushed/onSentKeysError/onRequestKeysEncryptNotification/adjustId/adjustArray",
        "yowsup/axolotl/manager.py:level_prekeys/load_unsent_prekeys/set_prekeys_as_sent/generate_signed_prekey/load_latest_signed_prekey",
        "yowsup/axolotl/store/sqlite/liteprekeystore.py, litesignedprekeystore.py", "yowsup/layers/axolotl/protocolentities/iq_keys_set.py"]
BOUNDS = {"quick": "[+ confirmation through {store, manager, manager with debug logging} for N<=812; existing database with 3 patterns of already uploaded keys] " 
                   "[+ confirm: N in {1, 2, 812, 998, 999, 1000, 1001, 1624, 2436} keys x first id {1, 70000}] " 
                   "[+ a contact using a key of an unanswered upload (authenticated connection only)] " 
                   "adjustId: every id in [0, 2^32); flush_keys: every value of the 32-byte keys and the 64-byte signature, ids 1..2^24-2; histories of <= 6 events with generation batch 3 / refill threshold 2", "thorough": "histories of <= 8 events (10 after a login prefix)"}
OUTSIDE = ["consumption of a prekey by an incoming first message (python-axolotl's SessionBuilder removes it; C03/C17 territory)", "id wrap-around at 2^24 (ids continue after the highest stored id; wrap is outside)",
           "server replies that arrive for an upload of a previous connection"]
ASSUMPTIONS = ["python-axolotl's HexUtil.decodeHex modelled as binascii.unhexlify (flush_keys kernel)", "small generation batch sizes (COUNT_GEN_PREKEYS=3, THRESHOLD_REGEN=2) stand for the production constants 812/10 (the code paths do not depend on the values)"]
EXPLANATION = "symbolic kernel for the id encoding + solver-driven bounded exploration of upload histories on the real layer, manager and sqlite store"

_TMP = os.environ.get("VERIF_TMP") or ("/dev/shm" if os.path.isdir("/dev/shm") else tempfile.gettempdir())


def h_adjust_id(ctx):
    from yowsup.layers.axolotl.layer_control import AxolotlControlLayer
    layer = AxolotlControlLayer()
    i = ctx.int("id", 0, 2 ** 32 - 1)
    out = layer.adjustId(i)
    n = H.length_of(out)
    items = list(out.items) if hasattr(out, "items") else list(out)
    val = 0
    for b in items:
        val = val * 256 + b
    obs = [("big-endian value of the bytes == id", core.eq(val, i)), ("every byte in 0..255", core.conj(*[core.eq((b >= 0) & (b <= 255), True) if H.sym(ctx) else 0 <= b <= 255 for b in items]))]
    return obs + [("three bytes below 2^24, four above", core.eq(n, core.ite(i < (1 << 24), 3, 4)) if H.sym(ctx) else n == (3 if i < (1 << 24) else 4))]


class _SymKey(object):
    """stand-in for a python-axolotl key record whose public key bytes are solver variables"""

    def __init__(self, ctx, name, kid, sig=False):
        self.kid = kid
        self.pub = H.symbytes(ctx, name, 32)
        self.sig = H.symbytes(ctx, name + "sig", 64) if sig else None

    def getId(self):
        return self.kid

    def getKeyPair(self):
        return self

    def getPublicKey(self):
        return self

    def serialize(self):
        return b"\x05" + self.pub

    def getSignature(self):
        return self.sig


def h_flush_keys(ctx):
    """AxolotlControlLayer.flush_keys on keys whose 32 public-key bytes are solver variables: the upload stanza carries exactly those 32 bytes
    for every one-time key, for the signed key (with its 64-byte signature) and for the identity, ids as 3-byte big-endian numbers"""
    from yowsup.layers.axolotl.layer_control import AxolotlControlLayer
    import yowsup.layers.axolotl.layer_control as LC
    if H.sym(ctx):
        class HexModel(object):
            """python-axolotl's HexUtil.decodeHex (codecs hex decoder) = binascii.unhexlify"""
            decodeHex = staticmethod(lambda x: hooks.i_unhexlify(x))
        LC.HexUtil = HexModel
    layer = AxolotlControlLayer()
    sent = []
    layer.toLower = sent.append
    ident = _SymKey(ctx, "ident", 0)

    class Mgr(object):
        registration_id = 0x01020304
        identity = ident
    layer._manager = Mgr()
    i1 = ctx.int("id1", 1, 2 ** 24 - 2)          # ids over their whole range are the adjustId kernel's subject; here they matter as dict keys
    spk = _SymKey(ctx, "spk", 7, sig=True)
    k1, k2 = _SymKey(ctx, "k1", i1), _SymKey(ctx, "k2", i1 + 1)
    layer.flush_keys(spk, [k1, k2])
    obs = [("one upload stanza", len(sent) == 1)]
    if len(sent) != 1:
        return obs
    node = sent[0]

    def be(data):
        v = 0
        for b in (list(data.items) if hasattr(data, "items") else list(data)):
            v = v * 256 + b
        return v
    keys = node.getChild("list").getAllChildren()
    obs.append(("two one-time keys", len(keys) == 2))
    for kn, k in zip(keys, (k1, k2)):
        obs.append(("key id is the 3-byte big-endian id", core.conj(core.eq(H.length_of(kn.getChild("id").data), 3), core.eq(be(kn.getChild("id").data), k.kid))))
        obs.append(("key value is the 32 public-key bytes", H.rope_eq(kn.getChild("value").data, k.pub)))
    sk = node.getChild("skey")
    obs.append(("signed key value is its 32 public-key bytes", H.rope_eq(sk.getChild("value").data, spk.pub)))
    obs.append(("signed key signature is carried unchanged", H.rope_eq(sk.getChild("signature").data, spk.sig)))
    obs.append(("signed key id", core.eq(be(sk.getChild("id").data), spk.kid)))
    obs.append(("identity is the 32 identity-key bytes", H.rope_eq(node.getChild("identity").data, ident.pub)))
    obs.append(("registration id", core.eq(be(node.getChild("registration").data), Mgr.registration_id)))
    return obs


class _World(object):
    pass


def _mk_stack(dbdir, world):
    """lifecycle stack of C16 with a REAL axolotl manager on the database in dbdir"""
    from yowsup.axolotl.manager import AxolotlManager
    from yowsup.axolotl.store.sqlite.liteaxolotlstore import LiteAxolotlStore
    AxolotlManager.COUNT_GEN_PREKEYS = 3
    AxolotlManager.THRESHOLD_REGEN = 2
    st, w, net, disp, app, iq, iqmod = c16.build(True)
    store = LiteAxolotlStore(os.path.join(dbdir, "axolotl.db"))
    mgr = AxolotlManager(store, "4915901234567")
    prof = st.getProp("profile")
    prof.axolotl_manager = mgr
    # record every stanza that goes down past the control layer
    bridge = st.getLayer(1)
    sent = []
    orig = bridge.send

    def rec_send(node):
        sent.append(node)
        return orig(node)
    bridge.send = rec_send
    from yowsup.layers.protocol_iq import YowIqProtocolLayer
    st.setProp(YowIqProtocolLayer.PROP_PING_INTERVAL, 0)
    return st, w, net, disp, app, mgr, store, sent


def _parse_upload(node):
    ids = []
    for k in node.getChild("list").getAllChildren():
        ids.append(int.from_bytes(k.getChild("id").data, "big"))
    sk = node.getChild("skey")
    return dict(ids=ids, id_lens=[len(k.getChild("id").data) for k in node.getChild("list").getAllChildren()],
                keys={int.from_bytes(k.getChild("id").data, "big"): k.getChild("value").data for k in node.getChild("list").getAllChildren()},
                identity=node.getChild("identity").data, registration=node.getChild("registration").data,
                skey=(sk.getChild("id").data, sk.getChild("value").data, sk.getChild("signature").data))


def _verify_sig(identity32, spk_pub32, sig):
    from axolotl.ecc.curve import Curve
    from axolotl.ecc.djbec import DjbECPublicKey
    try:
        return Curve.verifySignature(DjbECPublicKey(bytes(identity32)), b"\x05" + bytes(spk_pub32), bytes(sig))
    except Exception:
        return False


def _K(rec):
    """a one-time key is identified by its id AND its key material (an id may be reused for a new key once the old one is consumed)"""
    return (rec.getId(), bytes(rec.getKeyPair().getPublicKey().serialize()[1:]))


def _stored(store):
    return set(_K(r) for r in store.loadPreKeys())


def _committed_keys(d):
    """(id, key material) of the one-time keys a process started now would find (committed state)"""
    import sqlite3
    from axolotl.state.prekeyrecord import PreKeyRecord
    c = sqlite3.connect(os.path.join(d, "axolotl.db"))
    try:
        return set(_K(PreKeyRecord(serialized=bytes(r[0]))) for r in c.execute("SELECT record FROM prekeys").fetchall())
    finally:
        c.close()


def _committed_prekey_ids(d):
    import sqlite3
    c = sqlite3.connect(os.path.join(d, "axolotl.db"))
    try:
        return set(r[0] for r in c.execute("SELECT prekey_id FROM prekeys").fetchall())
    finally:
        c.close()


def _peer_first_message(d, mgr, store, kid, step):
    """a contact fetches my bundle with one-time key `kid` and sends a first message: python-axolotl consumes the key"""
    from yowsup.axolotl.manager import AxolotlManager
    from yowsup.axolotl.store.sqlite.liteaxolotlstore import LiteAxolotlStore
    from axolotl.state.prekeybundle import PreKeyBundle
    import yowsup.axolotl.manager as mm
    from checks import c17
    mm.random = c17._FixedRandom
    peer = AxolotlManager(LiteAxolotlStore(os.path.join(d, "peer%d.db" % step)), "4915900000%03d" % step)
    pk = store.loadPreKey(kid)
    spk = mgr.load_latest_signed_prekey(generate=True)
    bundle = PreKeyBundle(mgr.registration_id, 1, pk.getId(), pk.getKeyPair().getPublicKey(), spk.getId(), spk.getKeyPair().getPublicKey(), spk.getSignature(), mgr.identity.getPublicKey())
    peer.create_session("4915901234567", bundle)
    ct = peer.encrypt("4915901234567", b"first message")
    mgr.decrypt_pkmsg("4915900000%03d" % step, ct.serialize(), True)
    peer._store.identityKeyStore.dbConn.close()


@ST.deterministic("c14-h_history")
def h_history(ctx, n, prefix=()):
    d = tempfile.mkdtemp(prefix="c14_", dir=_TMP)
    try:
        N = SC.N()
        world = _World()
        st, w, net, disp, app, mgr, store, sent = _mk_stack(d, world)
        confirmed, offered_ever = set(), set()
        outstanding = []          # [(iq id, ids)] uploads awaiting their reply on this connection, oldest first
        consumed = set()
        authed = False
        hist, obs = [], []
        for step in range(n):
            possible = []
            if disp.state == "idle":
                possible.append("connect")
            if disp.state == "up" and not authed:
                possible.append("success")
            if disp.state == "up" and authed:
                possible.append("server-asks-for-keys")
            if disp.state == "up" and outstanding:
                possible += ["upload-result", "upload-error"]
                if len(outstanding) > 1:
                    possible.append("upload-result-newest")
            if (confirmed - consumed):
                possible.append("peer-first-message")
                if len(confirmed - consumed) > 1:
                    possible.append("peer-first-message-highest-key")
            if disp.state == "up" and authed and (offered_ever - confirmed - consumed) & _stored(store):
                # the server has the keys of an upload from the moment the stanza arrives, whether or not its answer reaches the client;
                # the contact's message can only be delivered on an authenticated connection
                possible.append("peer-first-message-unconfirmed-key")
            if disp.state == "up":
                possible.append("connection-loss")
            possible += ["restart", "stop"]
            if step < len(prefix):
                ev = prefix[step] if prefix[step] in possible else "stop"
            else:
                ev = ctx.choice("e%d" % step, possible)
            if ev == "stop":
                break
            hist.append(ev)
            mark = len(sent)
            tag = "#%d %s" % (step, ev)
            unsent_before = set(_K(r) for r in store.preKeyStore.loadUnsentPendingPreKeys())
            raised = None
            out0 = None
            try:
                if ev == "connect":
                    app.connect()
                    disp.state = "up"
                    net.onConnected()
                elif ev == "success":
                    net.receive(N("success", {"t": "1400000000", "props": "4", "creation": "1300000000", "expiration": "1500000000", "kind": "free", "status": "active"}, None, b"x"))
                    authed = True
                elif ev == "server-asks-for-keys":
                    net.receive(N("notification", {"id": "n%d" % step, "from": "s.whatsapp.net", "type": "encrypt", "t": "1400000000"}, [N("count", {"value": "1"})]))
                elif ev in ("upload-result", "upload-result-newest"):
                    out0 = outstanding.pop(0 if ev == "upload-result" else -1)
                    net.receive(N("iq", {"id": out0[0], "type": "result", "from": "s.whatsapp.net"}))
                elif ev == "upload-error":
                    out0 = outstanding.pop(0)
                    net.receive(N("iq", {"id": out0[0], "type": "error", "from": "s.whatsapp.net"}, [N("error", {"code": "500", "text": "internal"})]))
                elif ev in ("peer-first-message", "peer-first-message-highest-key", "peer-first-message-unconfirmed-key"):
                    # which of the offered keys the server hands to the contact is the server's choice: oldest or newest
                    if ev == "peer-first-message-unconfirmed-key":
                        kkey = sorted((offered_ever - confirmed - consumed) & _stored(store))[1:2] or sorted((offered_ever - confirmed - consumed) & _stored(store))[:1]
                        kkey = kkey[0]
                    else:
                        kkey = sorted(confirmed - consumed)[0 if ev == "peer-first-message" else -1]
                    kid = kkey[0]
                    _peer_first_message(d, mgr, store, kid, step)
                    consumed.add(kkey)
                elif ev == "connection-loss":
                    disp.state = "idle"
                    net.onDisconnected()
                elif ev == "restart":
                    if disp.state == "up":
                        disp.state = "idle"
                    for c in [store.identityKeyStore.dbConn]:
                        c.close()
                    st, w, net, disp, app, mgr, store, sent = _mk_stack(d, world)
                    mark = 0
                    authed, outstanding = False, []
            except Exception as e:
                raised = e
            c16.run_loop(st)
            if ev in ("connection-loss", "restart") or disp.state != "up":
                authed = authed and disp.state == "up"
                if disp.state != "up":
                    outstanding = []
            # a result reply that the layer turns into a reconnect (passive login finished)
            if ev in ("peer-first-message", "peer-first-message-highest-key", "peer-first-message-unconfirmed-key"):
                obs.append((tag + ": a consumed one-time key is gone from the store", kkey not in _stored(store)))
                obs.append((tag + ": ... also for a process started now (committed state)", kkey not in _committed_keys(d)))
            if ev in ("upload-result", "upload-result-newest"):
                obs.append((tag + ": confirmed ids are marked as uploaded in the store",
                            set(out0[1]) & set(_K(r) for r in store.preKeyStore.loadUnsentPendingPreKeys()) == set()))
                confirmed |= set(out0[1])
                if disp.state != "up":
                    authed = False
            if ev == "upload-error":
                obs.append((tag + ": rejection is reported", raised is not None))
                obs.append((tag + ": rejected keys stay pending (unless used up meanwhile)", set(out0[1]) - consumed <= set(_K(r) for r in store.preKeyStore.loadUnsentPendingPreKeys())))
                raised = None
            if raised is not None:
                obs.append((tag + ": no exception (%s: %s)" % (type(raised).__name__, str(raised)[:80]), False))
            uploads = [x for x in sent[mark:] if x.tag == "iq" and x.getChild("list") is not None]
            for u in uploads:
                p = _parse_upload(u)
                pk = set((i, bytes(p["keys"][i])) for i in p["ids"])
                offered_ever |= pk
                obs.append((tag + ": no confirmed key is offered again (%s)" % sorted(i for i, _ in pk & confirmed), not (pk & confirmed)))
                # an id may be used for a new key only after the key that had it was consumed
                live = dict((i, k) for (i, k) in (offered_ever - consumed) if (i, k) not in pk)
                obs.append((tag + ": an id offered for a new key is not the id of another offered key that is still waiting to be used", not any(i in live for i, _ in pk)))
                obs.append((tag + ": every offered id maps to a key stored locally", all(store.containsPreKey(i) for i in p["ids"]) and pk <= _stored(store)))
                obs.append((tag + ": offered public keys are the stored ones", all(bytes(p["keys"][i]) == store.loadPreKey(i).getKeyPair().getPublicKey().serialize()[1:] for i in p["ids"] if store.containsPreKey(i))))
                obs.append((tag + ": ids are 3-byte big-endian, keys 32 bytes", all(l == 3 for l in p["id_lens"]) and all(len(v) == 32 for v in p["keys"].values())))
                obs.append((tag + ": carries the identity key", bytes(p["identity"]) == mgr.identity.getPublicKey().serialize()[1:]))
                obs.append((tag + ": carries the registration id", int.from_bytes(p["registration"], "big") == mgr.registration_id))
                obs.append((tag + ": signed prekey signature verifies under the identity", _verify_sig(p["identity"], p["skey"][1], p["skey"][2])))
                outstanding.append((hooks.dict_get(u.attributes, "id"), sorted(pk)))
            if ev == "success":
                # authenticated login: everything generated and not confirmed must be offered now
                pending = unsent_before
                if pending:
                    offered_now = set((i, bytes(k)) for u in uploads for i, k in _parse_upload(u)["keys"].items())
                    obs.append((tag + ": keys whose upload was never confirmed are offered at this login (pending %s, offered %s)" % (sorted(i for i, _ in pending), sorted(i for i, _ in offered_now)),
                                pending <= offered_now))
            if ev == "connect":
                unsent = set(_K(r) for r in store.preKeyStore.loadUnsentPendingPreKeys())
                obs.append((tag + ": confirmed keys never count as pending", not (unsent & confirmed)))
            allkeys = _stored(store)
            obs.append((tag + ": offered keys stay available locally until consumed", (offered_ever - consumed) <= allkeys))
            obs.append((tag + ": consumed keys never come back", not (consumed & allkeys) and not (consumed & _committed_keys(d))))
            unsent_now = set(_K(r) for r in store.preKeyStore.loadUnsentPendingPreKeys())
            obs.append((tag + ": a confirmed key never counts as pending again", not (unsent_now & confirmed)))
        ctx.note("history %s" % hist)
        try:
            store.identityKeyStore.dbConn.close()
        except Exception:
            pass
        return obs
    finally:
        shutil.rmtree(d, ignore_errors=True)


def h_confirm_many(ctx):
    """a confirmed upload of N keys (N from the solver's list, around sqlite's statement limits: the default batch is 812, two or three
    batches can pile up while no answer arrives): afterwards NONE of them counts as pending and nothing else changed.  Real store on
    real sqlite3 (the operation is a loop / statement over the id list; only its size matters)"""
    import sqlite3
    from checks import c13
    import yowsup.axolotl.store.sqlite.liteaxolotlstore as m
    n = ctx.choice("n_keys", [1, 2, 812, 998, 999, 1000, 1001, 1624, 2436])
    others = 3
    d = tempfile.mkdtemp(prefix="c14m_", dir=_TMP)
    try:
        store = m.LiteAxolotlStore(os.path.join(d, "axolotl.db"))
        conn = store.preKeyStore.dbConn
        base = ctx.choice("first_id", [1, 70000])
        cur = conn.cursor()
        for i in range(n + others):
            cur.execute("INSERT INTO prekeys (prekey_id, record) VALUES(?,?)", (base + i, sqlite3.Binary(b"rec%d" % i)))
        conn.commit()
        ids = [base + i for i in range(n)]
        via = ctx.choice("confirmed_through", ["the store", "the manager", "the manager, debug logging on"]) if n <= 812 else "the store"
        if via == "the store":
            store.preKeyStore.setAsSent(ids)
        else:
            import logging
            from yowsup.axolotl.manager import AxolotlManager

            class K(object):
                def __init__(self, i):
                    self.i = i

                def getId(self):
                    return self.i
            mgr = AxolotlManager(store, "4915900000001")
            lg = logging.getLogger("yowsup")
            saved = (lg.level, logging.root.manager.disable, lg.propagate)
            handler = logging.NullHandler()
            if via.endswith("debug logging on"):
                # what the command line client's --debug switch does: the library's logger at DEBUG (records are produced and formatted)
                lg.setLevel(logging.DEBUG)
                logging.disable(logging.NOTSET)
                lg.addHandler(handler)
                lg.propagate = False
            try:
                mgr.set_prekeys_as_sent([K(i) for i in ids])
            finally:
                lg.setLevel(saved[0])
                logging.disable(saved[1])
                lg.removeHandler(handler)
                lg.propagate = saved[2]
        conn.close()
        c2 = sqlite3.connect(os.path.join(d, "axolotl.db"))
        pending = sorted(r[0] for r in c2.execute("SELECT prekey_id FROM prekeys WHERE sent_to_server is NULL or sent_to_server = 0").fetchall())
        total = c2.execute("SELECT count(*) FROM prekeys").fetchone()[0]
        c2.close()
        still = [i for i in pending if i < base + n]
        return [("none of the %d confirmed keys is still pending after a restart (%d are, first %s)" % (n, len(still), still[:1]), not still),
                ("keys that were not part of the upload stay pending, no key is lost", pending[-others:] == [base + n + j for j in range(others)] and total == n + others)]
    finally:
        shutil.rmtree(d, ignore_errors=True)


RELEASED_PREKEY_TABLE = ("CREATE TABLE IF NOT EXISTS prekeys (_id INTEGER PRIMARY KEY AUTOINCREMENT,"
                         "prekey_id INTEGER UNIQUE, sent_to_server BOOLEAN, record BLOB);")          # the table as released installations created it


def h_existing_database(ctx):
    """a key store file that an installation of the released version left behind (its prekeys table, keys stored without an upload flag,
    some flagged as uploaded): opened by this tree, exactly the keys not flagged as uploaded count as pending; marking more as sent and
    reopening keeps the bookkeeping"""
    import sqlite3
    from axolotl.util.keyhelper import KeyHelper
    import yowsup.axolotl.store.sqlite.liteaxolotlstore as m
    d = tempfile.mkdtemp(prefix="c14e_", dir=_TMP)
    try:
        path = os.path.join(d, "axolotl.db")
        c = sqlite3.connect(path)
        c.execute(RELEASED_PREKEY_TABLE)
        recs = KeyHelper.generatePreKeys(1, 6)
        sent = ctx.choice("already_uploaded", [(), (1, 2), (1, 2, 3, 4, 5, 6)])
        for r in recs:
            c.execute("INSERT INTO prekeys (prekey_id, record) VALUES(?,?)", (r.getId(), sqlite3.Binary(r.serialize())))
        for i in sent:
            c.execute("UPDATE prekeys SET sent_to_server = ? WHERE prekey_id = ?", (1, i))
        c.commit()
        c.close()
        store = m.LiteAxolotlStore(path)
        pending = sorted(r.getId() for r in store.preKeyStore.loadUnsentPendingPreKeys())
        want = [r.getId() for r in recs if r.getId() not in sent]
        obs = [("the keys the earlier installation never saw confirmed are pending (%s)" % pending, pending == want)]
        if want:
            store.preKeyStore.setAsSent(want[:1])
            store.preKeyStore.dbConn.close()
            store2 = m.LiteAxolotlStore(path)
            obs.append(("after one more confirmation and a restart the rest is still pending", sorted(r.getId() for r in store2.preKeyStore.loadUnsentPendingPreKeys()) == want[1:]))
            store2.preKeyStore.dbConn.close()
        return obs
    finally:
        shutil.rmtree(d, ignore_errors=True)


def cases(tier):
    q = tier == "quick"
    n = 6 if q else 9
    cs = [dict(name="existing-database[prekeys table of the released version]", fn=ST.deterministic("c14-existing")(h_existing_database) if hasattr(ST, "deterministic") else h_existing_database, keep_samples=6),
          dict(name="confirm[N keys in one upload]", fn=h_confirm_many, keep_samples=18), dict(name="kernel[adjustId]", fn=h_adjust_id), dict(name="kernel[flush_keys,symbolic key bytes]", fn=h_flush_keys, timeout_s=600)]
    cs.append(dict(name="history[len<=%d]" % (n - 1), fn=h_history, args=(n - 1,), max_paths=400000, timeout_s=900 if q else 3400, keep_samples=8, weight=100))
    for third in ("server-asks-for-keys", "upload-result", "upload-error", "connection-loss", "restart"):
        cs.append(dict(name="history[prefix=connect+success+%s,len<=%d]" % (third, n + 1), fn=h_history, args=(n + 1, ("connect", "success", third)), max_paths=400000,
                       timeout_s=900 if q else 3400, keep_samples=6, weight=100))
    return cs
