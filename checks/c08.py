"""C08 -- request/response correlation: each reply reaches its request's callback exactly once.

The assembled layer set (encryption + protocol layers) sits between a bottom recorder and a real YowInterfaceLayer
subclass.  step[*]: one outstanding request of each kind, a reply whose id is an UNCONSTRAINED string and whose type
is result/error, delivered twice.  history[*]: two outstanding requests of solver-chosen kinds and three deliveries
(target request or unknown id, result or error) in a solver-chosen order.  internal[*]: the library's own key upload,
key fetch and group-info requests."""
import z3
from sx import core, hooks, harness as H
from checks import stanza_common as SC, stack_common as ST, c09, c09_templates as T

PROPERTY = "C08"
LEVEL = "model_checking"
CODE = ["yowsup/layers/__init__.py:YowProtocolLayer._sendIq/processIqRegistry/receive", "yowsup/layers/interface/interface.py:_sendIq/processIqRegistry/receive",
        "sendIq/recvIq of every protocol layer", "yowsup/layers/axolotl/layer_base.py:getKeysFor", "yowsup/layers/axolotl/layer_control.py:flush_keys/on_keys_flushed",
        "yowsup/layers/axolotl/layer_send.py:sendToGroup", "yowsup/structs/protocolentity.py:_generateId"]
BOUNDS = {"quick": "[+ error reply then second reply to the success-only group-info request] " 
                   "[+ keep-alive pong at a plain and a catch-all application; histories 2 requests x 3 deliveries over {ping, last seen}] " 
                   "[+ step cases with an application declaring catch-all stanza handlers (3 kinds)] " 
                   "step: 1 outstanding request per kind (16 kinds), reply id unconstrained string, type in {result,error}, delivered twice; "
                   "history: 2 outstanding requests x 3 deliveries, kinds from 4 representatives; sync-reply: 6 kinds answered while the send is still in progress; nonreply: receipt / read receipt / ack / notification with an unconstrained id while an application request and a key upload are outstanding",
          "thorough": "[+ catch-all application for all 16 kinds] history: 3 outstanding requests x 3 deliveries (first kind fixed per case, others from 4 representatives) and 2 x 3 over 6 kinds"}
OUTSIDE = [ "id collisions through counter wrap (the counter is an unbounded int)",
           "more outstanding requests / deliveries than the bound"]
ASSUMPTIONS = ["python-axolotl replaced by an ideal manager stub", "reply bodies have the documented shape of the request kind (C09 templates)"]
EXPLANATION = "symbolic execution of the request registries in the assembled stack; reply id is a z3 string, histories are solver-chosen"


def _iface_cls(decorated=False):
    from yowsup.layers.interface import YowInterfaceLayer, ProtocolEntityCallback

    class AppIface(YowInterfaceLayer):
        def __init__(self):
            super(AppIface, self).__init__()
            self.calls = []
            self.other = []

        def toUpper(self, e):
            self.other.append(e)

        def request(self, req, tagname):
            self._sendIq(req, lambda res, orig: self.calls.append((tagname, "ok", res, orig)), lambda err, orig: self.calls.append((tagname, "err", err, orig)))
    if not decorated:
        return AppIface

    class DecoratedApp(AppIface):
        """an application that also declares catch-all handlers per stanza kind, as the library's own demo applications do"""
        @ProtocolEntityCallback("iq")
        def onIq(self, e):
            self.other.append(e)

        @ProtocolEntityCallback("message")
        def onMessage(self, e):
            self.other.append(e)

        @ProtocolEntityCallback("receipt")
        def onReceipt(self, e):
            self.other.append(e)

        @ProtocolEntityCallback("notification")
        def onNotification(self, e):
            self.other.append(e)
    return DecoratedApp


def _stack(sessions=True, decorated=False):
    # the iq layer's own lock (guarding its keep-alive bookkeeping) is a recording one: a reply path that leaves it held would
    # block every later pong for ever
    import yowsup.layers.protocol_iq.layer as iqmod
    from checks import c12
    real_lock = iqmod.Lock
    iqmod.Lock = lambda: c12.RecLock("iq layer ping-queue lock")
    try:
        return _stack2(sessions, decorated)
    finally:
        iqmod.Lock = real_lock


def _stack2(sessions=True, decorated=False):
    st, bottom, app, mgr = ST.build(enc=True, top=_iface_cls(decorated), sessions=sessions, **ST.FLAG_SETS["all"])
    from yowsup.layers.protocol_iq import YowIqProtocolLayer
    st.setProp(YowIqProtocolLayer.PROP_PING_INTERVAL, 0)
    return st, bottom, app, mgr


J, J2, G = T.J, T.J2, T.G


def _request(kind):
    """-> (request entity, result body children factory)"""
    N = SC.N()
    c = T._cls
    if kind == "ping":
        return c("protocol_iq.protocolentities.iq_ping.PingIqProtocolEntity")(), lambda: []
    if kind == "lastseen":
        return c("protocol_presence.protocolentities.iq_lastseen.LastseenIqProtocolEntity")(J), lambda: [N("query", {"seconds": "77"})]
    if kind == "picture-get":
        return c("protocol_profiles.protocolentities.iq_picture_get.GetPictureIqProtocolEntity")(J), lambda: [N("picture", {"type": "preview", "id": "123"}, None, b"\xff\xd8")]
    if kind == "statuses-get":
        return c("protocol_profiles.protocolentities.iq_statuses_get.GetStatusesIqProtocolEntity")([J]), lambda: [N("status", {}, [N("user", {"jid": J, "t": "1400000000"}, None, b"busy")])]
    if kind == "status-set":
        return c("protocol_profiles.protocolentities.iq_status_set.SetStatusIqProtocolEntity")(b"busy"), lambda: []
    if kind == "privacy-get":
        return c("protocol_profiles.protocolentities.iq_privacy_get.GetPrivacyIqProtocolEntity")(), lambda: [N("privacy", {}, [N("category", {"name": "last", "value": "all"})])]
    if kind == "groups-list":
        return c("protocol_groups.protocolentities.iq_groups_list.ListGroupsIqProtocolEntity")(), lambda: [N("groups", {}, [])]
    if kind == "group-info":
        return c("protocol_groups.protocolentities.iq_groups_info.InfoGroupsIqProtocolEntity")(G), lambda: [N("group", {"subject": "s", "creation": "1400000000", "creator": J, "s_t": "1400000001", "id": "4915901234567-1400000000", "s_o": J}, [N("participant", {"jid": J, "type": "admin"})])]
    if kind == "group-create":
        return c("protocol_groups.protocolentities.iq_groups_create.CreateGroupsIqProtocolEntity")("subj", participants=[J]), lambda: [N("group", {"id": "4915901234567-1400000000"})]
    if kind == "group-leave":
        return c("protocol_groups.protocolentities.iq_groups_leave.LeaveGroupsIqProtocolEntity")([G]), lambda: [N("leave", {}, [N("group", {"id": G})])]
    if kind == "group-participants":
        return c("protocol_groups.protocolentities.iq_groups_participants.ParticipantsGroupsIqProtocolEntity")(G, [J], "add") if False else \
            c("protocol_groups.protocolentities.iq_groups_participants_add.AddParticipantsIqProtocolEntity")(G, [J]), lambda: [N("add", {"type": "success", "participant": J})]
    if kind == "group-promote":
        return c("protocol_groups.protocolentities.iq_groups_participants_promote.PromoteParticipantsIqProtocolEntity")(G, [J]), lambda: []
    if kind == "group-subject":
        return c("protocol_groups.protocolentities.iq_groups_subject.SubjectGroupsIqProtocolEntity")(G, b"new"), lambda: []
    if kind == "contact-sync":
        return c("protocol_contacts.protocolentities.iq_sync_get.GetSyncIqProtocolEntity")(["4915901234567"]), \
            lambda: [N("sync", {"index": "0", "last": "true", "version": "1", "sid": "123"}, [N("in", {}, [N("user", {"jid": J}, None, b"4915901234567")])])]
    if kind == "media-upload":
        return c("protocol_media.protocolentities.iq_requestupload.RequestUploadIqProtocolEntity")("image", "hash", "123"), lambda: [N("encr_media", {"url": "https://mmg/x", "ip": "1.2.3.4"})]
    if kind == "media-upload-duplicate":          # the server already has the file: the other documented form of the answer
        return c("protocol_media.protocolentities.iq_requestupload.RequestUploadIqProtocolEntity")("image", "hash", "123"), lambda: [N("duplicate", {"url": "https://mmg/x"})]
    if kind == "group-participants-list":
        return c("protocol_groups.protocolentities.iq_groups_participants.ParticipantsGroupsIqProtocolEntity")(G, [J], "add"), lambda: [N("participant", {"jid": J})]
    raise ValueError(kind)


KINDS = ("ping", "lastseen", "picture-get", "statuses-get", "status-set", "privacy-get", "groups-list", "group-info", "group-create", "group-leave",
         "group-participants", "group-promote", "group-subject", "contact-sync", "media-upload", "media-upload-duplicate", "group-participants-list")


def _reply(rid, rtype_is_result, body, xmlns=None):
    N = SC.N()
    # the type arrives as a string made at run time (a peer may send it as a plain string instead of a dictionary token): equal to
    # the library's constant, not the same object
    rtype = "".join(list("result" if rtype_is_result else "error"))
    attrs = {"id": rid, "type": rtype, "from": "s.whatsapp.net"}
    kids = body() if rtype_is_result else [N("error", {"code": "404", "text": "item-not-found"})]
    return N("iq", attrs, kids)


def _counts(app, tagname):
    ok = [c for c in app.calls if c[0] == tagname and c[1] == "ok"]
    err = [c for c in app.calls if c[0] == tagname and c[1] == "err"]
    return ok, err


def h_step(ctx, kind, decorated=False):
    st, bottom, app, mgr = _stack(decorated=decorated)
    req, body = _request(kind)
    app.request(req, "r")
    obs = [("request-left-the-stack-once (got %d)" % len(bottom.down), len(bottom.down) == 1)]
    if len(bottom.down) != 1:
        return obs
    sent_id = hooks.dict_get(bottom.down[0].attributes, "id")
    rid = H.zstr(ctx, "rid")
    is_result = ctx.flag("reply_is_result")
    match = core.eq(rid, sent_id)
    bottom.inject(_reply(rid, is_result, body))
    ok, err = _counts(app, "r")
    want_ok = core.conj(match, is_result)
    want_err = core.conj(match, not is_result)
    obs.append(("success-callback-iff-matching-result", _iff(len(ok) == 1, want_ok)))
    obs.append(("error-callback-iff-matching-error", _iff(len(err) == 1, want_err)))
    obs.append(("no-callback-twice", len(ok) <= 1 and len(err) <= 1 and len(ok) + len(err) <= 1))
    obs.append(("original-request-attached", all(c[3] is req for c in app.calls)))
    before = len(app.calls)
    n_other = len(app.other)
    bottom.inject(_reply(rid, is_result, body))
    obs.append(("replayed-reply-invokes-no-callback", len(app.calls) == before))
    obs.append(("replayed-reply-at-most-an-ordinary-stanza", len(app.other) - n_other <= 1))
    return obs


def h_keepalive_pong(ctx, decorated):
    """the library's own keep-alive ping (sent by the iq layer, registered in ITS registry) is answered: the application has no request of
    that id, so the pong is an ordinary stanza for it -- delivered once, no callback; an application request outstanding meanwhile is untouched"""
    from yowsup.layers.protocol_iq.protocolentities import PingIqProtocolEntity
    st, bottom, app, mgr = _stack(decorated=decorated)
    iq = [s_ for s_ in st.getLayer(2).sublayers if type(s_).__name__ == "YowIqProtocolLayer"][0] if False else None
    for pos in range(8):
        try:
            layer = st.getLayer(pos)
        except IndexError:
            break
        for s_ in getattr(layer, "sublayers", ()):
            if type(s_).__name__ == "YowIqProtocolLayer":
                iq = s_
    req, body = _request("lastseen")
    app.request(req, "r")
    n0 = len(bottom.down)
    ping = PingIqProtocolEntity()
    iq.waitPong(ping.getId())                 # what the keep-alive thread does each period
    iq.sendIq(ping)
    sent = [n for n in bottom.down[n0:] if n.tag == "iq"]
    obs = [("keep-alive ping leaves once", len(sent) == 1)]
    if len(sent) != 1:
        return obs
    rid = H.zstr(ctx, "rid")
    is_result = ctx.flag("reply_is_result")
    match = core.eq(rid, hooks.dict_get(sent[0].attributes, "id"))
    app_id = hooks.dict_get(bottom.down[n0 - 1].attributes, "id")
    ctx.assume(rid != app_id)
    before = len(app.other)
    bottom.inject(_reply(rid, is_result, lambda: []))
    obs.append(("no application callback for the library's own ping", not app.calls))
    obs.append(("the answer to the library's own ping reaches the application once as an ordinary stanza, any other id does not (%d)" % (len(app.other) - before),
                _iff(len(app.other) - before == 1, match)))
    bottom.inject(_reply(app_id, True, body))
    ok, err = _counts(app, "r")
    obs.append(("the application's own request is still answered afterwards", len(ok) == 1 and not err))
    return obs


def h_two_stacks(ctx):
    """two stacks live in one process (two accounts): a reply that arrives on connection B with an unconstrained id -- possibly the id of a
    request outstanding on A -- runs none of A's callbacks; A's genuine reply afterwards still does, exactly once"""
    stA, bottomA, appA, mgrA = _stack()
    stB, bottomB, appB, mgrB = _stack()
    N = SC.N()
    reqA, bodyA = _request("lastseen")
    appA.request(reqA, "a")
    bottomA.inject(N("notification", {"id": "n1", "from": "s.whatsapp.net", "type": "encrypt", "t": "1400000000"}, [N("count", {"value": "3"})]))
    iqsA = [n for n in bottomA.down if n.tag == "iq"]
    if len(iqsA) != 2:
        return [("two requests outstanding on the first stack (got %d)" % len(iqsA), False)]
    idA, upA = hooks.dict_get(iqsA[0].attributes, "id"), hooks.dict_get(iqsA[1].attributes, "id")
    rid = H.zstr(ctx, "rid")
    is_result = ctx.flag("reply_is_result")
    raised = None
    try:
        bottomB.inject(_reply(rid, is_result, bodyA))
    except Exception as e:
        raised = e
    marked = [c for c in mgrA.calls if c[0] == "set_prekeys_as_sent"]
    obs = [("a reply on another connection runs no callback of this stack (%s)" % [c[:2] for c in appA.calls], not appA.calls and not marked and raised is None and not appB.calls)]
    bottomA.inject(_reply(idA, True, bodyA))
    bottomA.inject(_reply(upA, True, lambda: []))
    ok, err = _counts(appA, "a")
    obs.append(("the genuine reply on the right connection still reaches its callback exactly once (got %d)" % len(ok), len(ok) == 1 and not err))
    obs.append(("the genuine key-upload reply is still honoured exactly once", len([c for c in mgrA.calls if c[0] == "set_prekeys_as_sent"]) == 1))
    return obs


def h_internal_groupinfo_error(ctx):
    """the library's own group-info request (first message to a group without a sender key) is registered with a success continuation only:
    an error reply to it runs nothing -- in particular not the success continuation on the error stanza"""
    st, bottom, app, mgr = _stack()

    class NoKey(object):
        def isEmpty(self):
            return True
    mgr.load_senderkey = lambda gid: NoKey()
    text = T._cls("protocol_messages.protocolentities.message_text.TextMessageProtocolEntity")("hi", to=G)
    app.toLower(text)
    iqs = [n for n in bottom.down if n.tag == "iq"]
    obs = [("one group-info request (got %d)" % len(iqs), len(iqs) == 1)]
    if len(iqs) != 1:
        return obs
    rid = H.zstr(ctx, "rid")
    n0 = len(bottom.down)
    raised = None
    try:
        bottom.inject(_reply(rid, False, lambda: []))
    except Exception as e:
        raised = e
    obs.append(("an error reply (any id) to the group-info request runs no continuation: nothing is sent, nothing raises (%s)" % (type(raised).__name__ if raised else None),
                raised is None and len(bottom.down) == n0))
    # the error reply with the request's id ANSWERED the request: it does not surface as an ordinary stanza, and a later (replayed /
    # second) reply with that id finds no request any more -- the success continuation does not run on it
    sent_id = hooks.dict_get(iqs[0].attributes, "id")
    match = core.eq(rid, sent_id)
    obs.append(("the matching error reply is consumed by the registry (does not reach the application as an ordinary stanza)", z3.Implies(match, z3.BoolVal(len(app.other) == 0)) if not isinstance(match, bool) else (len(app.other) == 0 or not match)))
    matched = match if isinstance(match, bool) else bool(core.SymBool(match))
    if matched:
        n1 = len(bottom.down)
        try:
            bottom.inject(_reply(sent_id, True, lambda: [SC.N()("group", {"subject": "s", "creation": "1400000000", "creator": J, "s_t": "1400000001", "id": "1-2", "s_o": J},
                                                                [SC.N()("participant", {"jid": J, "type": "admin"}), SC.N()("participant", {"jid": J2})])]))
        except AttributeError:
            pass              # a continuation that ran got as far as the stand-in manager: counted below through what it sent / asked for
        later = bottom.down[n1:]
        ran = [c for c in mgr.calls if c[0] in ("group_create_skmsg", "group_encrypt")]
        obs.append(("a second reply with the id of the already answered request runs no continuation (%d stanzas sent, %d encryption calls)" % (len(later), len(ran)), len(later) == 0 and not ran))
    return obs


def h_sync_reply(ctx, kind, via):
    """the reply arrives while the requesting thread is still inside its send (a fast peer's answer delivered by the network thread, or a
    loopback transport): it must find the request registered.  via="interface": the application-level registry; via="plain": a plain
    application layer on top, the protocol layers' own registries turn the result into an entity"""
    if via == "interface":
        st, bottom, app, mgr = _stack()
    else:
        st, bottom, app, mgr = ST.build(enc=True, **ST.FLAG_SETS["all"])
        from yowsup.layers.protocol_iq import YowIqProtocolLayer
        st.setProp(YowIqProtocolLayer.PROP_PING_INTERVAL, 0)
    req, body = _request(kind)
    is_result = ctx.flag("reply_is_result")
    orig_send = bottom.send
    answered = []

    def send(node):
        orig_send(node)
        if node.tag == "iq" and not answered:
            answered.append(node)
            bottom.inject(_reply(hooks.dict_get(node.attributes, "id"), is_result, body))
    bottom.send = send
    raised = None
    try:
        if via == "interface":
            app.request(req, "r")
        else:
            app.toLower(req)
    except Exception as e:
        raised = e
    obs = [("the request leaves once and is answered during the send", len(answered) == 1)]
    if via == "interface":
        ok, err = _counts(app, "r")
        obs.append(("a reply delivered during the send reaches the callback exactly once (ok %d, err %d)" % (len(ok), len(err)),
                    (len(ok), len(err)) == ((1, 0) if is_result else (0, 1)) and raised is None))
        obs.append(("... and does not also surface as an ordinary stanza", len(app.other) == 0))
    elif is_result:
        obs.append(("a result delivered during the send surfaces as exactly one entity (got %d)" % len(app.up), len(app.up) == 1 and raised is None))
    return obs


def _iff(concrete, term):
    if isinstance(term, bool):
        return concrete == term
    return z3.BoolVal(concrete) == term


def h_history(ctx, n_req, n_del, kinds):
    st, bottom, app, mgr = _stack()
    reqs = []
    for i in range(n_req):
        k = ctx.choice("kind%d" % i, kinds)
        req, body = _request(k)
        before = len(bottom.down)
        app.request(req, "r%d" % i)
        if len(bottom.down) != before + 1:
            return [("request-%d-left-the-stack-once" % i, False)]
        reqs.append((req, body, hooks.dict_get(bottom.down[-1].attributes, "id")))
    obs = [("ids-distinct", len(set(r[2] for r in reqs)) == len(reqs))]
    first = {}
    for d in range(n_del):
        target = ctx.choice("target%d" % d, list(range(n_req)) + ["unknown"])
        is_result = ctx.flag("result%d" % d)
        if target == "unknown":
            rid = H.zstr(ctx, "unk%d" % d)
            for r in reqs:
                ctx.assume(rid != r[2])
            bottom.inject(_reply(rid, is_result, lambda: []))
        else:
            first.setdefault(target, is_result)
            bottom.inject(_reply(reqs[target][2], is_result, reqs[target][1]))
    for i, (req, body, rid) in enumerate(reqs):
        ok, err = _counts(app, "r%d" % i)
        exp_ok = 1 if first.get(i) is True else 0
        exp_err = 1 if first.get(i) is False else 0
        obs.append(("r%d:success-callbacks==%d (got %d)" % (i, exp_ok, len(ok)), len(ok) == exp_ok))
        obs.append(("r%d:error-callbacks==%d (got %d)" % (i, exp_err, len(err)), len(err) == exp_err))
        obs.append(("r%d:original-attached" % i, all(c[3] is req for c in ok + err)))
    return obs


# ---- library-internal requests --------------------------------------------------------------------------------------
def h_internal_keyupload(ctx):
    """server asks for keys -> SetKeysIq; result => prekeys marked as sent exactly once; duplicate/unknown replies: nothing"""
    st, bottom, app, mgr = _stack()
    N = SC.N()
    bottom.inject(N("notification", {"id": "n1", "from": "s.whatsapp.net", "type": "encrypt", "t": "1400000000"}, [N("count", {"value": "3"})]))
    iqs = [n for n in bottom.down if n.tag == "iq"]
    obs = [("one-upload-request (got %d)" % len(iqs), len(iqs) == 1)]
    if len(iqs) != 1:
        return obs
    sent_id = hooks.dict_get(iqs[0].attributes, "id")
    rid = H.zstr(ctx, "rid")
    is_result = ctx.flag("reply_is_result")
    raised = False
    try:
        bottom.inject(_reply(rid, is_result, lambda: []))
    except Exception as e:
        raised = "not accepted" in str(e)
        if not raised:
            raise
    marked = [c for c in mgr.calls if c[0] == "set_prekeys_as_sent"]
    match = core.eq(rid, sent_id)
    obs.append(("marked-sent-iff-matching-result", _iff(len(marked) == 1, core.conj(match, is_result))))
    obs.append(("error-reported-iff-matching-error", _iff(raised, core.conj(match, not is_result))))
    try:
        bottom.inject(_reply(rid, is_result, lambda: []))
        obs.append(("replayed-reply-has-no-effect", len([c for c in mgr.calls if c[0] == "set_prekeys_as_sent"]) == len(marked)))
    except Exception as e:
        obs.append(("replayed-reply-has-no-effect (%s)" % type(e).__name__, False))
    return obs


def h_internal_keyfetch(ctx):
    """message to a contact without session -> GetKeysIq; result => one session created and the message sent once"""
    st, bottom, app, mgr = _stack(sessions=False)
    created = []
    mgr.create_session = lambda rid_, bundle, autotrust=False: created.append(rid_)
    text = T._cls("protocol_messages.protocolentities.message_text.TextMessageProtocolEntity")("hi", to=J)
    app.toLower(text)
    iqs = [n for n in bottom.down if n.tag == "iq"]
    obs = [("one-key-request (got %d)" % len(iqs), len(iqs) == 1), ("message-not-sent-before-keys", len([n for n in bottom.down if n.tag == "message"]) == 0)]
    if len(iqs) != 1:
        return obs
    sent_id = hooks.dict_get(iqs[0].attributes, "id")
    found, _ = c09.discover()
    fx = [c09._load_fixture(m, c)[1] for m, c, _l, _d in found if c == "ResultGetKeysIqProtocolEntityTest"][0]
    user = fx.getChild("list").children[0]
    PTN = SC.N()

    def body():
        return [PTN("list", {}, [PTN("user", {"jid": J}, list(user.children))])]
    rid = H.zstr(ctx, "rid")
    is_result = ctx.flag("reply_is_result")
    match = core.eq(rid, sent_id)
    mgr.sessions = True
    bottom.inject(_reply(rid, is_result, body))
    msgs = [n for n in bottom.down if n.tag == "message"]
    obs.append(("session-created-iff-matching-result", _iff(len(created) == 1, core.conj(match, is_result))))
    obs.append(("message-sent-once-iff-matching-result", _iff(len(msgs) == 1, core.conj(match, is_result))))
    bottom.inject(_reply(rid, is_result, body))
    obs.append(("replayed-reply-has-no-effect", len(created) <= 1 and len([n for n in bottom.down if n.tag == "message"]) == len(msgs)))
    return obs


def h_nonreply(ctx):
    """outstanding: one application request and the library's own key upload.  A stanza that is NOT a reply (receipt, ack,
    notification) arrives with an unconstrained id -- possibly the id of an outstanding request: no callback runs, it is
    handled as an ordinary stanza, and the genuine replies still reach their callbacks afterwards"""
    st, bottom, app, mgr = _stack()
    N = SC.N()
    bottom.inject(N("notification", {"id": "n1", "from": "s.whatsapp.net", "type": "encrypt", "t": "1400000000"}, [N("count", {"value": "3"})]))
    up = [n for n in bottom.down if n.tag == "iq"]
    req, body = _request("lastseen")
    app.request(req, "r")
    iqs = [n for n in bottom.down if n.tag == "iq"]
    if len(up) != 1 or len(iqs) != 2:
        return [("two requests outstanding (got %d)" % len(iqs), False)]
    up_id, app_id = hooks.dict_get(up[0].attributes, "id"), hooks.dict_get(iqs[-1].attributes, "id")
    nid = H.zstr(ctx, "nid")
    kind = ctx.choice("stanza", ["receipt", "read-receipt", "ack", "status-notification", "server-ping"])
    if kind == "receipt":
        node = N("receipt", {"id": nid, "from": J, "t": "1400000000"})
    elif kind == "read-receipt":
        node = N("receipt", {"id": nid, "from": J, "t": "1400000000", "type": "read"})
    elif kind == "ack":
        node = N("ack", {"id": nid, "class": "message", "from": J, "t": "1400000000"})
    elif kind == "server-ping":
        node = N("iq", {"id": nid, "type": "get", "xmlns": "urn:xmpp:ping", "from": "s.whatsapp.net"})
    else:
        node = N("notification", {"id": nid, "from": J, "type": "status", "t": "1400000000", "notify": "nn", "offline": "0"}, [N("set", {}, None, b"hello")])
    n_other, n_down = len(app.other), len(bottom.down)
    raised = None
    try:
        bottom.inject(node)
    except Exception as e:
        raised = e
    marked = [c for c in mgr.calls if c[0] == "set_prekeys_as_sent"]
    obs = [("a non-reply stanza runs no request callback (%s)" % [c[:2] for c in app.calls], not app.calls and not marked and raised is None),
           ("a non-reply stanza is handled as an ordinary stanza: one entity at the application, a server ping is answered (got %d)" % (len(app.other) - n_other),
            len(app.other) == n_other + 1 if kind != "server-ping" else len([n for n in bottom.down[n_down:] if n.tag == "iq"]) == 1)]
    # the genuine replies afterwards
    try:
        bottom.inject(_reply(up_id, True, lambda: []))
        bottom.inject(_reply(app_id, True, body))
    except Exception as e:
        obs.append(("genuine replies are still accepted (%s)" % type(e).__name__, False))
        return obs
    ok, err = _counts(app, "r")
    obs.append(("afterwards the application request still gets its result exactly once (got %d)" % len(ok), len(ok) == 1 and not err))
    obs.append(("afterwards the key upload is still confirmed exactly once", len([c for c in mgr.calls if c[0] == "set_prekeys_as_sent"]) == 1))
    return obs


def finding_key(case, label, values, where):
    import re
    m = re.match(r"step\[(.+)\]", case)
    if m and label == "error-callback-iff-matching-error":
        return "C08|error reply to an application %s request is swallowed by the protocol layer" % m.group(1)
    if case.startswith("nonreply[") and values and values.get("stanza") == 4:
        return "C08|iq request with the id of an outstanding request consumes its registration"
    if case.startswith("sync-reply[contact-sync") and values and values.get("reply_is_result") is False:
        return "C08|error reply to an application contact-sync request is swallowed by the protocol layer"
    if case.startswith("history[") and values:
        # the same root cause seen through a history: an error delivered to an outstanding contact-sync request
        kinds = _history_kinds(case)
        if "first=contact-sync" in case and label.startswith("r0:"):
            return "C08|error reply to an application contact-sync request is swallowed by the protocol layer"
        for i in range(3):
            k = values.get("kind%d" % i)
            if k is not None and kinds and k < len(kinds) and kinds[k] == "contact-sync" and label.startswith("r%d:" % i):
                return "C08|error reply to an application contact-sync request is swallowed by the protocol layer"
    return None


def _first_kind(a):
    def f(ctx, n_req, n_del, kinds):
        class C2(object):
            def __init__(self, c):
                self.c = c

            def __getattr__(self, k):
                return getattr(self.c, k)

            def choice(self, name, opts):
                if name == "kind0":
                    return a
                return self.c.choice(name, opts)
        return h_history(C2(ctx), n_req, n_del, kinds)
    return f


def _history_kinds(case):
    for c_ in cases("quick") + cases("thorough"):
        if c_["name"] == case:
            return c_["args"][2]
    return None


def cases(tier):
    q = tier == "quick"
    cs = [dict(name="step[%s]" % k, fn=h_step, args=(k,)) for k in KINDS]
    for k in ("ping", "lastseen", "picture-get") if q else KINDS:
        cs.append(dict(name="step[%s,application with catch-all stanza handlers]" % k, fn=h_step, args=(k, True)))
    if q:
        cs.append(dict(name="history[2req,3del]", fn=h_history, args=(2, 3, ("lastseen", "group-info", "contact-sync", "picture-get")), max_paths=20000, timeout_s=300, weight=50))
    else:
        for a in ("lastseen", "contact-sync", "media-upload", "group-create"):
            cs.append(dict(name="history[3req,3del,first=%s]" % a, fn=_first_kind(a), args=(3, 3, ("lastseen", "group-info", "picture-get", "contact-sync")), max_paths=400000, timeout_s=3400, weight=500))
        cs.append(dict(name="history[2req,3del,6kinds]", fn=h_history, args=(2, 3, ("lastseen", "group-info", "contact-sync", "picture-get", "media-upload", "group-create")), max_paths=50000, timeout_s=1200, weight=100))
    cs.append(dict(name="nonreply[receipt/ack/notification with any id]", fn=h_nonreply))
    for k in ("ping", "lastseen", "group-info", "media-upload", "contact-sync", "picture-get"):
        cs.append(dict(name="sync-reply[%s,interface]" % k, fn=h_sync_reply, args=(k, "interface")))
    cs.append(dict(name="two-stacks[reply on the other connection]", fn=h_two_stacks))
    for deco in (False, True):
        cs.append(dict(name="keepalive-pong[%s application]" % ("catch-all" if deco else "plain"), fn=h_keepalive_pong, args=(deco,)))
    cs.append(dict(name="history[2req,3del,pings and last-seen]", fn=h_history, args=(2, 3, ("ping", "lastseen")), max_paths=20000, timeout_s=300, weight=20))
    cs.append(dict(name="internal[group-info,error reply]", fn=h_internal_groupinfo_error))
    cs.append(dict(name="internal[key-upload]", fn=h_internal_keyupload))
    cs.append(dict(name="internal[key-fetch]", fn=h_internal_keyfetch))
    return cs
