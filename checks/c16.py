"""C16 -- connection lifecycle: login, failure, stream error, keep-alive and reconnect.

Real YowNetworkLayer, YowAuthenticationProtocolLayer (+ all protocol layers), AxolotlControlLayer, YowIqProtocolLayer with its
keep-alive thread body executed inline, YowInterfaceLayer and YowStack.loop; the socket dispatcher and the Noise/coder
section are recording doubles.  The solver chooses the event history (guards prune impossible events) and the options;
a ghost model of the statement is checked after every event."""
from sx import core, hooks, harness as H
from checks import stanza_common as SC, stack_common as ST

PROPERTY = "C16"
LEVEL = "model_checking"
CODE = ["yowsup/layers/noise/layer.py:on_auth/on_disconnected/_in_handshake/send/receive/_flush_incoming_buffer/on_handshake_finished", "yowsup/layers/network/layer.py:YowNetworkLayer.*", "yowsup/layers/auth/layer_authentication.py", "yowsup/layers/interface/interface.py:onStreamError/onConnected/onDisconnected/connect/disconnect",
        "yowsup/layers/protocol_iq/layer.py:waitPong/gotPong/onAuthed/stop_thread/YowPingThread.run", "yowsup/layers/axolotl/layer_base.py + layer_control.py:on_connected/on_disconnected",
        "yowsup/stacks/yowstack.py:execDetached/loop", "yowsup/layers/__init__.py:emitEvent/broadcastEvent"]
BOUNDS = {"quick": "[+ keep-alive thread over 3 periods, each ping answered or not] " 
                   "[+ network: asyncore dispatcher histories len<=4 (6 after up+{send, peer close, disconnect request, raising handler}) with sends accepting all/half/nothing; socket dispatcher: 2 connections x connect outcome x <=2 incoming items] " 
                   "[+ extra cases: synchronously refused connects (len<=5), connect by event, application pings / stale pongs after up+success+ping-tick (len<=7, <=10 with a reconnect prefix)] " 
                   "all event histories of length <= 4 over {connect request, connected, socket error, peer close, disconnect request, success, failure, stream error (conflict/ack/other), ping tick, pong} "
                   "x reconnect option on/off x unconfirmed prekeys at start (passive login, key upload, reboot) (guards: events only in states where they can occur); the same with the real noise layer and handshake-done/-failed events", "thorough": "histories of length <= 8 (10 after an establishment prefix, 11 after login)"}
OUTSIDE = ["the cryptographic Noise handshake and transport (C04, not applicable; the noise LAYER's state handling is included with protocol/worker doubles)", "real sockets and the keep-alive's real thread (the lifecycle histories use a dispatcher double and run the keep-alive body inline per tick; the network histories run the REAL dispatchers over a socket-module double, the blocking one on a real thread)", "histories longer than the bound"]
ASSUMPTIONS = ["the stack's loop runs after every event (detached events are delivered then)", "a dispatcher reports disconnect() by calling onDisconnected (as the asyncore and socket dispatchers do)"]
EXPLANATION = "solver-driven bounded exploration of event histories on the real lifecycle layers against a ghost model of the statement"


class _StopTick(BaseException):
    pass


class Dispatcher(object):
    def __init__(self, net, world):
        self.net, self.w = net, world
        self.state = "idle"

    fail_connect = False

    def connect(self, endpoint):
        if self.fail_connect:
            # the attempt fails before anything asynchronous is running (unresolvable host name: asyncore's connect raises socket.gaierror)
            self.fail_connect = False
            self.w.log.append("dispatcher.connect-refused")
            raise OSError(-2, "Name or service not known")
        self.w.log.append("dispatcher.connect")
        self.state = "connecting"
        self.w.wire = []                 # what is written to THIS connection

    def disconnect(self):
        self.w.log.append("dispatcher.disconnect")
        if self.state in ("connecting", "up"):
            self.state = "idle"
            self.net.onDisconnected()

    def sendData(self, d):
        if self.state != "up":
            self.w.violations.append("write to a connection that is down")
        self.w.log.append("dispatcher.send")
        self.w.wire.append(bytes(d) if isinstance(d, (bytes, bytearray)) else d)


class World(object):
    def __init__(self):
        self.log = []
        self.violations = []
        self.sent_nodes = []
        self.wire = []


class NoiseProtocolDouble(object):
    """stands for consonance's WANoiseProtocol inside the REAL YowNoiseLayer: same states, no cryptography"""

    def __init__(self, layer, world, consts):
        self.layer, self.w, self.K = layer, world, consts
        self.state = consts.STATE_INIT
        self.rs = None

    def reset(self):
        self.w.log.append("transport-reset")
        self.state = self.K.STATE_INIT

    def send(self, data):
        if self.state != self.K.STATE_TRANSPORT:
            raise RuntimeError("send outside the transport state (%s)" % self.state)
        self.layer.toLower(data)

    def receive(self):
        return self.layer._incoming_segments_queue.get(False)


EDGE_INFO = None          # set by harnesses that log in with a profile carrying edge routing info (bytes)


def build(reconnect_opt, real_noise=False):
    import yowsup.layers as L
    from yowsup.stacks.yowstack import YowStack, YowStackBuilder
    from yowsup.layers.network import YowNetworkLayer
    from yowsup.layers.auth import YowAuthenticationProtocolLayer
    from yowsup.layers.interface import YowInterfaceLayer
    from yowsup.layers.axolotl import AxolotlControlLayer
    import yowsup.layers.protocol_iq.layer as iqmod
    w = World()

    class Bridge(L.YowLayer):
        """stands for segments + noise + coder: frames are stanzas already; records the events the noise layer reacts to"""

        def send(self, node):
            w.sent_nodes.append(node)
            self.toLower(b"frame")

        def receive(self, node):
            self.toUpper(node)

        def onEvent(self, ev):
            n = ev.getName()
            if n == YowAuthenticationProtocolLayer.EVENT_AUTH:
                w.log.append("login-attempt")
            elif n == YowAuthenticationProtocolLayer.EVENT_AUTHED:
                w.log.append("authed-broadcast")
            elif n == YowNetworkLayer.EVENT_STATE_DISCONNECTED:
                w.log.append("transport-reset")
            return False

    class App(YowInterfaceLayer):
        def __init__(self):
            super(App, self).__init__()
            self.entities = []

        def toUpper(self, e):
            self.entities.append(e)

        @L.EventCallback(YowNetworkLayer.EVENT_STATE_CONNECTED)
        def onConnected(self, ev):
            w.log.append("announced-up")
            base = getattr(YowInterfaceLayer, "onConnected", None)          # (the stock handler, if the class has one)
            return base(self, ev) if base is not None else None

        @L.EventCallback(YowNetworkLayer.EVENT_STATE_DISCONNECTED)
        def onDisconnected(self, ev):
            w.log.append("announced-down")
            base = getattr(YowInterfaceLayer, "onDisconnected", None)
            return base(self, ev) if base is not None else None

    class CoderDouble(L.YowLayer):
        """stands for the coder layer above the real noise layer: stanzas travel as objects; a failure frame built by the noise layer is decoded"""

        def send(self, node):
            w.sent_nodes.append(node)
            self.toLower(b"frame")

        def receive(self, data):
            if isinstance(data, (bytes, bytearray, list)):
                from yowsup.layers.coder.decoder import ReadDecoder
                from yowsup.layers.coder.tokendictionary import TokenDictionary
                data = ReadDecoder(TokenDictionary()).getProtocolTreeNode(bytearray(data))
            self.toUpper(data)

        def onEvent(self, ev):
            if ev.getName() == YowAuthenticationProtocolLayer.EVENT_AUTHED:
                w.log.append("authed-broadcast")
            return False

    prot = YowStackBuilder.getProtocolLayers()
    if real_noise:
        import yowsup.layers.noise.layer as NM
        from consonance.structs.keypair import KeyPair
        from consonance.structs.publickey import PublicKey

        class Worker(object):
            """stands for WANoiseProtocolHandshakeWorker (a thread running the Noise handshake): start() = handshake begins"""

            def __init__(self, protocol, stream, client_config, s, rs=None, finish_callback=None):
                self.protocol, self.finish, self.stream = protocol, finish_callback, stream
                w.worker = self

            def start(self):
                self.protocol.reset()
                w.log.pop()                      # the worker's own reset before it starts is not a reaction to a disconnect
                self.protocol.state = NM.WANoiseProtocol.STATE_HANDSHAKE
                w.log.append("login-attempt")
                # the handshake thread may run at once: its first message goes through the stream before start() returns
                self.stream.write_segment(b"client-hello")
        NM.WANoiseProtocolHandshakeWorker = Worker
        from yowsup.layers.noise.layer_noise_segments import YowNoiseSegmentsLayer
        st = YowStack((YowNetworkLayer, YowNoiseSegmentsLayer, NM.YowNoiseLayer, CoderDouble, AxolotlControlLayer, L.YowParallelLayer(prot), App), reversed=False)
        noise = st.getLayer(2)
        noise._wa_noiseprotocol = NoiseProtocolDouble(noise, w, NM.WANoiseProtocol)
        w.noise, w.NM = noise, NM
        net, app = st.getLayer(0), st.getLayer(6)
    else:
        st = YowStack((YowNetworkLayer, Bridge, AxolotlControlLayer, L.YowParallelLayer(prot), App), reversed=False)
        net, app = st.getLayer(0), st.getLayer(4)
    disp = Dispatcher(net, w)
    setattr(net, "_YowNetworkLayer__create_dispatcher", lambda t: disp)
    st.setProp(iqmod.YowIqProtocolLayer.PROP_PING_INTERVAL, 1)
    st.setProp(YowInterfaceLayer.PROP_RECONNECT_ON_STREAM_ERR, reconnect_opt)
    prof = ST.StubProfile()
    prof.axolotl_manager = ST.ManagerStub(True)
    if real_noise:
        from yowsup.config.v1.config import Config
        prof.config = Config(phone=prof.username, client_static_keypair=KeyPair.from_bytes(bytes(range(1, 65))), server_static_public=PublicKey(bytes(range(100, 132))), edge_routing_info=EDGE_INFO)
        prof.write_config = lambda c: None
    st.setProp("profile", prof)
    iq = [s for s in st.getLayer(5 if real_noise else 3).sublayers if type(s).__name__ == "YowIqProtocolLayer"][0]
    # the keep-alive thread is observed at its public surface (start / stop / run): its body is run inline per tick
    w.ping_thread = None
    if not hasattr(iqmod.YowPingThread, "_verif_orig_stop"):
        iqmod.YowPingThread._verif_orig_stop = iqmod.YowPingThread.stop

    def _start(self):
        w.log.append("keepalive-started")
        w.ping_thread = self

    def _stop(self):
        if w.ping_thread is self:
            w.ping_thread = None
        return iqmod.YowPingThread._verif_orig_stop(self)
    iqmod.YowPingThread.start = _start
    iqmod.YowPingThread.stop = _stop
    return st, w, net, disp, app, iq, iqmod


def run_loop(st):
    import yowsup.stacks.yowstack as Y
    calls = {"n": 0}

    class FakeTime(object):
        @staticmethod
        def sleep(x):
            calls["n"] += 1
            if calls["n"] >= 8:
                raise _StopTick()
    old = Y.time
    Y.time = FakeTime
    try:
        st.loop()
    except _StopTick:
        pass
    finally:
        Y.time = old


def ping_tick(w, iqmod):
    """one period of the real keep-alive thread body"""
    th = w.ping_thread
    calls = {"n": 0}

    class FakeTime(object):
        @staticmethod
        def sleep(x):
            calls["n"] += 1
            if calls["n"] >= 2:
                raise _StopTick()
    old = iqmod.time
    iqmod.time = FakeTime
    try:
        th.run()
    except _StopTick:
        pass
    finally:
        iqmod.time = old


EVENTS = ("keys-upload-result", "handshake-done", "handshake-failed", "late-close-callback", "connect-request", "connected", "socket-error", "peer-close", "disconnect-request", "success", "failure", "stream-error-conflict", "stream-error-ack",
          "stream-error-other", "ping-tick", "pong")


EXTRA_EVENTS = ("connect-refused-at-once", "app-ping", "app-pong", "stale-pong", "stream-error-then-connect-before-the-loop-runs")


def h_history(ctx, n, prefix=(), real_noise=False, extra=()):
    reconnect_opt = ctx.flag("reconnect_option")
    st, w, net, disp, app, iq, iqmod = build(reconnect_opt, real_noise)

    if ctx.flag("unconfirmed_prekeys_at_start"):
        # one-time keys generated earlier whose upload was never confirmed: the next login is passive, uploads them and reboots the connection
        st.getProp("profile").axolotl_manager.unsent = [ST.StubPreKey(21), ST.StubPreKey(22)]

    # the two ways an application asks for a connection: the interface layer's connect(), or the connect event broadcast to the stack
    # (what the library's own demo applications do)
    by_event = ctx.flag("connect_requests_by_event") if extra else False

    def connect():
        if by_event:
            from yowsup.layers import YowLayerEvent
            from yowsup.layers.network import YowNetworkLayer
            st.broadcastEvent(YowLayerEvent(YowNetworkLayer.EVENT_STATE_CONNECT))
        else:
            app.connect()

    def pending_upload():
        ids = [hooks.dict_get(x.attributes, "id") for x in w.sent_nodes if getattr(x, "tag", None) == "iq" and x.getChild("list") is not None]
        return ids[-1] if ids and g["upload_open"] else None

    inject = w.noise.receive if real_noise else net.receive      # stanzas enter above the byte framing

    def in_handshake():
        return real_noise and w.noise._wa_noiseprotocol.state == w.NM.WANoiseProtocol.STATE_HANDSHAKE

    def transport():
        return not real_noise or w.noise._wa_noiseprotocol.state == w.NM.WANoiseProtocol.STATE_TRANSPORT
    N = SC.N()
    g = dict(up=False, pending=False, authed=False, outstanding=[], expect_reconnect=False, upload_open=False, app_pings=[], stale=[])       # ghost model
    obs = []
    hist = []
    for step in range(n):
        # guards: which events can occur now
        possible = []
        for e in EVENTS + tuple(extra):
            if e in ("connect-request", "connect-refused-at-once") and not (disp.state in ("up", "connecting")):
                possible.append(e)
            elif e == "stream-error-then-connect-before-the-loop-runs" and disp.state == "up" and g["authed"] and transport():
                possible.append(e)      # the announcement of a close is deferred to the stack's loop: a connect request can be handled first
            elif e == "app-ping" and disp.state == "up" and g["authed"] and transport() and len(g["app_pings"]) < 1:
                possible.append(e)      # the application pings the server itself (the command line client's /ping)
            elif e == "app-pong" and disp.state == "up" and g["app_pings"]:
                possible.append(e)
            elif e == "stale-pong" and disp.state == "up" and transport() and g["stale"]:
                possible.append(e)      # the answer to a ping of an earlier connection arrives late (request registries survive a reconnect)
            elif e == "late-close-callback" and disp.state == "idle" and g.get("ever"):
                possible.append(e)      # a dispatcher reporting the close of an already closed socket once more (both real dispatchers can)
            elif e == "connected" and disp.state == "connecting":
                possible.append(e)
            elif e == "socket-error" and disp.state in ("connecting", "up"):
                possible.append(e)
            elif e == "keys-upload-result" and disp.state == "up" and g["authed"] and pending_upload() is not None:
                possible.append(e)
            elif e in ("handshake-done", "handshake-failed") and disp.state == "up" and in_handshake():
                possible.append(e)
            elif e in ("peer-close", "success", "failure", "stream-error-conflict", "stream-error-ack", "stream-error-other") and disp.state == "up":
                if e == "success" and g["authed"]:
                    continue
                if e != "peer-close" and not transport():
                    continue          # stanzas only travel once the handshake is finished
                possible.append(e)
            elif e == "disconnect-request" and disp.state in ("connecting", "up"):
                possible.append(e)
            elif e == "ping-tick" and disp.state == "up" and w.ping_thread is not None:
                possible.append(e)
            elif e == "pong" and disp.state == "up" and g["outstanding"]:
                possible.append(e)
        possible.append("stop")
        if step < len(prefix):
            ev = prefix[step] if prefix[step] in possible else "stop"
        else:
            ev = ctx.choice("e%d" % step, possible)
        if ev == "stop":
            break
        hist.append(ev)
        mark = len(w.log)
        n_ent = len(app.entities)
        n_up = len([x for x in w.sent_nodes if getattr(x, "tag", None) == "iq" and x.getChild("list") is not None])
        n_sent = len(w.sent_nodes)
        raised = None
        if ev == "stream-error-then-connect-before-the-loop-runs":
            # a stream error (not a conflict) closes the connection; before the stack's loop delivers the deferred announcement, a connect
            # request is handled and the new connection comes up; only then the loop runs.  One stream error plus one request: ONE new connection
            inject(N("stream:error", {}, [N("ack")]))
            connect()
            if disp.state == "connecting":
                disp.state = "up"
                net.onConnected()
            run_loop(st)
            new = w.log[mark:]
            obs.append(("#%d %s: one stream error and one connect request open exactly one new connection (%d)" % (step, ev, new.count("dispatcher.connect")), new.count("dispatcher.connect") == 1))
            obs.append(("#%d %s: ... which is announced up once" % (step, ev), new.count("announced-up") == 1))
            break
        if ev == "connect-request":
            connect()
            g["pending"] = True
            g["refused_open"] = False
        elif ev == "connect-refused-at-once":
            disp.fail_connect = True
            try:
                connect()
            except Exception as e:
                raised = e
            g["refused_open"] = True
        elif ev == "app-ping":
            from yowsup.layers.protocol_iq.protocolentities import PingIqProtocolEntity
            app.toLower(PingIqProtocolEntity())
            g["app_pings"] += [hooks.dict_get(x.attributes, "id") for x in w.sent_nodes[n_sent:] if getattr(x, "tag", None) == "iq"][-1:]
        elif ev == "app-pong":
            inject(N("iq", {"id": g["app_pings"].pop(0), "type": "result", "from": "s.whatsapp.net"}))
        elif ev == "stale-pong":
            inject(N("iq", {"id": g["stale"].pop(0), "type": "result", "from": "s.whatsapp.net"}))
        elif ev == "keys-upload-result":
            inject(N("iq", {"id": pending_upload(), "type": "result", "from": "s.whatsapp.net"}))
            g["upload_open"] = False
        elif ev == "connected":
            disp.state = "up"
            net.onConnected()
        elif ev == "handshake-done":
            w.noise._wa_noiseprotocol.state = w.NM.WANoiseProtocol.STATE_TRANSPORT
            w.noise._on_protocol_state_changed(w.NM.WANoiseProtocol.STATE_TRANSPORT)
            w.worker.finish(None)
        elif ev == "handshake-failed":
            w.worker.finish(RuntimeError("handshake failed"))
        elif ev == "socket-error":
            disp.state = "idle"
            net.onConnectionError(IOError("boom"))
        elif ev == "peer-close":
            disp.state = "idle"
            net.onDisconnected()
        elif ev == "late-close-callback":
            net.onDisconnected()
        elif ev == "disconnect-request":
            app.disconnect()
        elif ev == "success":
            inject(N("success", {"t": "1400000000", "props": "4", "creation": "1300000000", "expiration": "1500000000", "kind": "free", "status": "active"}, None, b"x"))
        elif ev == "failure":
            inject(N("failure", {"reason": "401"}))
        elif ev.startswith("stream-error"):
            kind = ev.split("-")[-1]
            kids = [N("conflict"), N("text", None, None, b"Replaced by new connection")] if kind == "conflict" else [N("ack")] if kind == "ack" else [N("xml-not-well-formed")]
            inject(N("stream:error", {}, kids))
        elif ev == "ping-tick":
            ping_tick(w, iqmod)
        elif ev == "pong":
            pid = g["outstanding"][0]
            inject(N("iq", {"id": pid, "type": "result", "from": "s.whatsapp.net"}))
        run_loop(st)
        new = w.log[mark:]
        tag = "#%d %s" % (step, ev)
        # ---- ghost model update and obligations --------------------------------------------------------------------
        ups, downs = new.count("announced-up"), new.count("announced-down")
        logins, autheds = new.count("login-attempt"), new.count("authed-broadcast")
        if ev == "connected":
            obs.append((tag + ": connect announced exactly once", ups == 1 and downs == 0))
            obs.append((tag + ": exactly one login attempt", logins == 1))
            if real_noise:
                stream = b"".join(x for x in w.wire if isinstance(x, bytes))
                obs.append((tag + ": the login starts fresh on the wire: raw prologue, then the handshake's first message as one whole frame (%r)" % stream[:24],
                            stream == (b"ED\x00\x01" + len(EDGE_INFO).to_bytes(3, "big") + EDGE_INFO if EDGE_INFO else b"") + b"WA\x04\x00" + b"\x00\x00\x0c" + b"client-hello"))
            g.update(up=True, pending=False, ever=True)
        else:
            obs.append((tag + ": no spurious connected announcement", ups == 0))
            obs.append((tag + ": no spurious login attempt", logins == 0))
        if len([x for x in w.sent_nodes if getattr(x, "tag", None) == "iq" and x.getChild("list") is not None]) > n_up:
            g["upload_open"] = True
        closes = ev in ("keys-upload-result", "socket-error", "peer-close", "disconnect-request", "failure", "stream-error-conflict", "stream-error-ack", "stream-error-other", "handshake-failed")
        keepalive_timeout = ev == "ping-tick" and len(g["outstanding"]) >= 1
        if ev == "ping-tick":
            # the ping this tick sent (observed on its way down): it is outstanding until a pong with its id arrives
            pings = [hooks.dict_get(x.attributes, "id") for x in w.sent_nodes[n_sent:] if getattr(x, "tag", None) == "iq" and hooks.dict_get(x.attributes, "xmlns") == "w:p"]
            if not keepalive_timeout:
                g["outstanding"] = pings[-1:]
            obs.append((tag + ": keep-alive closes the connection iff a ping is still unanswered", ("dispatcher.disconnect" in new) == keepalive_timeout))
        if ev == "pong":
            g["outstanding"] = []
            obs.append((tag + ": an answered ping never closes the connection", "dispatcher.disconnect" not in new))
        if ev == "connect-request":
            obs.append((tag + ": a connect request while no connection exists or is being made reaches the dispatcher", new.count("dispatcher.connect") == 1))
        if ev == "connect-refused-at-once":
            obs.append((tag + ": the refused attempt is reported to the caller", raised is not None))
        if ev in ("app-pong", "stale-pong"):
            obs.append((tag + ": the answer to a ping that is not the keep-alive's outstanding one closes nothing", "dispatcher.disconnect" not in new))
        if closes or keepalive_timeout:
            was_up = g["up"]
            if was_up:
                obs.append((tag + ": announced-up connection is announced down exactly once", downs == 1))
                obs.append((tag + ": transport state reset exactly once", new.count("transport-reset") == 1))
            else:
                obs.append((tag + ": at most one down announcement for a failed attempt", downs <= 1))
            # the confirmed key upload of a passive login ends that login: the connection is re-established once, as an active login
            will_reconnect = (reconnect_opt and ev in ("stream-error-ack", "stream-error-other")) or ev == "keys-upload-result"
            obs.append((tag + ": automatic reconnect iff (stream error, not a conflict, option on) or end of a passive key-upload login", (new.count("dispatcher.connect") == 1) == will_reconnect))
            g["stale"] = (g["stale"] + g["outstanding"] + g["app_pings"])[-2:]
            g.update(up=False, authed=False, outstanding=[], pending=will_reconnect, upload_open=False, app_pings=[])
            obs.append((tag + ": connection is closed", disp.state != "up" or will_reconnect is None))
        elif g.get("refused_open") and downs == 1:
            # the attempt that was refused synchronously is reported as a failed attempt by a later close callback: at most once, like any failed attempt
            g["refused_open"] = False
        else:
            obs.append((tag + ": no spurious disconnected announcement", downs == 0))
        if ev == "success":
            obs.append((tag + ": authenticated state announced exactly once", autheds == 1))
            obs.append((tag + ": success delivered to the application", len(app.entities) == n_ent + 1))
            g["authed"] = True
        else:
            obs.append((tag + ": no spurious authenticated announcement", autheds == 0))
        if ev in ("failure", "handshake-failed") or ev.startswith("stream-error"):
            obs.append((tag + ": delivered to the application", len(app.entities) == n_ent + 1))
        if real_noise and not g["up"]:
            obs.append((tag + ": no handshake state is left over while the connection is down", not in_handshake() and not transport()))
        obs.append((tag + ": network layer state agrees (connected flag == announced up)", bool(net.connected) == g["up"]))
    ctx.note("history %s" % hist)
    obs.append(("nothing was ever written to a connection that is down (%s)" % w.violations[:1], not w.violations))
    return obs


def h_keepalive_drop(ctx):
    """the connection ends while the keep-alive thread is somewhere in its period (one pre-emption of the REAL thread body, after k lines
    of the iq layer's file); then a new connection logs in: in its first period one ping leaves and, nothing of THIS connection being
    unanswered, the keep-alive does not close it"""
    import sys
    from checks import preempt
    st, w, net, disp, app, iq, iqmod = build(False)
    N = SC.N()

    def login():
        app.connect()
        disp.state = "up"
        net.onConnected()
        run_loop(st)
        net.receive(N("success", {"t": "1400000000", "props": "4", "creation": "1300000000", "expiration": "1500000000", "kind": "free", "status": "active"}, None, b"x"))
        run_loop(st)
    k = ctx.choice("keepalive_preempted_after_lines", list(range(26)))
    how = ctx.choice("connection_ends_by", ["peer-close", "disconnect-request"])
    login()
    th = w.ping_thread
    obs = [("the keep-alive is started by the successful login", th is not None)]
    if th is None:
        return obs
    calls = {"n": 0}

    class QuickTime(object):
        @staticmethod
        def sleep(x):
            calls["n"] += 1
            if calls["n"] >= 40:
                raise _StopTick()

        def __getattr__(self, n):
            import time as _t
            return getattr(_t, n)
    old = iqmod.time
    iqmod.time = QuickTime()

    def first():
        try:
            th.run()
        except _StopTick:
            pass

    def second():
        if how == "peer-close":
            disp.state = "idle"
            net.onDisconnected()
        else:
            app.disconnect()
        run_loop(st)
    try:
        r = preempt.run_preempted(first, second, sys.modules[type(iq).__module__].__file__, k)
    finally:
        iqmod.time = old
    obs.append(("neither the keep-alive thread nor the thread delivering the close gets stuck (%s)" % r["stuck"], not r["stuck"]))
    if r["stuck"]:
        return obs
    run_loop(st)
    login()
    th2 = w.ping_thread
    obs.append(("the keep-alive is started again by the new login", th2 is not None and th2 is not th))
    if th2 is None or th2 is th:
        return obs
    n_sent, mark = len(w.sent_nodes), len(w.log)
    ping_tick(w, iqmod)
    run_loop(st)
    pings = [x for x in w.sent_nodes[n_sent:] if getattr(x, "tag", None) == "iq" and hooks.dict_get(x.attributes, "xmlns") == "w:p"]
    closed = "dispatcher.disconnect" in w.log[mark:]
    obs.append(("first period of the new connection: one ping leaves and the connection stays up -- nothing of this connection is unanswered (pings %d, closed %s)" % (len(pings), closed),
                len(pings) == 1 and not closed))
    return obs


def h_keepalive_thread(ctx, ticks):
    """the keep-alive's REAL thread body running on its own thread across several periods (its sleep is a gate the harness opens once per
    period): every period's ping is answered or not (solver's choice); the connection is closed exactly when a ping is still unanswered
    at the time the next one is due"""
    import threading
    st, w, net, disp, app, iq, iqmod = build(False)
    N = SC.N()
    app.connect()
    disp.state = "up"
    net.onConnected()
    run_loop(st)
    net.receive(N("success", {"t": "1400000000", "props": "4", "creation": "1300000000", "expiration": "1500000000", "kind": "free", "status": "active"}, None, b"x"))
    run_loop(st)
    th = w.ping_thread
    obs = [("the keep-alive is started by the successful login", th is not None)]
    if th is None:
        return obs
    idle, gate = threading.Event(), threading.Semaphore(0)
    stop = {"now": False}

    class GatedTime(object):
        @staticmethod
        def sleep(x):
            idle.set()
            gate.acquire()
            if stop["now"]:
                raise _StopTick()

        def __getattr__(self, n):
            import time as _t
            return getattr(_t, n)
    old = iqmod.time
    iqmod.time = GatedTime()

    def body():
        try:
            th.run()
        except _StopTick:
            pass
    t = threading.Thread(target=body, daemon=True)
    outstanding, closed_at = [], None
    try:
        t.start()
        idle.wait(60)
        for k in range(ticks):
            answered = ctx.flag("ping%d_answered" % k)
            n_sent, mark = len(w.sent_nodes), len(w.log)
            idle.clear()
            gate.release()                     # one period passes
            for _ in range(6000):
                if idle.is_set() or not t.is_alive():
                    break
                t.join(0.01)
            run_loop(st)
            pings = [hooks.dict_get(x.attributes, "id") for x in w.sent_nodes[n_sent:] if getattr(x, "tag", None) == "iq" and hooks.dict_get(x.attributes, "xmlns") == "w:p"]
            closed = "dispatcher.disconnect" in w.log[mark:]
            due_with_unanswered = len(outstanding) >= 1
            obs.append(("period %d: the connection is closed iff the previous ping is still unanswered now that the next one is due (unanswered: %d, closed: %s)" % (k, len(outstanding), closed),
                        closed == due_with_unanswered))
            if closed or due_with_unanswered:
                closed_at = k
                break
            obs.append(("period %d: exactly one ping leaves" % k, len(pings) == 1))
            outstanding = pings[-1:]
            if answered and outstanding:
                net.receive(N("iq", {"id": outstanding[0], "type": "result", "from": "s.whatsapp.net"}))
                run_loop(st)
                outstanding = []
    finally:
        stop["now"] = True
        for _ in range(4):
            gate.release()
        t.join(30)
        iqmod.time = old
    obs.append(("the keep-alive thread ends with the connection / the harness (%s)" % ("alive" if t.is_alive() else "ended"), not t.is_alive()))
    return obs


NET_EVENTS = ("connect-request", "connect-refused-at-once", "connect-completes", "connect-fails", "send", "writable", "incoming", "incoming-handler-raises",
              "peer-close", "disconnect-request")


def h_network(ctx, n, prefix=()):
    """the real network layer with the real asyncore dispatcher over a socket double (checks/netdouble.py): histories of connection events
    incl. back-pressure (a send accepted in part or not at all), handlers that raise, refused and failing connects.  Per connection the
    peer must have received a prefix of exactly what was sent while that connection was up -- in order, nothing stale, nothing twice --
    and all of it once the socket has drained; announcements and the connected flag follow the same ghost model as the histories above"""
    import asyncore
    from checks import netdouble as ND
    import yowsup.layers as L
    from yowsup.stacks.yowstack import YowStack
    from yowsup.layers.network import YowNetworkLayer
    w = ND.World()
    log = []

    class Probe(L.YowLayer):
        def __init__(self):
            super(Probe, self).__init__()
            self.got = []

        def receive(self, data):
            if bytes(data).startswith(b"BOOM"):
                raise RuntimeError("an upper layer fails on this chunk")
            self.got.append(bytes(data))

        def send(self, data):
            self.toLower(data)

        @L.EventCallback(YowNetworkLayer.EVENT_STATE_CONNECTED)
        def on_up(self, ev):
            log.append("up")

        @L.EventCallback(YowNetworkLayer.EVENT_STATE_DISCONNECTED)
        def on_down(self, ev):
            log.append("down")
    by_event = ctx.flag("connect_requests_by_event")
    with ND.Patched(w):
        st = YowStack((YowNetworkLayer, Probe), reversed=False)
        net, probe = st.getLayer(0), st.getLayer(1)
        st.setProp(YowNetworkLayer.PROP_ENDPOINT, ("e1.whatsapp.net", 443))
        st.setProp(YowNetworkLayer.PROP_DISPATCHER, YowNetworkLayer.DISPATCHER_ASYNCORE)
        g = dict(up=False, pending=False, sock=None)
        expected = {}            # socket number -> bytes sent while that connection was up
        obs, hist, k = [], [], 0
        for step in range(n):
            disp = net._dispatcher
            sock = w.sockets[g["sock"]] if g["sock"] is not None else None
            backlog = bool(getattr(disp, "out_buffer", b"")) if disp is not None else False
            possible = []
            for e in NET_EVENTS:
                if e in ("connect-request", "connect-refused-at-once") and not g["up"] and not g["pending"]:
                    possible.append(e)
                elif e in ("connect-completes", "connect-fails") and g["pending"]:
                    possible.append(e)
                elif e in ("send", "incoming", "incoming-handler-raises", "peer-close") and g["up"]:
                    possible.append(e)
                elif e == "writable" and g["up"] and backlog:
                    possible.append(e)
                elif e == "disconnect-request" and (g["up"] or g["pending"]):
                    possible.append(e)
            possible.append("stop")
            ev = (prefix[step] if prefix[step] in possible else "stop") if step < len(prefix) else ctx.choice("e%d" % step, possible)
            if ev == "stop":
                break
            hist.append(ev)
            mark, n_socks, raised = len(log), len(w.sockets), None
            was_up, was_pending = g["up"], g["pending"]
            try:
                if ev in ("connect-request", "connect-refused-at-once"):
                    w.connect_mode = "gaierror" if ev == "connect-refused-at-once" else "later"
                    if by_event:
                        st.broadcastEvent(L.YowLayerEvent(YowNetworkLayer.EVENT_STATE_CONNECT))
                    else:
                        net.getLayerInterface().connect()
                elif ev == "connect-completes":
                    sock.established = True
                    asyncore.write(disp)
                elif ev == "connect-fails":
                    sock.so_error = 111
                    asyncore.write(disp)
                elif ev == "send":
                    k += 1
                    payload = (b"<%02d>" % k) * 12
                    accept = ctx.choice("accepted%d" % step, ["all", "half", "nothing"])
                    sock.budget = [] if accept == "all" else [len(payload) // 2 if accept == "half" else 0, 0, 0, 0]
                    expected[sock.no] = expected.get(sock.no, b"") + payload
                    probe.send(payload)
                elif ev == "writable":
                    sock.budget = []
                    asyncore.write(disp)
                elif ev == "incoming":
                    sock.rx.append(b"data%d" % step)
                    asyncore.read(disp)
                elif ev == "incoming-handler-raises":
                    sock.rx.append(b"BOOM%d" % step)
                    asyncore.read(disp)
                elif ev == "peer-close":
                    sock.peer_closed = True
                    asyncore.read(disp)
                elif ev == "disconnect-request":
                    st.broadcastEvent(L.YowLayerEvent(YowNetworkLayer.EVENT_STATE_DISCONNECT))
            except Exception as e:
                raised = e
            run_loop(st)
            new = log[mark:]
            tag = "#%d %s" % (step, ev)
            ups, downs = new.count("up"), new.count("down")
            if ev == "connect-request":
                obs.append((tag + ": a connect request while no connection exists or is being made opens a new socket", len(w.sockets) == n_socks + 1 and raised is None))
                g.update(pending=True, sock=len(w.sockets) - 1)
            elif ev == "connect-refused-at-once":
                obs.append((tag + ": the refused attempt is reported to the caller", raised is not None))
            elif raised is not None:
                obs.append((tag + ": no exception (%s: %s)" % (type(raised).__name__, str(raised)[:60]), False))
            if ev == "connect-completes":
                obs.append((tag + ": announced up exactly once", ups == 1 and downs == 0))
                g.update(up=True, pending=False)
            else:
                obs.append((tag + ": no spurious connected announcement", ups == 0))
            if ev in ("incoming-handler-raises", "peer-close", "disconnect-request", "connect-fails"):
                obs.append((tag + (": announced down exactly once" if was_up else ": at most one down announcement for a failed attempt"), downs == 1 if was_up else downs <= 1))
                obs.append((tag + ": the socket of the connection (or attempt) that ended is closed", sock is not None and sock.closed))
                g.update(up=False, pending=False)
            elif ev != "connect-refused-at-once":
                obs.append((tag + ": no spurious disconnected announcement", downs == 0))
            if ev == "incoming":
                obs.append((tag + ": the chunk is handed up once", probe.got[-1:] == [b"data%d" % step]))
            obs.append((tag + ": connected flag agrees with the announcements", bool(net.connected) == g["up"]))
            for s_ in w.sockets:
                want = expected.get(s_.no, b"")
                got = bytes(s_.written)
                obs.append((tag + ": peer of connection #%d has received a prefix of what was sent on it, in order (%d of %d bytes)" % (s_.no, len(got), len(want)), want.startswith(got)))
            if ev == "writable" and g["up"]:
                obs.append((tag + ": once the socket drains everything sent on this connection has arrived", bytes(sock.written) == expected.get(sock.no, b"")))
        ctx.note("history %s" % hist)
        obs.append(("nothing was ever written to a socket that is closed or not connected (%s)" % w.violations[:1], not w.violations))
        return obs


def h_network_blocking(ctx, n):
    """the same with the library's other dispatcher (SocketConnectionDispatcher: blocking connect + read loop, which the caller of connect
    runs): the connection's life is a script chosen by the solver -- connect outcome, then incoming chunks, a chunk whose handling raises
    in an upper layer (a non-I/O exception, as the authentication layer does for an unknown stream error), a close or a reset by the peer.
    Whatever ends the connection: it is announced down exactly once, the layer is disconnected, and a later connect request works"""
    import queue, threading
    from checks import netdouble as ND
    import yowsup.layers as L
    from yowsup.stacks.yowstack import YowStack
    from yowsup.layers.network import YowNetworkLayer
    w = ND.World()
    log = []

    class Probe(L.YowLayer):
        def __init__(self):
            super(Probe, self).__init__()
            self.got = []

        def receive(self, data):
            if bytes(data).startswith(b"BOOM"):
                raise NotImplementedError("an upper layer cannot handle this stanza")
            self.got.append(bytes(data))

        def send(self, data):
            self.toLower(data)

        @L.EventCallback(YowNetworkLayer.EVENT_STATE_CONNECTED)
        def on_up(self, ev):
            log.append("up")

        @L.EventCallback(YowNetworkLayer.EVENT_STATE_DISCONNECTED)
        def on_down(self, ev):
            log.append("down")

    class Sockets(ND.FakeSocketModule):
        def socket(self, *a, **k):
            s_ = ND.FakeSocket(self.world)
            s_.blocking_rx = queue.Queue()
            return s_
    with ND.Patched(w) as fake:
        import yowsup.layers.network.dispatcher.dispatcher_socket as ds
        ds.socket = Sockets(w)
        st = YowStack((YowNetworkLayer, Probe), reversed=False)
        net, probe = st.getLayer(0), st.getLayer(1)
        st.setProp(YowNetworkLayer.PROP_ENDPOINT, ("e1.whatsapp.net", 443))
        st.setProp(YowNetworkLayer.PROP_DISPATCHER, YowNetworkLayer.DISPATCHER_SOCKET)
        obs = []
        threads = []

        def connect(tag):
            """a connect request on its own thread (the call only returns when the connection is over)"""
            err = {}

            def body():
                try:
                    net.getLayerInterface().connect()
                except BaseException as e:
                    err["e"] = e
            t = threading.Thread(target=body, daemon=True)
            n0 = len(w.sockets)
            t.start()
            # wait until the reader blocks in recv (connection up) or the call has returned (attempt over)
            for _ in range(6000):
                if not t.is_alive() or (len(w.sockets) > n0 and w.sockets[-1].idle.is_set()):
                    break
                t.join(0.01)
            threads.append(t)
            return t, err

        def settle(t, sock):
            for _ in range(6000):
                if not t.is_alive() or sock.idle.is_set():
                    break
                t.join(0.01)
        for round_ in range(2):
            tag = "connection %d" % (round_ + 1)
            w.connect_mode = ctx.choice("connect%d" % round_, ["now", "refused", "gaierror"])
            mark = len(log)
            t, err = connect(tag)
            run_loop(st)
            if w.connect_mode != "now":
                obs.append((tag + ": a failing connect attempt ends the call, at most one down announcement, layer disconnected",
                            not t.is_alive() and log[mark:].count("down") <= 1 and log[mark:].count("up") == 0 and not net.connected))
                continue
            sock = w.sockets[-1]
            obs.append((tag + ": announced up exactly once", log[mark:].count("up") == 1 and bool(net.connected)))
            ended = False
            for i in range(n):
                item = ctx.choice("incoming%d_%d" % (round_, i), ["chunk", "chunk-whose-handling-raises", "peer-close", "peer-reset", "send-then-chunk"])
                if item == "send-then-chunk":
                    probe.send(b"<payload>")
                    item = "chunk"
                sock.idle.clear()
                sock.blocking_rx.put({"chunk": b"data%d" % i, "chunk-whose-handling-raises": b"BOOM", "peer-close": b"", "peer-reset": ConnectionResetError(104, "Connection reset by peer")}[item])
                settle(t, sock)
                run_loop(st)
                if item != "chunk":
                    ended = True
                    break
                obs.append((tag + ": chunk %d handed up once" % i, probe.got[-1:] == [b"data%d" % i]))
            if not ended:
                sock.idle.clear()
                st.broadcastEvent(L.YowLayerEvent(YowNetworkLayer.EVENT_STATE_DISCONNECT))
                settle(t, sock)
                t.join(30)
                run_loop(st)
            t.join(30)
            obs.append((tag + ": however it ends, the connect call returns, the connection is announced down exactly once and the layer is disconnected (%s, alive=%s, connected=%s, error=%r)"
                        % (log[mark:], t.is_alive(), net.connected, err.get("e")), not t.is_alive() and log[mark:].count("down") == 1 and not net.connected))
        obs.append(("nothing was ever written to a socket that is closed or not connected (%s)" % w.violations[:1], not w.violations))
        return obs


def cases(tier):
    q = tier == "quick"
    up = ("connect-request", "connected")
    cs = [dict(name="history[len<=%d]" % (6 if q else 8), fn=h_history, args=(6 if q else 8,), max_paths=2000000, timeout_s=900 if q else 3400, keep_samples=8, weight=100)]
    # longer histories after a fixed establishment prefix (the prefix itself is covered by the unconstrained case)
    for third in ("success", "socket-error", "peer-close", "disconnect-request", "failure", "stream-error-conflict", "stream-error-ack", "stream-error-other"):
        cs.append(dict(name="history[prefix=up+%s,len<=%d]" % (third, 7 if q else 10), fn=h_history, args=(7 if q else 10, up + (third,)), max_paths=2000000,
                       timeout_s=900 if q else 3400, keep_samples=6, weight=200 if third == "success" else 100))
    cs.append(dict(name="history[prefix=up+success+keys-upload-result,len<=%d]" % (8 if q else 11), fn=h_history, args=(8 if q else 11, up + ("success", "keys-upload-result")), max_paths=2000000,
                   timeout_s=900 if q else 3400, keep_samples=6, weight=150))
    # the same with the REAL noise layer (handshake states as events) in place of the transport double
    cs.append(dict(name="noise-layer-history[len<=%d]" % (6 if q else 8), fn=h_history, args=(6 if q else 8, (), True), max_paths=2000000, timeout_s=900 if q else 3400, keep_samples=8, weight=100))
    for third in ("handshake-done", "socket-error", "peer-close", "disconnect-request", "handshake-failed"):
        cs.append(dict(name="noise-layer-history[prefix=up+%s,len<=%d]" % (third, 7 if q else 10), fn=h_history, args=(7 if q else 10, up + (third,), True), max_paths=2000000,
                       timeout_s=900 if q else 3400, keep_samples=6, weight=100))
    # further environment events on top: a connect attempt refused synchronously; the application's own pings and late answers to pings of
    # an earlier connection next to the keep-alive's
    cs.append(dict(name="history+[refused connect attempts,len<=%d]" % (5 if q else 7), fn=h_history, args=(5 if q else 7, (), False, ("connect-refused-at-once",)), max_paths=2000000,
                   timeout_s=900 if q else 3400, keep_samples=8, weight=100))
    cs.append(dict(name="history+[prefix=up+success+ping-tick,foreign pongs,len<=%d]" % (7 if q else 9), fn=h_history, args=(7 if q else 9, up + ("success", "ping-tick"), False, ("app-ping", "app-pong", "stale-pong")),
                   max_paths=2000000, timeout_s=900 if q else 3400, keep_samples=8, weight=150))
    cs.append(dict(name="history+[prefix=up+success+ping-tick+peer-close+up+success,foreign pongs,len<=%d]" % (10 if q else 12), fn=h_history,
                   args=(10 if q else 12, up + ("success", "ping-tick", "peer-close") + up + ("success",), False, ("app-ping", "app-pong", "stale-pong")),
                   max_paths=2000000, timeout_s=900 if q else 3400, keep_samples=8, weight=150))
    cs.append(dict(name="history+[prefix=up+success,connect request before the loop delivers a close,len<=4]", fn=h_history,
                   args=(4, up + ("success",), False, ("stream-error-then-connect-before-the-loop-runs",)), max_paths=200000, timeout_s=600, keep_samples=8))
    cs.append(dict(name="keepalive[connection ends while the thread is in its period (one pre-emption), then a new login]", fn=h_keepalive_drop, keep_samples=60, timeout_s=600))
    cs.append(dict(name="keepalive[real thread body over %d periods]" % (3 if q else 4), fn=h_keepalive_thread, args=(3 if q else 4,), keep_samples=16, timeout_s=300))
    # the real network layer and asyncore dispatcher over a socket double
    nup = ("connect-request", "connect-completes")
    cs.append(dict(name="network[asyncore dispatcher,len<=%d]" % (4 if q else 5), fn=h_network, args=(4 if q else 5,), max_paths=2000000, timeout_s=900 if q else 3400, keep_samples=8, weight=100))
    for third in ("send", "peer-close", "disconnect-request", "incoming-handler-raises"):
        cs.append(dict(name="network[asyncore dispatcher,prefix=up+%s,len<=%d]" % (third, 6 if q else 8), fn=h_network, args=(6 if q else 8, nup + (third,)), max_paths=2000000,
                       timeout_s=900 if q else 3400, keep_samples=8, weight=150))
    cs.append(dict(name="network[socket dispatcher,2 connections,<=%d incoming]" % (2 if q else 3), fn=h_network_blocking, args=(2 if q else 3,), max_paths=200000, timeout_s=900, keep_samples=12, weight=100))
    if not q:
        for fourth in ("ping-tick", "peer-close", "stream-error-ack", "disconnect-request"):
            cs.append(dict(name="history[prefix=up+success+%s,len<=11]" % fourth, fn=h_history, args=(11, up + ("success", fourth)), max_paths=4000000, timeout_s=3400, keep_samples=6, weight=400))
    return cs
