"""one pre-emption between two threads running real code, at a line boundary chosen by the caller (the solver).

Thread 1 runs `first` under a line tracer limited to one source file and stops before executing its k-th line in that file; thread 2 then
runs `second` as far as it gets (to completion, unless it has to wait for something thread 1 holds); thread 1 resumes.  All waits are
bounded (generously: the machine may be busy with other checks; the bound only matters when a thread really never returns): a thread that
is still alive at the end is reported as stuck instead of hanging the check."""
import sys, threading


def run_preempted(first, second, filename, k, settle=1.0, limit=90.0):
    paused, resume = threading.Event(), threading.Event()
    res, err, seen = {}, {}, [0]

    def run1():
        def tracer(frame, event, arg):
            if frame.f_code.co_filename != filename:
                return None
            if event == "line":
                if seen[0] == k and not paused.is_set():
                    paused.set()
                    resume.wait(limit)
                seen[0] += 1
            return tracer
        sys.settrace(tracer)
        try:
            res[1] = first()
        except BaseException as e:
            err[1] = e
        finally:
            sys.settrace(None)
            paused.set()

    def run2():
        try:
            res[2] = second()
        except BaseException as e:
            err[2] = e
    t1 = threading.Thread(target=run1, daemon=True)
    t2 = threading.Thread(target=run2, daemon=True)
    try:
        t1.start()
        paused.wait(limit)
        t2.start()
        t2.join(settle)
        resume.set()
        t1.join(limit)
        t2.join(limit)
    finally:
        resume.set()
    return dict(results=res, errors=err, stuck=[i for i, t in ((1, t1), (2, t2)) if t.is_alive()], lines=seen[0])
