"""C01 -- stanza codec round-trip: decode(encode(tree)) == tree.

Real code executed (instrumented from /repo): WriteEncoder.*, ReadDecoder.*, TokenDictionary.getIndex/getToken,
YowCoderLayer.send/receive, ProtocolTreeNode.  Symbolic: payload lengths, code points of one unconstrained
string slot, character-class-constrained strings of every length, dictionary index, integer kernels."""
from sx import core, hooks, harness as H
from sx.core import SymInt
from sx.vals import SymSeq
from checks import codec_common as CC

PROPERTY = "C01"
LEVEL = "model_checking"
CODE = ["yowsup/layers/coder/encoder.py:WriteEncoder.*", "yowsup/layers/coder/decoder.py:ReadDecoder.*",
        "yowsup/layers/coder/tokendictionary.py:TokenDictionary.getIndex/getToken", "yowsup/layers/coder/layer.py:YowCoderLayer.send/receive",
        "yowsup/structs/protocoltreenode.py:ProtocolTreeNode.__init__/__eq__"]
BOUNDS = {
    "quick": "[+ after-rejected-stanza: 3 kinds of refused stanza x slot {val, tag, data} with 1 unconstrained character] " 
                   "payload length L in [0,2^24) at 4 positions; one unconstrained Latin-1 string slot of n<=3 chars (7 slot kinds); digit/nibble/hex "
             "strings of lengths {1,2,3,4,126,127,128,129,254,255}; all 1257 dictionary tokens; list sizes {0,1,127,128,255,256,257}; integer kernels over their full ranges",
    "thorough": "as quick with n<=4 for every slot (n<=5 for tag/val) and digit/nibble/hex strings of every length 1..255"}
OUTSIDE = ["unconstrained strings longer than the stated n (their size handling is covered by the class-constrained strings of every length and the payload-length harness)",
           "more than one unconstrained slot per tree", "trees deeper than 3 levels", "a node carrying both data and children (excluded by the property)"]
ASSUMPTIONS = ["strings are non-empty Latin-1, do not end in '@' (the property's exclusions)",
               "payload bytes are abstract (the codec only copies them; a branch on a payload byte would be Unsupported)",
               "binascii.hexlify/unhexlify, bytes.upper, chr/ord/join modelled exactly (selftest)"]
EXPLANATION = "bounded symbolic execution of the real encoder and decoder; the round-trip equality is discharged by z3 on every path"


def _rt_obs(ctx, tree, via_layer=False):
    if via_layer:
        frame, up = CC.layer_roundtrip(ctx, tree)
        obs = [("exactly-one-node-up", len(up) == 1)]
        if len(up) != 1:
            return obs
        out = up[0]
    else:
        frame = CC.lib_encode(ctx, tree)
        out = CC.lib_decode(ctx, frame)
        obs = []
    obs += CC.tree_obs("rt", tree, out)
    if out is not None and not H.sym(ctx):
        # the library's own __eq__ is evaluated on the concrete replay of every path witness (dict equality over
        # symbolic keys is not meaningful under the engine's association-list dicts)
        obs.append(("library-__eq__", bool(tree == out)))
    return obs


def h_size(ctx, position):
    return _rt_obs(ctx, CC.size_tree(ctx, position), via_layer=True)


def h_slot(ctx, slot, n):
    return _rt_obs(ctx, CC.slot_tree(ctx, slot, n))


def h_after_rejected(ctx, slot, n):
    """state left over from a failed encode: the same coder layer is first given a stanza it must refuse (the codec notices only after
    it has started writing), then a well-formed one: that one round-trips like on a fresh layer"""
    bad = CC.bad_stanza(ctx.choice("rejected_first", list(CC.BAD_STANZAS)))
    tree = CC.slot_tree(ctx, slot, n)
    err, frames, up = CC.layer_after_rejected(ctx, bad, tree)
    obs = [("the stanza that cannot be encoded is refused", err is not None), ("exactly one frame is written for the next stanza (%d)" % len(frames), len(frames) == 1),
           ("exactly-one-node-up", len(up) == 1)]
    if len(up) == 1:
        obs += CC.tree_obs("rt-after-rejected", tree, up[0])
    return obs


def h_class(ctx, cls, n, where):
    enc, dec, td, N = CC.lib()
    s = CC.classed_string(ctx, "s", n, cls)
    if where == "val":
        t = N("receipt", {"id": s, "t": "1"}, [N("x")])
    else:
        t = N("receipt", {"to": s + "@" + "s.whatsapp.net"}, [N("x")])
    return _rt_obs(ctx, t)


def h_twins(ctx, cls, n):
    """two packed values in one stanza, read by one decoder: an odd-length value X and the even-length X + its padding character
    (same packed bytes, only the odd flag differs), in both orders"""
    enc, dec, td, N = CC.lib()
    x = CC.classed_string(ctx, "s", n, cls)
    pad = "F" if cls != "digits" else "0"
    order = ctx.choice("order", ["odd first", "even first"])
    a, b = (x, x + pad) if order == "odd first" else (x + pad, x)
    t = N("receipt", {"id": a, "t": "1"}, [N("x", {"id": b})])
    return _rt_obs(ctx, t)


def h_longstr(ctx, n, where):
    """strings beyond the 8-bit length form: one unconstrained character + concrete filler (length handling of 252/253/254 string forms)"""
    enc, dec, td, N = CC.lib()
    c = H.chars(ctx, "s", 1)
    ctx.assume(CC.ctx_last_code(ctx, "s", 1) != 64)
    pos = ctx.choice("pos", ["first", "last"])
    filler = ("x9-" * (n // 3 + 1))[:n - 1]
    s = (c + filler) if pos == "first" else (filler + c)
    if where == "val":
        t = N("iq", {"id": s, "t": "1"}, [N("x")])
    elif where == "tag":
        t = N("iq", {"id": "1"}, [N(s, {"a": "b"}), N("x")])
    else:
        t = N("iq", {"to": s + "@" + "s.whatsapp.net"}, [N("x")])
    return _rt_obs(ctx, t)


def h_dict(ctx, lo, hi):
    enc, dec, td, N = CC.lib()
    words = list(td.dictionary[3:]) + list(td.secondaryDictionary)
    i = ctx.int("i", lo, min(hi, len(words)) - 1)
    w = hooks.sx_getitem(words, i) if H.sym(ctx) else words[i]
    t = N(w, {w: w, "x": w + "@" + "g.us"}, [N("q", {"id": w})])
    return _rt_obs(ctx, t)


def h_counts(ctx, n_attrs, n_children):
    return _rt_obs(ctx, CC.count_tree(ctx, n_attrs, n_children))


def _kernel(ctx, name, lo, hi, writer, reader):
    enc, dec, td, N = CC.lib()
    if not (hasattr(enc, writer) and hasattr(dec, reader)):
        ctx.note("kernel %s/%s not present in this tree: skipped" % (writer, reader))
        return [("kernel-present", True)]
    v = ctx.int("v", lo, hi)
    data = []
    getattr(enc, writer)(v, data)
    buf = CC.ba(ctx, data + [7])
    got = getattr(dec, reader)(buf)
    return [(name + ":value", core.eq(got, v)), (name + ":consumed-exactly", core.eq(H.length_of(buf), 1))]


def h_kernel(ctx, which):
    if which == "int8":
        return _kernel(ctx, which, 0, 255, "writeInt8", "readInt8")
    if which == "int16":
        return _kernel(ctx, which, 0, 65535, "writeInt16", "readInt16")
    if which == "int20":
        return _kernel(ctx, which, 0, (1 << 20) - 1, "writeInt20", "readInt20")
    if which == "int24":
        return _kernel(ctx, which, 0, (1 << 24) - 1, "writeInt24", "readInt24")
    if which == "int31":
        return _kernel(ctx, which, 0, (1 << 31) - 1, "writeInt31", "readInt31")
    if which == "list":
        enc, dec, td, N = CC.lib()
        if not (hasattr(enc, "writeListStart") and hasattr(dec, "readListSize")):
            return [("kernel-present", True)]
        v = ctx.int("v", 0, 65535)
        data = []
        enc.writeListStart(v, data)
        buf = CC.ba(ctx, data + [7])
        tok = buf.pop(0)
        got = dec.readListSize(tok, buf)
        return [("list:value", core.eq(got, v)), ("list:consumed-exactly", core.eq(H.length_of(buf), 1))]
    raise ValueError(which)


def finding_key(case, label, values, where):
    fam = case.split("[")[0]
    if fam == "size" and values and max(values.get("L", 0), values.get("L2", 0)) >= (1 << 20):
        return "C01|payload>=1MiB-followed-by-more-data"
    if fam == "kernel" and "int31" in case:
        return "C01|payload>=1MiB-followed-by-more-data"
    return None


def cases(tier):
    q = tier == "quick"
    cs = []
    for p in CC.POSITIONS:
        cs.append(dict(name="size[%s]" % p, fn=h_size, args=(p,), weight=2))
    for slot in CC.SLOTS:
        nmax = 3 if q else (5 if slot in ("tag", "val") else 4)
        for n in range(1, nmax + 1):
            cs.append(dict(name="slot[%s,n=%d]" % (slot, n), fn=h_slot, args=(slot, n), weight=5 ** n,
                           timeout_s=150 if q else 3000, max_paths=400000))
    for slot in ("val", "tag", "data"):
        cs.append(dict(name="after-rejected-stanza[%s,n=1]" % slot, fn=h_after_rejected, args=(slot, 1), weight=20, timeout_s=150 if q else 3000, max_paths=400000))
    lens = (1, 2, 3, 4, 126, 127, 128, 129, 254, 255) if q else tuple(range(1, 256))
    for cls in ("HEX-only", "digits"):
        for n in ((1, 3) if q else (1, 3, 5, 7)):
            cs.append(dict(name="twins[%s,n=%d]" % (cls, n), fn=h_twins, args=(cls, n), timeout_s=300 if q else 1200))
    for cls in ("digits", "nibble", "hex", "HEX-only"):
        for n in lens:
            if n > 6 and cls in ("nibble", "hex"):
                # mixed classes fork per character; long strings only for the forced classes
                if cls == "nibble" or cls == "hex":
                    continue
            cs.append(dict(name="class[%s,n=%d,val]" % (cls, n), fn=h_class, args=(cls, n, "val"), weight=1 + n / 8.0, timeout_s=300 if q else 1200))
        for n in (1, 2, 5, 127, 128):
            if n > 6 and cls in ("nibble", "hex"):
                continue
            cs.append(dict(name="class[%s,n=%d,jid]" % (cls, n), fn=h_class, args=(cls, n, "jid"), weight=1 + n / 8.0, timeout_s=300 if q else 1200))
    for lo in range(0, 1280, 160):
        cs.append(dict(name="dict[%d..%d)" % (lo, lo + 160), fn=h_dict, args=(lo, lo + 160), weight=20, timeout_s=600, max_paths=5000, keep_samples=4))
    for n in ((255, 256, 257, 4096) if q else (255, 256, 257, 4096, 65536, (1 << 20) - 1, 1 << 20, (1 << 20) + 1)):
        for where in ("val", "tag", "jid"):
            cs.append(dict(name="longstr[n=%d,%s]" % (n, where), fn=h_longstr, args=(n, where), weight=1 + n / 2000.0, timeout_s=300 if q else 3000))
    for a, c in ((0, 0), (1, 1), (127, 0), (128, 3), (0, 255), (2, 256), (255, 257), (257, 2)):
        cs.append(dict(name="counts[a=%d,c=%d]" % (a, c), fn=h_counts, args=(a, c), weight=1 + (a + c) / 20.0, timeout_s=300))
    for k in ("int8", "int16", "int20", "int24", "int31", "list"):
        cs.append(dict(name="kernel[%s]" % k, fn=h_kernel, args=(k,)))
    return cs
