"""C19 -- account configuration survives serialisation and is saved atomically.

kv[*]     DictKeyValTransform (the hand-written key=value format) on SYMBOLIC values: every Latin-1 string of n characters
          satisfying the property's restriction (no '#', ';', line break, no surrounding blanks), symbolic key names.
rt[*]     whole pipeline ConfigManager.save -> real file -> ConfigManager.load with solver-chosen format, load path, field
          subset family and value family (real consonance key objects, real base64/json).
crash[*]  ConfigManager.save under a crash at every write boundary (truncate, solver-chosen persisted prefix, before close)."""
import os, shutil, tempfile, json
from sx import core, hooks, harness as H
from sx.vals import SymStr

PROPERTY = "C19"
LEVEL = "model_checking"
CODE = ["yowsup/config/transforms/dict_keyval.py:DictKeyValTransform.transform/reverse", "yowsup/config/transforms/dict_json.py", "yowsup/config/v1/serialize.py + transforms/*.py",
        "yowsup/config/manager.py:ConfigManager.load/_load_path/guess_type/save/config_to_str", "yowsup/common/tools.py:StorageTools.getStorageForProfile/writeProfileData/constructPath",
        "yowsup/config/v1/config.py:Config"]
BOUNDS = {"quick": "[+ value family 'edge-bytes'] " 
                   "[+ value family 'long'] " 
                   "[+ file names {myconfig, tokyo, work-json, acct.2020, JSON} for extension-less paths] " 
                   "[+ profile objects (name = phone number | 'work') x working directory {neutral, directory named like the profile, storage root}] " 
                   "key=value codec: 1-2 entries, values of n<=3 unconstrained Latin-1 characters (restriction of the property assumed), keys n<=2 identifier characters; pipeline: 2 formats x 3 load paths x "
                   "{all fields, only phone, each single field absent, each single optional field present} x 4 value families (incl. lone surrogates) x {UTF-8, ASCII} locale encoding; crash: 5 persisted-prefix lengths x old/new config, followed by a complete save of a shorter configuration",
          "thorough": "values n<=4; pipeline additionally 150 seeded random field subsets"}
OUTSIDE = ["JSON string escaping itself (json module is real and concrete on the witnesses)", "file-system behaviour below open/write/close/rename (a rename is atomic; a write may persist any prefix)",
           "field subsets other than the enumerated families (each field is filtered independently by FilterTransform: stated)"]
ASSUMPTIONS = ["key=value values contain no '#', ';', CR/LF and no leading/trailing blank (the property's restriction; line breaks are inherent to a line format)",
               "key=value scalars are compared by their string rendering (the format has no types)"]
EXPLANATION = "symbolic execution of the key=value codec on symbolic strings + solver-driven enumeration of pipeline configurations and crash points on real files"

_TMP = os.environ.get("VERIF_TMP") or ("/dev/shm" if os.path.isdir("/dev/shm") else tempfile.gettempdir())


# ---- key=value codec on symbolic strings ------------------------------------------------------------------------------------
def _restricted_value(ctx, name, n):
    v = H.chars(ctx, name, n)
    codes = [ctx_code(ctx, name, i) for i in range(n)]
    for c in codes:
        for bad in (35, 59, 10, 13):          # '#', ';', LF, CR
            ctx.assume(c != bad)
        for ls in (11, 12, 28, 29, 30, 133):  # characters str.splitlines / strip treat as line or blank separators are blanks too
            pass
    for c in (codes[0], codes[-1]):
        ctx.assume(_not_space(c))
    return v


def ctx_code(ctx, name, i):
    if H.sym(ctx):
        import z3
        from sx.core import SymInt
        return SymInt(z3.Int("%s_%d" % (name, i)), ub=256)
    return ctx.values["%s_%d" % (name, i)]


def _not_space(c):
    if isinstance(c, int):
        return not chr(c).isspace()
    return ~(((c >= 9) & (c <= 13)) | ((c >= 28) & (c <= 32)) | (c == 133) | (c == 160))


def _ident(ctx, name, n):
    k = H.chars(ctx, name, n)
    for i in range(n):
        c = ctx_code(ctx, name, i)
        ok = ((c >= 97) & (c <= 122)) | (c == 95) if not isinstance(c, int) else (97 <= c <= 122 or c == 95)
        ctx.assume(ok)
    return k


def h_keyval(ctx, n, two):
    from yowsup.config.transforms.dict_keyval import DictKeyValTransform
    t = DictKeyValTransform()
    v1 = _restricted_value(ctx, "v", n)
    d = {"phone": v1}
    if two:
        k2 = "cc"
        v2 = _restricted_value(ctx, "w", 2)
        d[k2] = v2
    text = t.transform(d)
    back = t.reverse(text)
    items = hooks.dict_items(back)
    obs = [("same number of entries (%d vs %d)" % (len(items), len(d)), len(items) == len(d))]
    got = hooks.dict_get(back, "phone")
    obs.append(("value survives key=value text", H.eq(got, v1) if got is not None else False))
    if two:
        g2 = hooks.dict_get(back, k2)
        obs.append(("second key and value survive", H.eq(g2, v2) if g2 is not None else False))
    return obs


# ---- whole pipeline on real files ------------------------------------------------------------------------------------------
FIELDS = ("phone", "cc", "login", "pushname", "id", "mcc", "mnc", "sim_mcc", "sim_mnc", "client_static_keypair", "server_static_public", "expid", "fdid",
          "edge_routing_info", "chat_dns_domain")


def _values(family):
    from consonance.structs.keypair import KeyPair
    from consonance.structs.publickey import PublicKey
    kp = KeyPair.from_bytes(bytes(range(1, 65)) if family != "zeros" else bytes(64))
    base = dict(phone="4915901234567", cc="49", login="4915901234567", pushname="My Name", id=bytes(range(20)), mcc="262", mnc="02", sim_mcc="262", sim_mnc="03",
                client_static_keypair=kp, server_static_public=PublicKey(bytes(range(100, 132))), expid=bytes(range(16)), fdid="8f0f3c44-9d5b-4b7e-a0a1-1234567890ab",
                edge_routing_info=b"\x08\x02\x08\x05", chat_dns_domain="fb")
    if family == "unicode":
        base.update(pushname=u"Jürgen ☃ \U0001F600 \"quoted\" \\ back/slash", chat_dns_domain=u"dömain", fdid=u"äöü")
    if family == "surrogate":
        # a lone surrogate is an ordinary Python str value and representable in JSON (escaped): "arbitrary unicode"
        base.update(pushname=u"Ann \ud83d", fdid=u"\udc00x")
    if family == "empty":
        # present but empty: still values the application set
        base.update(pushname="", chat_dns_domain="", fdid="", edge_routing_info=b"", id=b"", expid=b"", login="", mcc="", mnc="")
    if family == "edge-bytes":
        # binary values whose first / last byte is a whitespace character (about one random key in twenty has such a byte at an end)
        base.update(client_static_keypair=KeyPair.from_bytes(b"\x09" + bytes(range(2, 64)) + b"\x20"), server_static_public=PublicKey(b"\x0a" + bytes(range(101, 131)) + b"\x0d"),
                    id=b" " + bytes(range(18)) + b"\n", expid=b"\x0b" + bytes(range(14)) + b"\x0c", edge_routing_info=b"\t\x08\x02 ")
    if family == "long":
        # values well beyond the usual sizes: routing info of a few hundred bytes, a long display name (the file grows past 1 KiB)
        base.update(edge_routing_info=bytes((i * 7 + 1) % 256 for i in range(300)), pushname="N" + "a long name " * 60 + "end", id=bytes(range(20)), expid=bytes(range(16)))
    if family == "zeros":
        base.update(id=bytes(20), expid=bytes(16), edge_routing_info=b"\x00", server_static_public=PublicKey(bytes(32)), mcc="000", mnc="000", pushname="0")
    return base


def _subset(ctx, thorough_random):
    fam = ["all", "only-phone"] + ["without-" + f for f in FIELDS[1:]] + ["phone+" + f for f in FIELDS[1:]]
    if thorough_random:
        fam += ["random-%d" % i for i in range(thorough_random)]
    which = ctx.choice("subset", fam)
    if which == "all":
        return which, set(FIELDS)
    if which == "only-phone":
        return which, {"phone"}
    if which.startswith("without-"):
        return which, set(FIELDS) - {which[8:]}
    if which.startswith("phone+"):
        return which, {"phone", which[6:]}
    import random
    r = random.Random(int(os.environ.get("VERIF_SEED", "0") or 0) * 1000 + int(which[7:]))
    return which, {"phone"} | set(f for f in FIELDS[1:] if r.random() < 0.5)


class _Expected(object):
    """the values the harness wrote (not what a Config object made of them)"""

    def __init__(self, vals):
        self.vals = vals

    def __getattr__(self, f):
        return self.vals.get(f)


def _config_eq(a, b, keyval):
    """field by field; keys byte-identical; key=value compares scalars by string rendering"""
    bad = []
    if a is None or b is None:
        return ["config-missing"]
    for f in FIELDS:
        x, y = getattr(a, f), getattr(b, f)
        if f == "client_static_keypair":
            ok = (x is None and y is None) or (x is not None and y is not None and x.private.data == y.private.data and x.public.data == y.public.data)
        elif f == "server_static_public":
            ok = (x is None and y is None) or (x is not None and y is not None and x.data == y.data)
        elif keyval and x is not None and y is not None and not isinstance(x, bytes):
            ok = str(x) == str(y)
        else:
            ok = x == y and type(x) == type(y)
        if not ok:
            bad.append(f)
    return bad


class _Env(object):
    """temporary config root: user_config_dir() of the tools module is redirected into it"""

    def __enter__(self):
        import yowsup.common.tools as tools
        self.d = tempfile.mkdtemp(prefix="c19_", dir=_TMP)
        self.tools = tools
        self.old = tools.user_config_dir
        tools.user_config_dir = lambda name: os.path.join(self.d, "cfgroot", name)
        return self

    def __exit__(self, *a):
        self.tools.user_config_dir = self.old
        shutil.rmtree(self.d, ignore_errors=True)


def h_roundtrip(ctx, nrandom, how=None):
    from yowsup.config.manager import ConfigManager
    from yowsup.config.v1.config import Config
    with _Env() as env:
        fmt = ctx.choice("format", ["json", "keyval"])
        how = how or ctx.choice("load_by", ["path-with-extension", "path-without-extension", "profile-name", "fresh-profile-name", "profile-object"])
        family = ctx.choice("values", ["plain", "unicode", "zeros", "surrogate", "empty", "long", "edge-bytes"])
        locale_enc = ctx.choice("locale_encoding", ["utf-8", "ascii"])
        name, subset = _subset(ctx, nrandom)
        if fmt == "keyval" and family in ("unicode", "surrogate", "empty"):
            return []              # arbitrary unicode is quantified for JSON only
        if locale_enc == "ascii" and name not in ("all", "only-phone", "phone+pushname", "without-pushname"):
            return []              # the locale dimension is explored on the representative subsets only
        vals = {k: v for k, v in _values(family).items() if k in subset}
        cfg = Config(**vals)
        cm = ConfigManager()
        st = ConfigManager.TYPE_JSON if fmt == "json" else ConfigManager.TYPE_KEYVAL
        ctx.note("format=%s load_by=%s values=%s subset=%s locale=%s" % (fmt, how, family, name, locale_enc))
        import yowsup.common.tools as tools_
        import yowsup.config.manager as manager_

        def locale_open(path, mode="r", *a, **k):
            # text files opened without an explicit encoding use the locale's: here a process running under LC_ALL=C
            if "b" not in mode and "encoding" not in k and len(a) < 2:
                k["encoding"] = locale_enc
            return open(path, mode, *a, **k)
        tools_.open = manager_.open = locale_open
        try:
            return _roundtrip_body(ctx, env, cm, cfg, st, fmt, how, vals)
        finally:
            del tools_.open
            del manager_.open


def _roundtrip_body(ctx, env, cm, cfg, st, fmt, how, vals):
    from yowsup.config.manager import ConfigManager
    from yowsup.config.v1.config import Config
    if True:
        if how in ("profile-name", "fresh-profile-name", "profile-object"):
            if fmt != "json":
                return []          # profiles are stored as config.json
            # the profile's name: the account's phone number (what the command line client does) or a name of the user's choosing
            prof = ctx.choice("profile_named", ["4915901234567", "work"])
            # state of the working directory the process runs in: nothing of that name / a directory named like the profile (a project
            # folder keeping per-account data) / the library's own storage root, where every profile name is a directory
            cwd = ctx.choice("working_directory", ["neutral", "has-directory-named-like-the-profile", "storage-root"])
            if how == "profile-name":
                cm.save(prof, Config(phone="1"), st)          # the profile has been used before
            if how == "profile-object":
                from yowsup.profile.profile import YowProfile
                YowProfile(prof, cfg).write_config(cfg)       # what the login does when the server key changed
            else:
                cm.save(prof, cfg, st)
            here = os.getcwd()
            wd = os.path.join(env.d, "wd")
            os.makedirs(os.path.join(wd, prof, "media") if cwd == "has-directory-named-like-the-profile" else wd, exist_ok=True)
            os.chdir(os.path.join(env.d, "cfgroot", "yowsup") if cwd == "storage-root" and os.path.isdir(os.path.join(env.d, "cfgroot", "yowsup")) else wd)
            try:
                if how == "profile-object":
                    from yowsup.profile.profile import YowProfile
                    loaded = YowProfile(prof).config
                else:
                    loaded = cm.load(prof)
            finally:
                os.chdir(here)
        else:
            ext = {"json": ".json", "keyval": ".yo"}[fmt] if how == "path-with-extension" else ""
            # a file name of the user's choosing: without extension the format is found by parsing, whatever the name's last letters are
            base = ctx.choice("file_name", ["myconfig", "tokyo", "work-json", "acct.2020", "JSON"]) if not ext else "myconfig"
            dest = os.path.join(env.d, base + ext)
            cm.save("unused", cfg, st, dest=dest)
            loaded = cm.load(dest)
        bad = _config_eq(_Expected(vals), loaded, fmt == "keyval")
        return [("loaded configuration equals what was written (differing fields: %s)" % bad, not bad)]


# ---- crash while saving ----------------------------------------------------------------------------------------------------------
class Crash(BaseException):
    pass


class CrashFS(object):
    """wraps the builtin open() / os.fdopen() seen by yowsup.common.tools and yowsup.config.manager.  What a program writes sits in a
    user-space buffer until the file is flushed or closed; when the process dies, of the data still buffered only a prefix (the solver's
    choice, possibly nothing, possibly everything) has reached the file.  Every open-for-write, write, close, rename is a crash boundary."""

    def __init__(self, crash_at, prefix_frac):
        self.crash_at, self.prefix_frac, self.n = crash_at, prefix_frac, 0
        self.log = []
        self.open_files = []

    def boundary(self, what):
        self.log.append(what)
        k = self.n
        self.n += 1
        return self.crash_at is not None and k == self.crash_at

    def die(self):
        """the process dies now: every open file keeps a prefix of what was still buffered"""
        for F in list(self.open_files):
            F._persist_prefix()
        self.open_files = []
        raise Crash()

    def open(self, path, mode="r", *a, **k):
        fs = self
        if "w" in mode or "a" in mode or "+" in mode:
            if fs.boundary("open-for-write %s" % os.path.basename(path)):
                fs.die()
            return fs.wrap(open(path, mode, *a, **k))
        return open(path, mode, *a, **k)

    def wrap(self, f):
        fs = self

        class F(object):
            def __init__(self_):
                self_.pending = []

            def _persist_prefix(self_):
                data = self_.pending[0][:0].join(self_.pending) if self_.pending else None
                if data:
                    f.write(data[:int(len(data) * fs.prefix_frac)])
                self_.pending = []
                try:
                    f.flush()
                    f.close()
                except Exception:
                    pass

            def write(self_, data):
                if fs.boundary("write %d" % len(data)):
                    self_.pending.append(data)
                    fs.die()
                self_.pending.append(data)
                return len(data)

            def flush(self_):
                for d in self_.pending:
                    f.write(d)
                self_.pending = []
                f.flush()

            def close(self_):
                if fs.boundary("close"):
                    fs.die()
                self_.flush()
                f.close()
                if self_ in fs.open_files:
                    fs.open_files.remove(self_)

            def __enter__(self_):
                return self_

            def __exit__(self_, et, ev, tb):
                if et is None:
                    self_.close()
                else:
                    try:
                        f.close()
                    except Exception:
                        pass
                return False

            def __getattr__(self_, n):
                return getattr(f, n)
        F_ = F()
        fs.open_files.append(F_)
        return F_


class OsProxy(object):
    """os module seen by the code under test: replace/rename are crash boundaries (atomic: either done or not)"""

    def __init__(self, fs):
        self._fs = fs

    def replace(self, a, b):
        if self._fs.boundary("replace"):
            self._fs.die()
        return os.replace(a, b)

    def rename(self, a, b):
        if self._fs.boundary("rename"):
            self._fs.die()
        return os.rename(a, b)

    def open(self, path, flags, *a, **k):
        if flags & (os.O_WRONLY | os.O_RDWR):
            if self._fs.boundary("os.open-for-write %s" % os.path.basename(path)):
                self._fs.die()
        return os.open(path, flags, *a, **k)

    def fdopen(self, fd, mode="r", *a, **k):
        f = os.fdopen(fd, mode, *a, **k)
        if "w" in mode or "a" in mode or "+" in mode:
            return self._fs.wrap(f)
        return f

    def __getattr__(self, n):
        return getattr(os, n)


class ShutilProxy(object):
    """the shutil module, should the code under test use it to move a file into place: on one file system a move is a rename (atomic);
    when source and destination are on different file systems (the environment's choice: the system's temporary directory is often a
    tmpfs) it is a COPY into the destination -- open for writing (truncating what is there), write, close -- followed by removing the source"""

    def __init__(self, fs, tmp_elsewhere):
        self._fs, self._elsewhere = fs, tmp_elsewhere

    def move(self, src, dst, *a, **k):
        import tempfile as _tf
        cross = self._elsewhere and os.path.dirname(os.path.abspath(src)) == os.path.abspath(_tf.gettempdir())
        if not cross:
            if self._fs.boundary("rename (move on one file system)"):
                self._fs.die()
            os.replace(src, dst)
            return dst
        data = open(src, "rb").read()
        with self._fs.open(dst, "wb") as f:
            f.write(data)
        if self._fs.boundary("unlink the source of the move"):
            self._fs.die()
        os.unlink(src)
        return dst

    def __getattr__(self, n):
        import shutil as _sh
        return getattr(_sh, n)


def h_crash(ctx):
    from yowsup.config.manager import ConfigManager
    from yowsup.config.v1.config import Config
    import yowsup.common.tools as tools
    import yowsup.config.manager as manager
    with _Env() as env:
        prof = "4915901234567"
        cm = ConfigManager()
        old = Config(**_values("plain"))
        new_vals = _values("plain")
        from consonance.structs.publickey import PublicKey
        new_vals["server_static_public"] = PublicKey(bytes(range(50, 82)))      # what the noise layer rewrites at login
        new = Config(**new_vals)
        had_old = ctx.flag("profile_existed")
        if had_old:
            cm.save(prof, old)
        crash_at = ctx.choice("crash_at", [0, 1, 2, 3, 4, 5, "none"])
        frac = ctx.choice("persisted_prefix", [0.0, 0.01, 0.5, 0.99, 1.0])
        # environment: the system's temporary directory may be on another file system than the configuration directory
        # (every choice is made BEFORE the module attributes are replaced: nothing between the replacement and its undoing may raise)
        tmp_elsewhere = ctx.flag("temporary_directory_on_another_file_system")
        fs = CrashFS(None if crash_at == "none" else crash_at, frac)
        tools.open = fs.open
        manager.open = fs.open
        real_os = tools.os
        tools.os = OsProxy(fs)
        real_shutil = getattr(tools, "shutil", None)
        if real_shutil is not None:
            tools.shutil = ShutilProxy(fs, tmp_elsewhere)
        crashed = False
        try:
            cm.save(prof, new)
        except Crash:
            crashed = True
        finally:
            del tools.open
            del manager.open
            tools.os = real_os
            if real_shutil is not None:
                tools.shutil = real_shutil
        ctx.note("boundaries %s crashed=%s" % (fs.log, crashed))
        try:
            loaded = ConfigManager().load(prof)
            err = None
        except Exception as e:
            loaded, err = None, e
        if not crashed:
            bad = _config_eq(new, loaded, False)
            return [("no crash: new configuration loads (%s)" % (err or bad), not bad)]
        ok_new = loaded is not None and not _config_eq(new, loaded, False)
        ok_old = had_old and loaded is not None and not _config_eq(old, loaded, False)
        if had_old:
            obs = [("crash before boundary %s (prefix %.2f): profile loads as previous or new configuration (%s)" % (crash_at, frac, err or ("neither" if loaded is not None else "nothing loaded")),
                    ok_new or ok_old)]
        else:
            obs = [("crash during first save: profile loads as new configuration or not at all, never a broken one (%s)" % (err,), err is None and (loaded is None or ok_new))]
        # the restarted process saves again (a shorter configuration): whatever the crash left behind must not leak into it
        third = Config(phone="4915901234567", cc="49")
        try:
            ConfigManager().save(prof, third)
            loaded3, err3 = ConfigManager().load(prof), None
        except Exception as e:
            loaded3, err3 = None, e
        bad3 = _config_eq(third, loaded3, False)
        obs.append(("after the crash (boundary %s, prefix %.2f) a later save is loaded back intact (%s)" % (crash_at, frac, err3 or bad3), not bad3))
        return obs


def finding_key(case, label, values, where):
    if case.startswith("crash") and label.startswith("crash before boundary"):
        return "C19|config write is an in-place truncating write: a crash loses the stored configuration"
    if case.startswith("rt") and "FileNotFoundError" in label:
        return "C19|saving a never-used profile fails: profile directory not created"
    if case.startswith("rt") and "TypeError" in label:
        return "C19|save(dest=...) writes text to a binary file"
    return None


def cases(tier):
    q = tier == "quick"
    cs = []
    for n in ((1, 2, 3) if q else (1, 2, 3, 4)):
        cs.append(dict(name="kv[n=%d]" % n, fn=h_keyval, args=(n, False), weight=6 ** n, timeout_s=600 if q else 3000, max_paths=400000))
    cs.append(dict(name="kv[two-entries]", fn=h_keyval, args=(2, True), weight=200, timeout_s=600, max_paths=400000))
    for how in ("path-with-extension", "path-without-extension", "profile-name", "fresh-profile-name", "profile-object"):
        cs.append(dict(name="rt[pipeline,load by %s]" % how, fn=h_roundtrip, args=(0 if q else 150, how), weight=100, timeout_s=900 if q else 3000, max_paths=100000, keep_samples=8))
    cs.append(dict(name="crash[save]", fn=h_crash, weight=30, keep_samples=12))
    return cs
