"""the really assembled layer set (YowStackBuilder.getProtocolLayers, optionally below it the three encryption
layers) between two recording layers; shared by C06, C07, C08"""
from sx import core, hooks, harness as H


class det_entropy(object):
    """harnesses that run the REAL python-axolotl (key generation, signatures) do so on a deterministic entropy stream, so that a run is a
    function of the tree and the solver's scenario only: what passes once on the unchanged tree passes always (no rare-key flakes)"""

    def __init__(self, label):
        self.label = label.encode() if isinstance(label, str) else label

    def __enter__(self):
        import os, random, hashlib
        self.os, self.random = os, random
        self.saved = (os.urandom, random._urandom, random.getstate())
        state = {"n": 0}
        label = self.label

        def urandom(n):
            out = b""
            while len(out) < n:
                state["n"] += 1
                out += hashlib.sha256(label + b"|" + str(state["n"]).encode()).digest()
            return out[:n]
        os.urandom = urandom
        random._urandom = urandom
        random.seed(hashlib.sha256(label).digest())
        return self

    def __exit__(self, *a):
        self.os.urandom, self.random._urandom = self.saved[0], self.saved[1]
        self.random.setstate(self.saved[2])
        return False


def deterministic(label):
    def deco(fn):
        def wrapper(ctx, *a, **k):
            with det_entropy(label):
                return fn(ctx, *a, **k)
        wrapper.__name__ = fn.__name__
        wrapper.__doc__ = fn.__doc__
        return wrapper
    return deco


def mods():
    import yowsup.layers as L
    from yowsup.stacks.yowstack import YowStack, YowStackBuilder
    return L, YowStack, YowStackBuilder


class ManagerStub(object):
    """ideal-functionality stand-in for yowsup.axolotl.manager.AxolotlManager: records calls, returns opaque envelopes"""
    registration_id = 4242

    def __init__(self, sessions=True):
        self.calls = []
        self.sessions = sessions

    def session_exists(self, recipient_id):
        self.calls.append(("session_exists", recipient_id))
        return self.sessions

    def encrypt(self, recipient_id, data):
        self.calls.append(("encrypt", recipient_id, data))
        return Envelope(b"ENVELOPE-1:1")

    def group_encrypt(self, groupid, data):
        self.calls.append(("group_encrypt", groupid, data))
        return b"ENVELOPE-GROUP"

    def group_create_skmsg(self, groupid):
        self.calls.append(("group_create_skmsg", groupid))

        class SK(object):
            def serialize(self_inner):
                return b"SENDER-KEY-DISTRIBUTION"
        return SK()

    def load_senderkey(self, groupid):
        class R(object):
            def isEmpty(self_inner):
                return False
        return R()

    def level_prekeys(self, force=False):
        self.calls.append(("level_prekeys", force))
        return [StubPreKey(11), StubPreKey(12)] if force else []

    def generate_signed_prekey(self):
        self.calls.append(("generate_signed_prekey",))
        return StubPreKey(1, signed=True)

    def load_latest_signed_prekey(self, generate=False):
        return StubPreKey(1, signed=True)

    def set_prekeys_as_sent(self, prekeys):
        self.calls.append(("set_prekeys_as_sent", [p.getId() for p in prekeys]))
        self.unsent = [p for p in self.unsent if p.getId() not in [q.getId() for q in prekeys]]

    @property
    def identity(self):
        return StubKeyPair()

    unsent = ()          # one-time keys generated but not yet confirmed by the server (state a harness may set)

    def load_unsent_prekeys(self):
        return list(self.unsent)


class StubPub(object):
    def serialize(self):
        return b"\x05" + b"\x07" * 32


class StubKeyPair(object):
    def getPublicKey(self):
        return StubPub()


class StubPreKey(object):
    def __init__(self, i, signed=False):
        self.i = i

    def getId(self):
        return self.i

    def getKeyPair(self):
        return StubKeyPair()

    def getSignature(self):
        return b"\x09" * 64


class StubProfile(object):
    username = "4915900000001"
    axolotl_manager = None


class Envelope(object):
    def __init__(self, b):
        self.b = b

    def serialize(self):
        return self.b


def make_layers():
    L, YowStack, YowStackBuilder = mods()

    class Rec(L.YowLayer):
        """bottom recorder: what the layer set sends down; inject() pushes a stanza up"""

        def __init__(self):
            super(Rec, self).__init__()
            self.down = []

        def send(self, data):
            self.down.append(data)

        def inject(self, node):
            self.toUpper(node)

        def onEvent(self, ev):
            return True          # events stop here (no network below)

    class App(L.YowLayer):
        def __init__(self):
            super(App, self).__init__()
            self.up = []

        def receive(self, entity):
            self.up.append(entity)

    return Rec, App


def build(groups=True, media=True, privacy=True, profiles=True, enc=True, top=None, sessions=True):
    """-> (stack, bottom recorder, top layer, manager stub)"""
    L, YowStack, YowStackBuilder = mods()
    from yowsup.layers.axolotl import AxolotlSendLayer, AxolotlControlLayer, AxolotlReceivelayer
    Rec, App = make_layers()
    if enc:
        # what the library's builder assembles for this module selection, minus the transport part (network .. logger)
        core = YowStackBuilder.getCoreLayers()
        alll = YowStackBuilder.getDefaultLayers(groups=groups, media=media, privacy=privacy, profiles=profiles)
        if tuple(alll[:len(core)]) != tuple(core) or len(alll) != len(core) + 3:
            raise core_mod().HarnessOutOfSync("getDefaultLayers() no longer has the shape core + control + (send, receive) + protocol group")
        layers = (Rec,) + tuple(alll[len(core):]) + (top or App,)
    else:
        prot = YowStackBuilder.getProtocolLayers(groups=groups, media=media, privacy=privacy, profiles=profiles)
        layers = (Rec, L.YowParallelLayer(prot), top or App)
    st = YowStack(layers, reversed=False)
    bottom = st.getLayer(0)
    app = st.getLayer(len(layers) - 1)
    st.setProp("profile", StubProfile())
    mgr = ManagerStub(sessions)
    st.getProp("profile").axolotl_manager = mgr
    if enc:
        wire_manager(st, mgr)
    return st, bottom, app, mgr


def core_mod():
    return core


def wire_manager(st, mgr):
    """give every encryption layer of the stack the manager stand-in and make sure it took effect (through the layers' public `manager`)"""
    layers, i = [], 0
    while True:
        try:
            layers.append(st.getLayer(i))
        except Exception:
            break
        i += 1
    found = 0
    for l in layers:
        for x in [l] + list(getattr(l, "sublayers", ())):
            if hasattr(x, "_manager") or type(x).__name__.startswith("Axolotl"):
                x._manager = mgr
                if getattr(x, "manager", None) is not mgr:
                    raise core.HarnessOutOfSync("the manager stand-in did not reach %s.manager" % type(x).__name__)
                found += 1
    if not found:
        raise core.HarnessOutOfSync("no encryption layer found in the stack")


FLAG_SETS = {
    "all": dict(groups=True, media=True, privacy=True, profiles=True),
    "no-groups": dict(groups=False, media=True, privacy=True, profiles=True),
    "no-media": dict(groups=True, media=False, privacy=True, profiles=True),
    "no-privacy": dict(groups=True, media=True, privacy=False, profiles=True),
    "no-profiles": dict(groups=True, media=True, privacy=True, profiles=False),
    "none": dict(groups=False, media=False, privacy=False, profiles=False),
}


def all_flag_sets():
    out = {}
    for g in (0, 1):
        for m in (0, 1):
            for p in (0, 1):
                for r in (0, 1):
                    out["g%dm%dp%dr%d" % (g, m, p, r)] = dict(groups=bool(g), media=bool(m), privacy=bool(p), profiles=bool(r))
    return out
