"""C13 -- the encryption key store is durable and updates are all-or-nothing across crashes.

Real store classes on the real sqlite3 library (temporary database file per path).  The solver chooses the operation
sequence (per table, small operand pools) and the crash point: every execute / commit boundary of the last operation;
a crash abandons the connection without commit, the file is reopened with a fresh store and inspected."""
import os, shutil, sqlite3, tempfile
from sx import core, hooks, harness as H

PROPERTY = "C13"
LEVEL = "fault_enumeration"
CODE = ["yowsup/axolotl/store/sqlite/liteaxolotlstore.py", "litesessionstore.py", "liteidentitykeystore.py", "liteprekeystore.py", "litesignedprekeystore.py", "litesenderkeystore.py"]
BOUNDS = {"quick": "per table: every sequence of <=2 operations over {store A, store B (replace), delete, ...} on 2 keys, crash at every statement/commit boundary of the last operation, reopen",
          "thorough": "sequences of <=4 operations"}
OUTSIDE = ["sqlite's own journal atomicity (trusted: a transaction that was not committed is rolled back when the file is reopened)", "power-loss below the OS (fsync ordering)",
           "record contents: blobs are opaque tokens in the crash harness (sqlite only stores and compares them); real python-axolotl records are used in the durability harness"]
ASSUMPTIONS = ["a process death = the connection is abandoned at a statement/commit boundary without commit"]
EXPLANATION = "solver-driven enumeration of operation sequence x crash boundary on the real stores over real sqlite"

_TMP = os.environ.get("VERIF_TMP") or ("/dev/shm" if os.path.isdir("/dev/shm") else tempfile.gettempdir())


class Crash(BaseException):
    pass


class Boundary(object):
    def __init__(self):
        self.armed = False
        self.count = 0
        self.crash_at = None
        self.log = []

    def hit(self, what):
        if not self.armed:
            return
        if self.crash_at is not None and self.count == self.crash_at:
            self.log.append("CRASH before %s" % what)
            raise Crash()
        self.log.append(what)
        self.count += 1


class CursorProxy(object):
    def __init__(self, cur, b):
        self._c, self._b = cur, b

    def execute(self, q, *a):
        self._b.hit("execute " + q.split()[0])
        self._c.execute(q, *a)
        return self

    def fetchone(self):
        return self._c.fetchone()

    def fetchall(self):
        return self._c.fetchall()

    def __getattr__(self, n):
        return getattr(self._c, n)


class ConnProxy(object):
    def __init__(self, conn, b):
        self.__dict__["_conn"] = conn
        self.__dict__["_b"] = b

    def cursor(self):
        return CursorProxy(self._conn.cursor(), self._b)

    def execute(self, q, *a):
        self._b.hit("execute " + q.split()[0])
        return self._conn.execute(q, *a)

    def commit(self):
        self._b.hit("commit")
        self._conn.commit()

    def __setattr__(self, n, v):
        setattr(self._conn, n, v)

    def __getattr__(self, n):
        return getattr(self._conn, n)


class FakeSqlite(object):
    """stands in for the sqlite3 module inside liteaxolotlstore: connect() returns a boundary-counting proxy"""
    IntegrityError = sqlite3.IntegrityError

    def __init__(self, b):
        self.b = b
        self.conns = []

    def connect(self, db, **kw):
        c = sqlite3.connect(db, **kw)
        self.conns.append(c)
        return ConnProxy(c, self.b)


def open_store(path, b):
    import yowsup.axolotl.store.sqlite.liteaxolotlstore as m
    fake = FakeSqlite(b)
    m.sqlite3 = fake
    try:
        st = m.LiteAxolotlStore(path)
    finally:
        m.sqlite3 = sqlite3
    return st, fake


def abandon(fake):
    """process death: connections vanish without commit"""
    for c in fake.conns:
        try:
            c.close()
        except Exception:
            pass


class Tok(object):
    """record stub: an opaque serialised blob"""

    def __init__(self, b):
        self.b = b

    def serialize(self):
        return self.b

    def getPublicKey(self):
        return self


class SKName(object):
    def __init__(self, g, s):
        self.g, self.s = g, s

    def getGroupId(self):
        return self.g

    def getSender(self):
        return self

    def getName(self):
        return self.s


def raw(path, q):
    c = sqlite3.connect(path)
    try:
        return c.execute(q).fetchall()
    finally:
        c.close()


# operations per table: name -> (apply(store), model update(dict))
def table_ops(table):
    A, B = b"RECORD-A" * 4, b"RECORD-B" * 5
    ops = {}
    if table == "sessions":
        for r in (11, 22):
            for nm, blob in (("A", A), ("B", B)):
                ops["store(%d,%s)" % (r, nm)] = (lambda s, r=r, blob=blob: s.storeSession(r, 1, Tok(blob)), lambda m, r=r, blob=blob: m.__setitem__(r, blob))
            ops["delete(%d)" % r] = (lambda s, r=r: s.deleteSession(r, 1), lambda m, r=r: m.pop(r, None))
        ops["deleteAll(11)"] = (lambda s: s.deleteAllSessions(11), lambda m: m.pop(11, None))
    elif table == "identities":
        for r in (11, 22):
            for nm, blob in (("A", A), ("B", B)):
                ops["save(%d,%s)" % (r, nm)] = (lambda s, r=r, blob=blob: s.saveIdentity(r, Tok(blob)), lambda m, r=r, blob=blob: m.__setitem__(r, blob))
    elif table == "prekeys":
        for i in (5, 6):
            ops["store(%d)" % i] = (lambda s, i=i: s.storePreKey(i, Tok(A + bytes([i]))), lambda m, i=i: m.__setitem__(i, (A + bytes([i]), None)))
            ops["remove(%d)" % i] = (lambda s, i=i: s.removePreKey(i), lambda m, i=i: m.pop(i, None))
        ops["setAsSent(5,6)"] = (lambda s: s.preKeyStore.setAsSent([5, 6]), lambda m: [m.__setitem__(i, (m[i][0], 1)) for i in (5, 6) if i in m])
    elif table == "signed_prekeys":
        for i in (1, 2):
            ops["store(%d)" % i] = (lambda s, i=i: s.storeSignedPreKey(i, Tok(B + bytes([i]))), lambda m, i=i: m.__setitem__(i, B + bytes([i])))
            ops["remove(%d)" % i] = (lambda s, i=i: s.removeSignedPreKey(i), lambda m, i=i: m.pop(i, None))
    elif table == "sender_keys":
        for g in ("g1@g.us", "g2@g.us"):
            for nm, blob in (("A", A), ("B", B)):
                ops["store(%s,%s)" % (g[:2], nm)] = (lambda s, g=g, blob=blob: s.storeSenderKey(SKName(g, 77), Tok(blob)), lambda m, g=g, blob=blob: m.__setitem__(g, blob))
    return ops


def read_table(path, table):
    if table == "sessions":
        return {r: bytes(b) for r, b in raw(path, "SELECT recipient_id, record FROM sessions")}
    if table == "identities":
        return {r: bytes(b) for r, b in raw(path, "SELECT recipient_id, public_key FROM identities WHERE recipient_id != -1")}
    if table == "prekeys":
        return {i: (bytes(b), s) for i, s, b in raw(path, "SELECT prekey_id, sent_to_server, record FROM prekeys")}
    if table == "signed_prekeys":
        return {i: bytes(b) for i, b in raw(path, "SELECT prekey_id, record FROM signed_prekeys")}
    if table == "sender_keys":
        return {(g.decode() if isinstance(g, bytes) else g): bytes(b) for g, b in raw(path, "SELECT group_id, record FROM sender_keys")}


def _valid_op(table, name, model):
    """operations that violate a documented precondition of the API are not generated (inserting an existing prekey id)"""
    if table in ("prekeys", "signed_prekeys") and name.startswith("store("):
        return int(name[6:-1]) not in model
    return True


def h_crash(ctx, table, n_ops):
    d = tempfile.mkdtemp(prefix="c13_", dir=_TMP)
    try:
        path = os.path.join(d, "axolotl.db")
        b = Boundary()
        store, fake = open_store(path, b)
        local0 = raw(path, "SELECT registration_id, public_key, private_key FROM identities WHERE recipient_id = -1")
        ops = table_ops(table)
        names = sorted(ops)
        model = {}
        seq = []
        k = ctx.choice("n_ops", list(range(1, n_ops + 1)))
        for i in range(k):
            name = ctx.choice("op%d" % i, names)
            if not _valid_op(table, name, model):
                return []
            seq.append(name)
            if i < k - 1:
                ops[name][0](store)
                ops[name][1](model)
        ctx.note("sequence %s" % seq)
        pre = dict(model)
        post = dict(model)
        ops[seq[-1]][1](post)
        crash_at = ctx.choice("crash_at", ["none", 0, 1, 2, 3, 4])
        b.armed, b.crash_at, b.count = True, (None if crash_at == "none" else crash_at), 0
        crashed = False
        try:
            ops[seq[-1]][0](store)
        except Crash:
            crashed = True
        b.armed = False
        ctx.note("boundaries %s" % b.log)
        abandon(fake)
        # reopen with a fresh store (process restart)
        store2, fake2 = open_store(path, Boundary())
        got = read_table(path, table)
        obs = []
        if not crashed:
            obs.append(("no-crash: contents after reopen == model (%s)" % seq[-1], got == post))
        else:
            for key in set(pre) | set(post) | set(got):
                allowed = [pre.get(key, "<absent>"), post.get(key, "<absent>")]
                obs.append(("crash during %s before boundary %s: record %r is its previous or its new value (found %s)" % (seq[-1].split("(")[0], crash_at, key, "absent" if key not in got else "a value"),
                            got.get(key, "<absent>") in allowed))
        local1 = raw(path, "SELECT registration_id, public_key, private_key FROM identities WHERE recipient_id = -1")
        obs.append(("own identity and registration id unchanged after reopen", local0 == local1 and len(local1) == 1))
        abandon(fake2)
        return obs
    finally:
        shutil.rmtree(d, ignore_errors=True)


def h_durable_real(ctx):
    """real python-axolotl records through the public load API after close/reopen (blob fidelity, text_factory=bytes)"""
    from axolotl.util.keyhelper import KeyHelper
    from axolotl.state.sessionrecord import SessionRecord
    from axolotl.groups.state.senderkeyrecord import SenderKeyRecord
    from axolotl.groups.senderkeyname import SenderKeyName
    from axolotl.axolotladdress import AxolotlAddress
    d = tempfile.mkdtemp(prefix="c13_", dir=_TMP)
    try:
        path = os.path.join(d, "axolotl.db")
        store, fake = open_store(path, Boundary())
        ident = KeyHelper.generateIdentityKeyPair()
        prekeys = KeyHelper.generatePreKeys(7, 3)
        spk = KeyHelper.generateSignedPreKey(store.getIdentityKeyPair(), 4)
        which = ctx.choice("replace_session", [False, True])
        sess = SessionRecord()
        store.storeSession(4915901234567, 1, sess)
        if which:
            store.storeSession(4915901234567, 1, sess)
        store.saveIdentity(4915901234567, ident.getPublicKey())
        for p in prekeys:
            store.storePreKey(p.getId(), p)
        store.preKeyStore.setAsSent([prekeys[0].getId()])
        store.storeSignedPreKey(spk.getId(), spk)
        skn = SenderKeyName("49159-14@g.us", AxolotlAddress("4915901234567", 0))
        skr = SenderKeyRecord()
        store.storeSenderKey(skn, skr)
        reg, own = store.getLocalRegistrationId(), store.getIdentityKeyPair().serialize()
        for c in fake.conns:
            c.close()
        s2, f2 = open_store(path, Boundary())
        obs = [("session read back", s2.containsSession(4915901234567, 1) and s2.loadSession(4915901234567, 1).serialize() == sess.serialize()),
               ("pinned identity read back", s2.isTrustedIdentity(4915901234567, ident.getPublicKey()) and not s2.isTrustedIdentity(4915901234567, KeyHelper.generateIdentityKeyPair().getPublicKey())),
               ("prekeys read back", all(s2.loadPreKey(p.getId()).serialize() == p.serialize() for p in prekeys)),
               ("uploaded flag read back", sorted(r.getId() for r in s2.preKeyStore.loadUnsentPendingPreKeys()) == sorted(p.getId() for p in prekeys[1:])),
               ("signed prekey read back", s2.loadSignedPreKey(spk.getId()).serialize() == spk.serialize()),
               ("sender key read back", s2.loadSenderKey(skn).serialize() == skr.serialize()),
               ("own identity and registration id read back", s2.getLocalRegistrationId() == reg and s2.getIdentityKeyPair().serialize() == own)]
        abandon(f2)
        return obs
    finally:
        shutil.rmtree(d, ignore_errors=True)


def finding_key(case, label, values, where):
    if label.startswith("crash during store before boundary") and "sessions" in case:
        return "C13|storeSession replace: crash between delete-commit and insert-commit loses the session"
    if label.startswith("crash during save before boundary") and "identities" in case:
        return "C13|saveIdentity replace: crash between delete-commit and insert-commit loses the pinned identity"
    return None


TABLES = ("sessions", "identities", "prekeys", "signed_prekeys", "sender_keys")


def cases(tier):
    n = 2 if tier == "quick" else 4
    cs = [dict(name="crash[%s,ops<=%d]" % (t, n), fn=h_crash, args=(t, n), max_paths=100000, timeout_s=600 if tier == "quick" else 3400, weight=10, keep_samples=10) for t in TABLES]
    cs.append(dict(name="durable[real-records]", fn=h_durable_real))
    return cs
