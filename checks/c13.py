"""C13 -- the encryption key store is durable and updates are all-or-nothing across crashes.

Real store classes on the real sqlite3 library (temporary database file per path).  The solver chooses the operation
sequence (per table, small operand pools) and the crash point: every execute / commit boundary of the last operation;
a crash abandons the connection without commit, the file is reopened with a fresh store and inspected."""
import os, shutil, sqlite3, tempfile
from sx import core, hooks, harness as H
from checks import stack_common as ST

PROPERTY = "C13"
LEVEL = "fault_enumeration"
CODE = ["sx/symsql.py (model of sqlite3, validated against the real library by bin/selftest)", "yowsup/axolotl/store/sqlite/liteaxolotlstore.py", "litesessionstore.py", "liteidentitykeystore.py", "liteprekeystore.py", "litesignedprekeystore.py", "litesenderkeystore.py"]
BOUNDS = {"quick": "[+ prekey op setAsSent(7,5); durable case with text-typed columns] " 
                   "[+ 5 pairs of profile directory names] " 
                   "[+ death kinds {killed, interrupted, commit refused}; kill: child process, 3 operations x record size {64 B, 1.5 MB, 3.5 MB} x {dies at commit, survives}] " 
                   "[+ journal premise (PRAGMA journal_mode of every connection) on every path] " 
                   "per table: every sequence of <=2 operations over {store A, store B (replace), delete, ...} on 2 keys, crash at every statement/commit boundary of the last operation, reopen; "
                   "symbolic: <=2 operations with unconstrained ids (0..2^40), group ids (strings <=6), record blobs (1..64 bytes), 32-byte identity keys, registration id; crash before boundary 0..3 or none",
          "thorough": "sequences of <=4 operations (symbolic: <=3)"}
OUTSIDE = ["sqlite's own journal atomicity (trusted: a transaction that was not committed is rolled back when the file is reopened -- under the premise, checked on every path, that the connection keeps its rollback journal / WAL on disk; exercised for real, with a child process that dies at its commit, for transactions larger than the page cache)", "power-loss below the OS (fsync ordering)",
           "record contents: blobs are opaque tokens in the crash harness (sqlite only stores and compares them); real python-axolotl records are used in the durability harness"]
ASSUMPTIONS = ["a process death = the connection is abandoned at a statement/commit boundary without commit; either at once (killed) or after the stack has unwound once (interrupted: finally blocks of the store code run)",
               "symbolic cases: sqlite3 behaves like sx/symsql.py on the statements issued (differentially tested each run; every model replayed on real sqlite3); python-axolotl record classes are transparent wrappers of their bytes"]
EXPLANATION = "solver-driven enumeration of operation sequence x crash boundary on the real stores over real sqlite"

_TMP = os.environ.get("VERIF_TMP") or ("/dev/shm" if os.path.isdir("/dev/shm") else tempfile.gettempdir())


class Crash(BaseException):
    pass


class Interrupted(BaseException):
    """the process is told to stop (SIGTERM handled by sys.exit, Ctrl-C): the stack unwinds -- `finally` blocks and context managers of the
    code under test DO run -- and then the process ends without any further store call"""


class Boundary(object):
    def __init__(self):
        self.armed = False
        self.count = 0
        self.crash_at = None
        self.unwind = False          # True: death by interruption (stack unwinds once), False: killed outright
        self.busy = False            # True: no death -- the statement at this boundary fails with "database is locked" (another process holds the file
                                     # past the busy timeout); once
        self.locked = False          # True: no death -- the COMMIT at this boundary is refused ("database is locked": another process reads the file)
        self.log = []

    def hit(self, what):
        if not self.armed:
            return
        if self.crash_at is not None and self.count == self.crash_at:
            if self.busy:
                self.log.append("BUSY at %s (database is locked)" % what)
                self.crash_at = None
                raise sqlite3.OperationalError("database is locked")
            if self.locked:
                if what != "commit":
                    raise core.Infeasible()                    # only a commit is refused in this fault model
                self.log.append("REFUSED commit (database is locked)")
                self.crash_at = None
                raise sqlite3.OperationalError("database is locked")   # sqlite leaves the transaction open when COMMIT fails with BUSY
            if self.unwind:
                self.log.append("INTERRUPTED before %s" % what)
                self.crash_at = None            # what the unwinding code still does to the store is executed
                raise Interrupted()
            self.log.append("CRASH before %s" % what)
            raise Crash()
        self.log.append(what)
        self.count += 1


class CursorProxy(object):
    def __init__(self, cur, b):
        self._c, self._b = cur, b

    def execute(self, q, *a):
        self._b.hit("execute " + q.split()[0])
        self._c.execute(q, *a)
        return self

    def fetchone(self):
        return self._c.fetchone()

    def fetchall(self):
        return self._c.fetchall()

    def __getattr__(self, n):
        return getattr(self._c, n)


class ConnProxy(object):
    def __init__(self, conn, b):
        self.__dict__["_conn"] = conn
        self.__dict__["_b"] = b

    def cursor(self):
        return CursorProxy(self._conn.cursor(), self._b)

    def execute(self, q, *a):
        self._b.hit("execute " + q.split()[0])
        return self._conn.execute(q, *a)

    def commit(self):
        self._b.hit("commit")
        self._conn.commit()

    def __setattr__(self, n, v):
        setattr(self._conn, n, v)

    def __getattr__(self, n):
        return getattr(self._conn, n)


class FakeSqlite(object):
    """stands in for the sqlite3 module inside liteaxolotlstore: connect() returns a boundary-counting proxy"""
    IntegrityError = sqlite3.IntegrityError

    def __init__(self, b):
        self.b = b
        self.conns = []

    def connect(self, db, **kw):
        c = sqlite3.connect(db, **kw)
        self.conns.append(c)
        return ConnProxy(c, self.b)


def open_store(path, b):
    import yowsup.axolotl.store.sqlite.liteaxolotlstore as m
    fake = FakeSqlite(b)
    m.sqlite3 = fake
    try:
        st = m.LiteAxolotlStore(path)
    finally:
        m.sqlite3 = sqlite3
    return st, fake


DURABLE_JOURNALS = ("delete", "truncate", "persist", "wal")


def journal_modes(conns):
    """journal mode of each connection (real sqlite3 or the symbolic engine), asked the way an application would"""
    out = []
    for c in conns:
        r = c.execute("PRAGMA journal_mode").fetchone()[0]
        out.append(r.decode() if isinstance(r, bytes) else str(r))
    return out


def journal_obs(modes):
    # the all-or-nothing argument trusts sqlite to roll an unfinished transaction back when the file is reopened; sqlite documents that
    # only for a rollback journal / WAL kept on disk (journal_mode MEMORY or OFF: "the database file will very likely go corrupt" if the
    # process dies mid-transaction) -- the premise is checked on every path instead of assumed
    return [("every connection keeps its rollback journal on disk, so a death inside a transaction is rolled back on reopen (journal modes %s)" % modes,
             all(m.lower() in DURABLE_JOURNALS for m in modes))]


def abandon(fake):
    """process death: connections vanish without commit"""
    for c in fake.conns:
        try:
            c.close()
        except Exception:
            pass


class Tok(object):
    """record stub: an opaque serialised blob"""

    def __init__(self, b):
        self.b = b

    def serialize(self):
        return self.b

    def getPublicKey(self):
        return self


class SKName(object):
    def __init__(self, g, s):
        self.g, self.s = g, s

    def getGroupId(self):
        return self.g

    def getSender(self):
        return self

    def getName(self):
        return self.s


def raw(path, q):
    c = sqlite3.connect(path)
    try:
        return c.execute(q).fetchall()
    finally:
        c.close()


# operations per table: name -> (apply(store), model update(dict))
def table_ops(table):
    A, B = b"RECORD-A" * 4, b"RECORD-B" * 5
    ops = {}
    if table == "sessions":
        for r in (11, 22):
            for nm, blob in (("A", A), ("B", B)):
                ops["store(%d,%s)" % (r, nm)] = (lambda s, r=r, blob=blob: s.storeSession(r, 1, Tok(blob)), lambda m, r=r, blob=blob: m.__setitem__(r, blob))
            ops["delete(%d)" % r] = (lambda s, r=r: s.deleteSession(r, 1), lambda m, r=r: m.pop(r, None))
        ops["deleteAll(11)"] = (lambda s: s.deleteAllSessions(11), lambda m: m.pop(11, None))
    elif table == "identities":
        for r in (11, 22):
            for nm, blob in (("A", A), ("B", B)):
                ops["save(%d,%s)" % (r, nm)] = (lambda s, r=r, blob=blob: s.saveIdentity(r, Tok(blob)), lambda m, r=r, blob=blob: m.__setitem__(r, blob))
    elif table == "prekeys":
        for i in (5, 6):
            ops["store(%d)" % i] = (lambda s, i=i: s.storePreKey(i, Tok(A + bytes([i]))), lambda m, i=i: m.__setitem__(i, (A + bytes([i]), None)))
            ops["remove(%d)" % i] = (lambda s, i=i: s.removePreKey(i), lambda m, i=i: m.pop(i, None))
        ops["setAsSent(5,6)"] = (lambda s: s.preKeyStore.setAsSent([5, 6]), lambda m: [m.__setitem__(i, (m[i][0], 1)) for i in (5, 6) if i in m])
        # a confirmed upload whose ids are neither consecutive nor ordered (the keys between them belong to another, unconfirmed upload)
        ops["setAsSent(7,5)"] = (lambda s: s.preKeyStore.setAsSent([7, 5]), lambda m: [m.__setitem__(i, (m[i][0], 1)) for i in (7, 5) if i in m])
    elif table == "signed_prekeys":
        for i in (1, 2):
            ops["store(%d)" % i] = (lambda s, i=i: s.storeSignedPreKey(i, Tok(B + bytes([i]))), lambda m, i=i: m.__setitem__(i, B + bytes([i])))
            ops["remove(%d)" % i] = (lambda s, i=i: s.removeSignedPreKey(i), lambda m, i=i: m.pop(i, None))
    elif table == "sender_keys":
        for g in ("g1@g.us", "g2@g.us"):
            for nm, blob in (("A", A), ("B", B)):
                ops["store(%s,%s)" % (g[:2], nm)] = (lambda s, g=g, blob=blob: s.storeSenderKey(SKName(g, 77), Tok(blob)), lambda m, g=g, blob=blob: m.__setitem__(g, blob))
    return ops


def read_table(path, table):
    if table == "sessions":
        return {r: bytes(b) for r, b in raw(path, "SELECT recipient_id, record FROM sessions")}
    if table == "identities":
        return {r: bytes(b) for r, b in raw(path, "SELECT recipient_id, public_key FROM identities WHERE recipient_id != -1")}
    if table == "prekeys":
        return {i: (bytes(b), s) for i, s, b in raw(path, "SELECT prekey_id, sent_to_server, record FROM prekeys")}
    if table == "signed_prekeys":
        return {i: bytes(b) for i, b in raw(path, "SELECT prekey_id, record FROM signed_prekeys")}
    if table == "sender_keys":
        return {(g.decode() if isinstance(g, bytes) else g): bytes(b) for g, b in raw(path, "SELECT group_id, record FROM sender_keys")}


def _valid_op(table, name, model):
    """operations that violate a documented precondition of the API are not generated (inserting an existing prekey id)"""
    if table in ("prekeys", "signed_prekeys") and name.startswith("store("):
        return int(name[6:-1]) not in model
    return True


def h_crash(ctx, table, n_ops):
    d = tempfile.mkdtemp(prefix="c13_", dir=_TMP)
    try:
        path = os.path.join(d, "axolotl.db")
        b = Boundary()
        store, fake = open_store(path, b)
        local0 = raw(path, "SELECT registration_id, public_key, private_key FROM identities WHERE recipient_id = -1")
        ops = table_ops(table)
        names = sorted(ops)
        model = {}
        seq = []
        k = ctx.choice("n_ops", list(range(1, n_ops + 1)))
        for i in range(k):
            name = ctx.choice("op%d" % i, names)
            if not _valid_op(table, name, model):
                return []
            seq.append(name)
            if i < k - 1:
                ops[name][0](store)
                ops[name][1](model)
        ctx.note("sequence %s" % seq)
        pre = dict(model)
        post = dict(model)
        ops[seq[-1]][1](post)
        crash_at = ctx.choice("crash_at", ["none", 0, 1, 2, 3, 4])
        death = ctx.choice("death", ["killed", "interrupted", "commit-refused"])
        b.unwind, b.locked = death == "interrupted", death == "commit-refused"
        b.armed, b.crash_at, b.count = True, (None if crash_at == "none" else crash_at), 0
        crashed = False
        try:
            ops[seq[-1]][0](store)
        except (Crash, Interrupted):
            crashed = True
        except sqlite3.OperationalError:
            # the refusal is reported to the caller: the update may or may not be there after the restart, but nothing is half done;
            # an operation that RETURNS although its commit was refused has promised durability it does not have (checked as no-crash)
            crashed = True
        b.armed = False
        ctx.note("boundaries %s" % b.log)
        jobs = journal_obs(journal_modes(fake.conns))
        abandon(fake)
        # reopen with a fresh store (process restart)
        store2, fake2 = open_store(path, Boundary())
        got = read_table(path, table)
        obs = jobs
        if not crashed:
            obs.append(("no-crash: contents after reopen == model (%s)" % seq[-1], got == post))
        else:
            for key in set(pre) | set(post) | set(got):
                allowed = [pre.get(key, "<absent>"), post.get(key, "<absent>")]
                obs.append(("crash during %s before boundary %s: record %r is its previous or its new value (found %s)" % (seq[-1].split("(")[0], crash_at, key, "absent" if key not in got else "a value"),
                            got.get(key, "<absent>") in allowed))
        local1 = raw(path, "SELECT registration_id, public_key, private_key FROM identities WHERE recipient_id = -1")
        obs.append(("own identity and registration id unchanged after reopen", local0 == local1 and len(local1) == 1))
        abandon(fake2)
        return obs
    finally:
        shutil.rmtree(d, ignore_errors=True)


def h_two_profiles(ctx):
    """two accounts of one user, each with its own store file in its own directory (the directory carries the profile's name, which is the
    user's choice): what one account stores never shows up in, or replaces, what the other one stored; each file is where it was asked for"""
    d = tempfile.mkdtemp(prefix="c13p_", dir=_TMP)
    try:
        a, b_ = ctx.choice("profile_names", [("alice", "bob"), ("team#1", "team#2"), ("who?me", "who?you"), ("100%", "100%25"), ("a b", "a c")])
        pa, pb = os.path.join(d, a, "axolotl.db"), os.path.join(d, b_, "axolotl.db")
        os.makedirs(os.path.dirname(pa))
        os.makedirs(os.path.dirname(pb))
        sa, fa = open_store(pa, Boundary())
        sa.storeSession(5, 1, Tok(b"session of the first account"))
        ida = raw(pa, "SELECT registration_id, public_key FROM identities WHERE recipient_id = -1") if os.path.isfile(pa) else None
        abandon(fa)
        sb, fb = open_store(pb, Boundary())
        sb.storeSession(5, 1, Tok(b"session of the second account"))
        abandon(fb)
        obs = [("each store file is where it was asked for", os.path.isfile(pa) and os.path.isfile(pb))]
        if not (os.path.isfile(pa) and os.path.isfile(pb)):
            return obs
        s2, f2 = open_store(pa, Boundary())
        abandon(f2)
        ra, rb = read_table(pa, "sessions"), read_table(pb, "sessions")
        obs.append(("the first account's session is still its own after the second account stored one", ra == {5: b"session of the first account"}))
        obs.append(("the second account has its own", rb == {5: b"session of the second account"}))
        obs.append(("the first account's own identity is unchanged", raw(pa, "SELECT registration_id, public_key FROM identities WHERE recipient_id = -1") == ida))
        return obs
    finally:
        shutil.rmtree(d, ignore_errors=True)


def h_kill(ctx):
    """a REAL process death: a child process (real store classes, real sqlite3, no doubles) replaces / adds / deletes a session and dies
    by os._exit when it reaches its COMMIT; the record size is the solver's choice from small to several MB (above sqlite's page cache a
    transaction's pages are already in the database file before the commit, and only the on-disk rollback journal can take them out
    again).  The parent reopens the file through the store's own constructor and reads it with sqlite3: every record is whole, the touched
    one holds its previous or its new value, the file passes sqlite's integrity check"""
    import subprocess, sys
    d = tempfile.mkdtemp(prefix="c13k_", dir=_TMP)
    try:
        path = os.path.join(d, "axolotl.db")
        size = ctx.choice("record_size", [64, 1500000, 3500000])
        op = ctx.choice("operation", ["replace-session", "add-session", "delete-session"])
        die_at = ctx.choice("dies_at", ["commit", "never"])
        store, fake = open_store(path, Boundary())
        old = b"OLD" + bytes((i * 17 + 3) % 249 for i in range(1024)) * (size // 1024)
        store.storeSession(5, 1, Tok(old))
        store.storeSession(6, 1, Tok(b"neighbour"))
        abandon(fake)
        repo = (os.environ.get("YOWSUP_REPO") or "/repo")
        child = os.path.join(os.path.dirname(os.path.abspath(__file__)), "c13_child.py")
        py = sys.executable                  # the interpreter of this check (overlay environment with the library's dependencies)
        r = subprocess.run([py, child, repo, path, op, str(size), die_at], stdout=subprocess.PIPE, stderr=subprocess.STDOUT, timeout=120)
        obs = [("the child process ran the operation up to the chosen point (exit %d: %s)" % (r.returncode, r.stdout.decode("utf-8", "replace")[-200:]), r.returncode in (0, 17))]
        if r.returncode not in (0, 17):
            return obs
        try:
            store2, fake2 = open_store(path, Boundary())          # restart: the store's own way of opening the file
            abandon(fake2)
            c = sqlite3.connect(path)
            rows = dict(((rid, dev), bytes(rec)) for rid, dev, rec in c.execute("SELECT recipient_id, device_id, record FROM sessions").fetchall())
            integrity = c.execute("PRAGMA integrity_check").fetchall()
            c.close()
        except sqlite3.DatabaseError as e:
            return obs + [("after the death the database can be read (%s)" % e, False)]
        new5 = {"replace-session": True, "add-session": False, "delete-session": False}[op]
        obs.append(("sqlite's integrity check passes after the restart (%s)" % (integrity[:1],), integrity == [("ok",)]))
        obs.append(("the neighbouring session is untouched", rows.get((6, 1)) == b"neighbour"))
        got5, got9 = rows.get((5, 1)), rows.get((9, 1))
        if die_at == "never":
            obs.append(("without a death the operation is durable", (got5 is None if op == "delete-session" else got5 == old if op == "add-session" else (got5 or b"")[:3] == b"NEW")
                        and ((got9 or b"")[:3] == b"NEW" if op == "add-session" else got9 is None)))
        else:
            ok5 = got5 == old or (op == "replace-session" and got5 is not None and got5[:3] == b"NEW" and len(got5) == 3 + size) or (op == "delete-session" and got5 is None)
            ok9 = got9 is None or (op == "add-session" and got9[:3] == b"NEW" and len(got9) == 3 + size)
            obs.append(("the touched session holds its previous or its new value, whole", ok5 and ok9))
        return obs
    finally:
        shutil.rmtree(d, ignore_errors=True)


@ST.deterministic("c13-h_durable_real")
def h_durable_real(ctx):
    """real python-axolotl records through the public load API after close/reopen (blob fidelity, text_factory=bytes)"""
    from axolotl.util.keyhelper import KeyHelper
    from axolotl.state.sessionrecord import SessionRecord
    from axolotl.groups.state.senderkeyrecord import SenderKeyRecord
    from axolotl.groups.senderkeyname import SenderKeyName
    from axolotl.axolotladdress import AxolotlAddress
    d = tempfile.mkdtemp(prefix="c13_", dir=_TMP)
    try:
        path = os.path.join(d, "axolotl.db")
        store, fake = open_store(path, Boundary())
        ident = KeyHelper.generateIdentityKeyPair()
        prekeys = KeyHelper.generatePreKeys(7, 3)
        spk = KeyHelper.generateSignedPreKey(store.getIdentityKeyPair(), 4)
        which = ctx.choice("replace_session", [False, True])
        sess = SessionRecord()
        store.storeSession(4915901234567, 1, sess)
        if which:
            store.storeSession(4915901234567, 1, sess)
        store.saveIdentity(4915901234567, ident.getPublicKey())
        for p in prekeys:
            store.storePreKey(p.getId(), p)
        store.preKeyStore.setAsSent([prekeys[0].getId()])
        store.storeSignedPreKey(spk.getId(), spk)
        skn = SenderKeyName("49159-14@g.us", AxolotlAddress("4915901234567", 0))
        skr = SenderKeyRecord()
        store.storeSenderKey(skn, skr)
        reg, own = store.getLocalRegistrationId(), store.getIdentityKeyPair().serialize()
        for c in fake.conns:
            c.close()
        if ctx.flag("file_written_by_an_installation_that_stored_records_as_text"):
            # what a Python 2 run of the library left behind: the same bytes, but typed TEXT in the file (str was the byte string type)
            c = sqlite3.connect(path)
            for table, cols in (("sessions", ("record",)), ("identities", ("public_key", "private_key")), ("prekeys", ("record",)), ("signed_prekeys", ("record",)), ("sender_keys", ("record",))):
                for col in cols:
                    c.execute("UPDATE %s SET %s = CAST(%s AS TEXT) WHERE %s IS NOT NULL" % (table, col, col, col))
            c.commit()
            c.close()
        s2, f2 = open_store(path, Boundary())
        obs = [("session read back", s2.containsSession(4915901234567, 1) and s2.loadSession(4915901234567, 1).serialize() == sess.serialize()),
               ("pinned identity read back", s2.isTrustedIdentity(4915901234567, ident.getPublicKey()) and not s2.isTrustedIdentity(4915901234567, KeyHelper.generateIdentityKeyPair().getPublicKey())),
               ("prekeys read back", all(s2.loadPreKey(p.getId()).serialize() == p.serialize() for p in prekeys)),
               ("uploaded flag read back", sorted(r.getId() for r in s2.preKeyStore.loadUnsentPendingPreKeys()) == sorted(p.getId() for p in prekeys[1:])),
               ("signed prekey read back", s2.loadSignedPreKey(spk.getId()).serialize() == spk.serialize()),
               ("sender key read back", s2.loadSenderKey(skn).serialize() == skr.serialize()),
               ("own identity and registration id read back", s2.getLocalRegistrationId() == reg and s2.getIdentityKeyPair().serialize() == own)]
        abandon(f2)
        return obs
    finally:
        shutil.rmtree(d, ignore_errors=True)


# ---- the same stores on the symbolic SQL engine: ids, records and keys are solver variables ------------------------------------------
class Rec(object):
    """transparent stand-in for python-axolotl's record classes (SessionRecord, PreKeyRecord, ...): keeps the serialised bytes"""

    def __init__(self, *a, **k):
        self.serialized = k.get("serialized", a[0] if a else None)

    def serialize(self):
        return self.serialized

    def isEmpty(self):
        return self.serialized is None

    def getPublicKey(self):
        return self


class Wrap(object):
    """transparent stand-in for IdentityKeyPair / IdentityKey / DjbECPublicKey / DjbECPrivateKey: remembers what it was built from"""

    def __init__(self, *a):
        self.a = a


class Assoc(object):
    """ghost mapping whose keys may be symbolic: lookups decide key equality through the explorer"""

    def __init__(self, items=()):
        self.items = list(items)

    def copy(self):
        return Assoc(self.items)

    def _find(self, k):
        for i, (kk, _v) in enumerate(self.items):
            if _keq(kk, k):
                return i
        return None

    def get(self, k, d=None):
        i = self._find(k)
        return d if i is None else self.items[i][1]

    def set(self, k, v):
        i = self._find(k)
        if i is None:
            self.items.append((k, v))
        else:
            self.items[i] = (self.items[i][0], v)

    def pop(self, k):
        i = self._find(k)
        if i is not None:
            self.items.pop(i)

    def keys(self):
        return [k for k, _ in self.items]


def _keq(a, b):
    if isinstance(a, tuple):
        return all(_keq(x, y) for x, y in zip(a, b))
    return bool(a == b)


ABSENT = "<absent>"


def _veq(a, b):
    """equality of two stored values (ropes / ints / None / ABSENT) as an obligation term"""
    if a is ABSENT or b is ABSENT or a is None or b is None:
        return a is b
    if isinstance(a, tuple):
        return core.conj(*[_veq(x, y) for x, y in zip(a, b)])
    if isinstance(a, (int, core.SymInt)) and isinstance(b, (int, core.SymInt)):
        return core.eq(a, b)
    from sx.vals import valkey, SymSeq
    if isinstance(a, SymSeq) and isinstance(b, SymSeq) and valkey(a) == valkey(b):
        return True
    try:
        return H.rope_eq(a, b)
    except core.Unsupported:
        return False          # two different abstract inputs are different values (they are generic: the replay gives them different contents)


def _any(*terms):
    import z3
    ts = []
    for t in terms:
        if t is True:
            return True
        if t is False:
            continue
        ts.append(t.t if isinstance(t, core.SymBool) else t)
    return z3.Or(ts) if ts else False


class SymEnv(object):
    """the store modules bound to the symbolic SQL engine and to transparent record classes"""

    def __init__(self, ctx, b):
        from sx import symsql
        import yowsup.axolotl.store.sqlite.liteaxolotlstore as m
        import yowsup.axolotl.store.sqlite.litesenderkeystore as ms
        import yowsup.axolotl.store.sqlite.liteidentitykeystore as mi
        import yowsup.axolotl.store.sqlite.litesessionstore as mse
        import yowsup.axolotl.store.sqlite.liteprekeystore as mp
        import yowsup.axolotl.store.sqlite.litesignedprekeystore as msp
        self.symsql, self.b, self.ctx = symsql, b, ctx
        self.mods = (m, ms, mi, mse, mp, msp)
        self.saved = []
        env = self

        class Engine(object):
            IntegrityError, OperationalError = symsql.IntegrityError, symsql.OperationalError
            Binary = staticmethod(lambda x: x)

            @staticmethod
            def connect(path, **kw):
                c = symsql.connect(path, **kw)
                c.boundary = env.b.hit
                env.conns.append(c)
                return c
        self.conns = []
        self.tmp = None
        self.path = "sym:axolotl.db"
        if not H.sym(ctx):
            # replay: the REAL sqlite3 library on a real file, same boundaries
            self.tmp = tempfile.mkdtemp(prefix="c13_", dir=_TMP)
            self.path = os.path.join(self.tmp, "axolotl.db")
            self.fake = Engine = FakeSqlite(b)
        self.K = H.blob(ctx, "IDK", 32)
        self.P = H.blob(ctx, "IDP", 32)
        self.reg = ctx.int("registration_id", 1, 2 ** 31 - 2)

        class KH(object):
            @staticmethod
            def generateIdentityKeyPair():
                class Pair(object):
                    def getPublicKey(s):
                        return Rec(serialized=b"\x05" + env.K)

                    def getPrivateKey(s):
                        return Rec(serialized=env.P)
                return Pair()

            @staticmethod
            def generateRegistrationId(x):
                return env.reg
        for mod, names in ((m, {"sqlite3": Engine}), (ms, {"sqlite3": Engine, "SenderKeyRecord": Rec}), (mse, {"SessionRecord": Rec}), (mp, {"PreKeyRecord": Rec}), (msp, {"SignedPreKeyRecord": Rec}),
                           (mi, {"KeyHelper": KH, "IdentityKeyPair": Wrap, "IdentityKey": Wrap, "DjbECPublicKey": Wrap, "DjbECPrivateKey": Wrap})):
            for n, v in names.items():
                self.saved.append((mod, n, getattr(mod, n)))
                setattr(mod, n, v)
        self.m = m
        symsql.reset()

    def open(self):
        return self.m.LiteAxolotlStore(self.path)

    def die(self):
        if self.tmp:
            abandon(self.fake)
            self.fake.conns = []
            return
        for c in self.conns:
            c.crash()
        self.conns = []

    def durable(self, table):
        if self.tmp:
            c = sqlite3.connect(self.path)
            c.row_factory = sqlite3.Row
            try:
                return [{k: (bytes(r[k]) if isinstance(r[k], (bytes, memoryview)) else r[k]) for k in r.keys()} for r in c.execute("SELECT * FROM %s" % table).fetchall()]
            finally:
                c.close()
        return self.symsql.committed_rows(self.path, table)

    def restore(self):
        for mod, n, v in self.saved:
            setattr(mod, n, v)
        if self.tmp:
            self.die()
            shutil.rmtree(self.tmp, ignore_errors=True)


SYM_OPS = {"sessions": ("store", "delete", "deleteAll"), "identities": ("save",), "prekeys": ("store", "remove", "setAsSent"), "signed_prekeys": ("store", "remove"), "sender_keys": ("store",)}


def h_sym(ctx, table, n_ops):
    """operation sequences with SYMBOLIC ids and records on the real store classes over the symbolic SQL engine; crash at a solver-chosen
    statement/commit boundary of the last operation; reopen; durable contents against a ghost mapping; read-back through the load API"""
    b = Boundary()
    env = SymEnv(ctx, b)
    try:
        store = env.open()
        ghost = Assoc()
        k = ctx.choice("n_ops", list(range(1, n_ops + 1)))
        seq = []
        last = None
        for i in range(k):
            op = ctx.choice("op%d" % i, list(SYM_OPS[table]))
            blob = H.blob(ctx, "REC%d" % i, ctx.int("len%d" % i, 1, 64))
            if table == "sender_keys":
                key = (H.zstr(ctx, "group%d" % i, maxlen=6), ctx.int("sender%d" % i, 1, 2 ** 40))
            else:
                key = ctx.int("id%d" % i, 0, 2 ** 40)
            if table in ("prekeys", "signed_prekeys") and op == "store" and ghost.get(key, ABSENT) is not ABSENT:
                # an id that is still in the store (the id space is circular): as the last operation of a prekeys sequence the call either
                # refuses loudly (the record stays) or the new record is what a restarted process loads; elsewhere outside the sequences
                if not (table == "prekeys" and i == k - 1):
                    return []
            if table == "sessions":
                run = {"store": lambda: store.storeSession(key, 1, Rec(serialized=blob)), "delete": lambda: store.deleteSession(key, 1), "deleteAll": lambda: store.deleteAllSessions(key)}[op]
                upd = (lambda g: g.set(key, blob)) if op == "store" else (lambda g: g.pop(key))
            elif table == "identities":
                run = lambda: store.saveIdentity(key, Rec(serialized=blob))
                upd = lambda g: g.set(key, blob)
            elif table == "prekeys":
                run = {"store": lambda: store.storePreKey(key, Rec(serialized=blob)), "remove": lambda: store.removePreKey(key), "setAsSent": lambda: store.preKeyStore.setAsSent([key])}[op]
                if op == "store":
                    upd = lambda g: g.set(key, (blob, None))
                elif op == "remove":
                    upd = lambda g: g.pop(key)
                else:
                    upd = lambda g: g.set(key, (g.get(key)[0], 1)) if g.get(key, ABSENT) is not ABSENT else None
            elif table == "signed_prekeys":
                run = {"store": lambda: store.storeSignedPreKey(key, Rec(serialized=blob)), "remove": lambda: store.removeSignedPreKey(key)}[op]
                upd = (lambda g: g.set(key, blob)) if op == "store" else (lambda g: g.pop(key))
            else:
                run = lambda: store.storeSenderKey(SKName(key[0], key[1]), Rec(serialized=blob))
                upd = lambda g: g.set(key, blob)
            seq.append(op)
            if i < k - 1:
                run()
                upd(ghost)
            else:
                last = (op, run, upd, key)
        ctx.note("sequence %s" % seq)
        op, run, upd, key = last
        pre, post = ghost.copy(), ghost.copy()
        upd(post)
        crash_at = ctx.choice("crash_at", ["none", 0, 1, 2, 3])
        death = ctx.choice("death", ["killed", "interrupted", "commit-refused"])
        b.unwind, b.locked = death == "interrupted", death == "commit-refused"
        b.armed, b.crash_at, b.count = True, (None if crash_at == "none" else crash_at), 0
        crashed = False
        try:
            run()
        except (Crash, Interrupted):
            crashed = True
        except sqlite3.OperationalError:
            crashed = True            # reported to the caller (see h_crash)
        except sqlite3.IntegrityError:
            post = pre.copy()         # refused and reported to the caller: nothing was claimed to be stored
        b.armed = False
        jobs = journal_obs(journal_modes(env.fake.conns if env.tmp else env.conns))
        env.die()
        store2 = env.open()                                     # restart
        rows = env.durable(table)

        def durable_value(kk):
            for r in rows:
                if table == "sender_keys":
                    if _keq((r["group_id"], r["sender_id"]), kk):
                        return r["record"]
                elif table in ("sessions", "identities"):
                    if r["recipient_id"] is not None and _keq(r["recipient_id"], kk):
                        return r["record"] if table == "sessions" else r["public_key"]
                elif _keq(r["prekey_id"], kk):
                    return (r["record"], r["sent_to_server"]) if table == "prekeys" else r["record"]
            return ABSENT
        obs = jobs
        keys = []
        for kk in pre.keys() + post.keys():
            if not any(_keq(kk, x) for x in keys):
                keys.append(kk)
        for kk in keys:
            got = durable_value(kk)
            if not crashed:
                obs.append(("no crash: %s record after reopen is what was stored last" % table, _veq(got, post.get(kk, ABSENT))))
            else:
                obs.append(("crash during %s before boundary %s: the %s record is its previous or its new value, never missing or mixed" % (op, crash_at, table),
                            _any(_veq(got, pre.get(kk, ABSENT)), _veq(got, post.get(kk, ABSENT)))))
        nrows = len([r for r in rows if not (table == "identities" and r["recipient_id"] == -1)])
        if not crashed:
            obs.append(("no crash: no other %s record appears or disappears (%d rows)" % (table, nrows), nrows == len(post.keys())))
            # read back through the load API of a restarted process
            for kk in post.keys():
                want = post.get(kk)
                if table == "sessions":
                    obs.append(("restart: containsSession and loadSession return the stored record", core.conj(store2.containsSession(kk, 1) is True, _veq(store2.loadSession(kk, 1).serialized, want))))
                elif table == "identities":
                    obs.append(("restart: the pinned identity is trusted, a different one is not",
                                core.conj(core.eq(store2.isTrustedIdentity(kk, Rec(serialized=want)), True), core.eq(store2.isTrustedIdentity(kk, Rec(serialized=want + b"x")), False))))
                elif table == "prekeys":
                    obs.append(("restart: loadPreKey returns the stored record", core.conj(store2.containsPreKey(kk) is True, _veq(store2.loadPreKey(kk).serialized, want[0]))))
                elif table == "signed_prekeys":
                    obs.append(("restart: loadSignedPreKey returns the stored record", _veq(store2.loadSignedPreKey(kk).serialized, want)))
                else:
                    obs.append(("restart: loadSenderKey returns the stored record", _veq(store2.loadSenderKey(SKName(kk[0], kk[1])).serialized, want)))
        # own identity survives everything
        pair = store2.getIdentityKeyPair()
        ok_pair = pair is not None and isinstance(pair, Wrap)
        obs.append(("own identity key pair is read back unchanged after reopen", core.conj(ok_pair and _veq(pair.a[0].a[0].a[0], env.K), ok_pair and _veq(pair.a[1].a[0], env.P)) if ok_pair else False))
        obs.append(("own registration id is read back unchanged", core.eq(store2.getLocalRegistrationId(), env.reg)))
        return obs
    finally:
        env.restore()


def finding_key(case, label, values, where):
    if label.startswith("crash during store before boundary") and "sessions" in case:
        return "C13|storeSession replace: crash between delete-commit and insert-commit loses the session"
    if label.startswith("crash during save before boundary") and "identities" in case:
        return "C13|saveIdentity replace: crash between delete-commit and insert-commit loses the pinned identity"
    return None


TABLES = ("sessions", "identities", "prekeys", "signed_prekeys", "sender_keys")


def cases(tier):
    n = 2 if tier == "quick" else 4
    cs = [dict(name="crash[%s,ops<=%d]" % (t, n), fn=h_crash, args=(t, n), max_paths=100000, timeout_s=600 if tier == "quick" else 3400, weight=10, keep_samples=10) for t in TABLES]
    cs.append(dict(name="durable[real-records]", fn=h_durable_real))
    cs.append(dict(name="two-profiles[directory names of the user's choosing]", fn=h_two_profiles, keep_samples=8))
    cs.append(dict(name="kill[child process dies at its commit, record size up to 3.5 MB]", fn=h_kill, keep_samples=18, timeout_s=600))
    ns = 2 if tier == "quick" else 3
    for t in TABLES:
        cs.append(dict(name="symbolic[%s,ops<=%d]" % (t, ns), fn=h_sym, args=(t, ns), max_paths=200000, timeout_s=600 if tier == "quick" else 3400, weight=30, keep_samples=8))
    return cs
