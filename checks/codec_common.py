"""shared by C01 (library round-trip) and C02 (conformance with the independent reference codec)"""
from sx import core, hooks, harness as H
from sx.core import SymInt
from sx.vals import SymSeq, SymStr


def lib():
    from yowsup.layers.coder.encoder import WriteEncoder
    from yowsup.layers.coder.decoder import ReadDecoder
    from yowsup.layers.coder.tokendictionary import TokenDictionary
    from yowsup.structs import ProtocolTreeNode
    td = TokenDictionary()
    return WriteEncoder(td), ReadDecoder(td), td, ProtocolTreeNode


def ba(ctx, items):
    """what the coder layer does with the encoder's output list: bytearray(list)"""
    if H.sym(ctx):
        return SymSeq(items, "bytearray")
    return bytearray(items)


def lib_encode(ctx, node):
    enc, dec, td, N = lib()
    return ba(ctx, enc.protocolTreeNodeToBytes(node))


def lib_decode(ctx, frame):
    enc, dec, td, N = lib()
    return dec.getProtocolTreeNode(frame)


def layer_roundtrip(ctx, node):
    """through YowCoderLayer.send -> bytes -> YowCoderLayer.receive"""
    from yowsup.layers.coder import YowCoderLayer
    c = YowCoderLayer()
    down, up = [], []
    c.toLower = down.append
    c.toUpper = up.append
    c.send(node)
    assert len(down) == 1, "coder layer wrote %d frames for one stanza" % len(down)
    c.receive(down[0])
    return down[0], up


def layer_after_rejected(ctx, bad, node):
    """one YowCoderLayer: a stanza it cannot encode (the sender gets the error), then `node`: returns (error, frames written for node, nodes handed up)"""
    from yowsup.layers.coder import YowCoderLayer
    c = YowCoderLayer()
    down, up = [], []
    c.toLower = down.append
    c.toUpper = up.append
    err = None
    try:
        c.send(bad)
    except Exception as e:
        err = e
    n0 = len(down)
    c.send(node)
    frames = down[n0:]
    for f in frames:
        c.receive(f)
    return err, frames, up


def bad_stanza(kind):
    """stanzas an application can hand down by mistake: a value the codec refuses only after it has begun to write"""
    enc, dec, td, N = lib()
    if kind == "attribute value None":
        n = N("receipt", {"id": "abc"}, [N("x")])
        n.attributes["t"] = None
        return n
    if kind == "attribute value int":
        n = N("receipt", {"id": "abc"}, [N("x")])
        n.attributes["t"] = 1400000000
        return n
    if kind == "child with a bad attribute":
        c = N("item", {"id": "i1"})
        c.attributes["count"] = 3
        return N("receipt", {"id": "abc"}, [N("list", {}, [c])])
    raise ValueError(kind)


BAD_STANZAS = ("attribute value None", "attribute value int", "child with a bad attribute")


# --- normalised view of trees (library nodes and reference tuples) ------------------------------
def view(n):
    if isinstance(n, tuple):
        tag, attrs, children, data = n
        return tag, list(attrs), list(children or []), data
    return n.tag, hooks.dict_items(n.attributes), list(n.children or []), n.data


def _as_bytes_like(d):
    return d


def tree_obs(prefix, a, b):
    """obligations for structural equality of two trees (ordered attributes, data, children)"""
    if a is None or b is None:
        return [(prefix + ":node-present", a is not None and b is not None)]
    ta, aa, ca, da = view(a)
    tb, ab, cb, db = view(b)
    obs = [(prefix + ":tag", H.eq(ta, tb))]
    if len(aa) != len(ab):
        return obs + [(prefix + ":n-attrs %d vs %d" % (len(aa), len(ab)), False)]
    for i, ((k1, v1), (k2, v2)) in enumerate(zip(aa, ab)):
        obs.append((prefix + ":attr%d-key" % i if len(aa) < 8 else prefix + ":attr-key", H.eq(k1, k2)))
        obs.append((prefix + ":attr%d-val" % i if len(aa) < 8 else prefix + ":attr-val", H.eq(v1, v2)))
    if (da is None) != (db is None):
        obs.append((prefix + ":data-presence", False))
    elif da is not None:
        obs.append((prefix + ":data-is-bytes", _is_bytes(da) and _is_bytes(db)))
        obs.append((prefix + ":data", H.rope_eq(da, db) if _is_bytes(da) and _is_bytes(db) else False))
    if len(ca) != len(cb):
        return obs + [(prefix + ":n-children %d vs %d" % (len(ca), len(cb)), False)]
    for i, (x, y) in enumerate(zip(ca, cb)):
        obs += tree_obs(prefix + "/%d" % i if len(ca) < 8 else prefix + "/c", x, y)
    return obs


def _is_bytes(x):
    if isinstance(x, SymSeq):
        return x.kind == "bytes"
    return type(x) is bytes


def to_ref(n):
    """library node -> reference tuple tree"""
    tag, attrs, children, data = view(n)
    return (tag, attrs, [to_ref(c) for c in children] or None, data)


def frame_parts_to_bytes(ctx, parts):
    """reference encoder parts -> frame (rope or bytes)"""
    if H.sym(ctx):
        out = SymSeq([], "bytearray")
        for p in parts:
            if isinstance(p, (int, SymInt)):
                out.append(p)
            else:
                out.extend(p)
        return out
    out = bytearray()
    for p in parts:
        if isinstance(p, int):
            out.append(p)
        else:
            out.extend(bytes(bytearray(p)))
    return out


# --- tree families ---------------------------------------------------------------------------------
SLOTS = ("tag", "key", "val", "data", "jid-user", "jid-user-lit", "jid-server")


def slot_tree(ctx, slot, n):
    """a small tree with exactly one unconstrained string of n Latin-1 characters in the given slot, followed by
    a sibling (so that a mis-sized read shows up).  Assumes exactly the property's exclusions."""
    enc, dec, td, N = lib()
    tag, key, val, data = "tg", "ky", "vl", b"dt"
    if slot == "data":
        data = H.symbytes(ctx, "s", n)
    else:
        s = H.chars(ctx, "s", n)
        last = ctx_last_code(ctx, "s", n)
        ctx.assume(last != 64)                              # not ending in '@'
        if slot == "tag":
            tag = s
        elif slot == "key":
            key = s
        elif slot == "val":
            val = s
        elif slot == "jid-user":
            val = s + "@" + "s.whatsapp.net"
        elif slot == "jid-user-lit":
            val = s + "@" + "x.y"
        elif slot == "jid-server":
            val = "4915901234" + "@" + s
    attrs = {}
    hooks.sx_setitem(attrs, key, val)
    child = N(tag, attrs, None, data)
    return N("message", {"id": "abc-1"}, [child, N("after", {"z": "9"})])


def ctx_last_code(ctx, name, n):
    if H.sym(ctx):
        import z3
        return SymInt(z3.Int("%s_%d" % (name, n - 1)))
    return ctx.values["%s_%d" % (name, n - 1)]


def classed_string(ctx, name, n, cls):
    """n characters constrained to a character class (forced packing class)"""
    import z3
    cs = [ctx.int("%s_%d" % (name, i), 0, 255) for i in range(n)]
    for c in cs:
        if cls == "digits":
            ctx.assume((c >= 48) & (c <= 57) if H.sym(ctx) else 48 <= c <= 57)
        elif cls == "nibble":
            ctx.assume(((c >= 48) & (c <= 57)) | (c == 45) | (c == 46) if H.sym(ctx) else (48 <= c <= 57 or c in (45, 46)))
        elif cls == "hex":
            ctx.assume(((c >= 48) & (c <= 57)) | ((c >= 65) & (c <= 70)) if H.sym(ctx) else (48 <= c <= 57 or 65 <= c <= 70))
        elif cls == "HEX-only":
            ctx.assume((c >= 65) & (c <= 70) if H.sym(ctx) else 65 <= c <= 70)
    if H.sym(ctx):
        from sx.vals import SymChar
        return SymStr([SymChar(c) for c in cs])
    return "".join(chr(c) for c in cs)


def size_tree(ctx, position, L=None):
    """a node with a binary payload of symbolic length L in [0, 2^24) at the given position"""
    enc, dec, td, N = lib()
    if L is None:
        L = ctx.int("L", 0, (1 << 24) - 1)
    P = H.blob(ctx, "P", L)
    big = N("media", {"type": "image"}, None, P)
    if position == "top":
        return big
    if position == "nested-last":
        return N("message", {"id": "m1"}, [N("first"), big])
    if position == "nested-then-sibling":
        return N("message", {"id": "m1"}, [big, N("after", {"k": "v"})])
    if position == "two-large":
        L2 = ctx.int("L2", 0, (1 << 24) - 1)
        Q = H.blob(ctx, "Q", L2)
        return N("message", {"id": "m1"}, [big, N("enc", {"v": "2"}, None, Q), N("after")])
    raise ValueError(position)


POSITIONS = ("top", "nested-last", "nested-then-sibling", "two-large")


def count_tree(ctx, n_attrs, n_children):
    enc, dec, td, N = lib()
    v = H.chars(ctx, "v", 1)
    ctx.assume(ctx_last_code(ctx, "v", 1) != 64)
    attrs = {}
    for i in range(n_attrs):
        attrs["k%d" % i] = v if i % 50 == 0 else "w%d" % i
    kids = [N("c%d" % (i % 7), {"i": str(i)} if i % 64 == 0 else None) for i in range(n_children)]
    return N("iq", attrs, [N("list", attrs, kids), N("after")])
