"""Templates for entity classes without a repository fixture.

SAMPLES: the documented example stanza of a class is obtained by serialising a sample instance built through the
class's own constructor; that stanza is then symbolised exactly like a fixture (every non-discriminator attribute
becomes a solver variable) and parsed/serialised again.
DIRECT: classes without a parser are constructed directly with symbolic constructor arguments (role "out")."""
import importlib
from sx import core, hooks, harness as H
from checks import stanza_common as SC

J = "4915901234567@s.whatsapp.net"
J2 = "4915907654321@s.whatsapp.net"
G = "4915901234567-1400000000@g.us"
P = "yowsup.layers."


def _cls(path):
    mod, name = path.rsplit(".", 1)
    return getattr(importlib.import_module(P + mod), name)


def _meta(**kw):
    from yowsup.layers.protocol_messages.protocolentities.attributes.attributes_message_meta import MessageMetaAttributes
    return MessageMetaAttributes(**kw)


# name -> (class path, role, sample factory, extra keep-concrete attributes)
SAMPLES = {
    "StreamFeatures": ("auth.protocolentities.stream_features.StreamFeaturesProtocolEntity", "in", lambda C: C(["readreceipts", "groups_v2"]), ()),
    "Enc-msg": ("axolotl.protocolentities.enc.EncProtocolEntity", "inout", lambda C: C("msg", 2, b"\x01\x02\x03", None), ()),
    "Enc-pkmsg-media": ("axolotl.protocolentities.enc.EncProtocolEntity", "inout", lambda C: C("pkmsg", 2, b"\x01\x02\x03", "image"), ()),
    "Enc-skmsg-jid": ("axolotl.protocolentities.enc.EncProtocolEntity", "out", lambda C: C("msg", 2, b"\x01\x02\x03", None, J), ()),
    "EncryptedMessage-in": ("axolotl.protocolentities.message_encrypted.EncryptedMessageProtocolEntity", "in",
                            lambda C: C([_cls("axolotl.protocolentities.enc.EncProtocolEntity")("pkmsg", 2, b"\x05\x06", None)], "text",
                                        _meta(id="ABC1", sender=J, notify="nn", timestamp="1400000000", offline="0")), ()),
    "EncryptedMessage-group-in": ("axolotl.protocolentities.message_encrypted.EncryptedMessageProtocolEntity", "in",
                                  lambda C: C([_cls("axolotl.protocolentities.enc.EncProtocolEntity")("skmsg", 2, b"\x05\x06", None)], "text",
                                              _meta(id="ABC1", sender=G, participant=J2, notify="nn", timestamp="1400000000", offline="0")), ()),
    "EncryptedMessage-out": ("axolotl.protocolentities.message_encrypted.EncryptedMessageProtocolEntity", "out",
                             lambda C: C([_cls("axolotl.protocolentities.enc.EncProtocolEntity")("msg", 2, b"\x05\x06", None)], "text",
                                         _meta(id="ABC1", recipient=J)), ()),
    "EncryptedMessage-out-participant": ("axolotl.protocolentities.message_encrypted.EncryptedMessageProtocolEntity", "out",
                                         lambda C: C([_cls("axolotl.protocolentities.enc.EncProtocolEntity")("pkmsg", 2, b"\x05\x06", None)], "text",
                                                     _meta(id="ABC1", recipient=G, participant=J2)), ()),
    "IncomingReceipt-list": ("protocol_receipts.protocolentities.receipt_incoming.IncomingReceiptProtocolEntity", "in",
                             lambda C: C("123", J, "1400000000", offline="0", type="read", items=["1400000001-1", "1400000001-2"]), ()),
    "IncomingReceipt-group-list": ("protocol_receipts.protocolentities.receipt_incoming.IncomingReceiptProtocolEntity", "in",
                                   lambda C: C("123", G, "1400000000", offline="0", participant=J2, items=["1400000001-1", "1400000001-2"]), ()),
    "IdentityChangeNotification": ("axolotl.protocolentities.notification_encrypt_identitychange.IdentityChangeEncryptNotification", "in",
                                   lambda C: C("1400000000", "id1", "nn", "0"), ("from",)),
    "RetryIncomingReceipt": ("axolotl.protocolentities.receipt_incoming_retry.RetryIncomingReceiptProtocolEntity", "in",
                             lambda C: C("1415389947-12", J, 123456, "1432833777", "1432833266", 1, 1), ()),
    "RetryIncomingReceipt-group": ("axolotl.protocolentities.receipt_incoming_retry.RetryIncomingReceiptProtocolEntity", "in",
                                   lambda C: C("1415389947-12", G, 123456, "1432833777", "1432833266", 1, 2, participant=J2), ()),
    "RetryOutgoingReceipt": ("axolotl.protocolentities.receipt_outgoing_retry.RetryOutgoingReceiptProtocolEntity", "out",
                             lambda C: C("1415389947-12", J, 123456, "1432833266", 1, 1), ()),
    "RetryOutgoingReceipt-group": ("axolotl.protocolentities.receipt_outgoing_retry.RetryOutgoingReceiptProtocolEntity", "out",
                                   lambda C: C("1415389947-12", G, 123456, "1432833266", 1, 1, participant=J2), ()),
    "ContactsSyncNotification": ("protocol_contacts.protocolentities.notificiation_contacts_sync.ContactsSyncNotificationProtocolEntity", "in",
                                 lambda C: C("id1", J, "1400000000", "nn", "0", "1400000001"), ()),
    "InfoGroupsIq": ("protocol_groups.protocolentities.iq_groups_info.InfoGroupsIqProtocolEntity", "out", lambda C: C(G), ()),
    "LeaveGroupsIq": ("protocol_groups.protocolentities.iq_groups_leave.LeaveGroupsIqProtocolEntity", "out", lambda C: C([G, "4915901234567-1500000000@g.us"]), ()),
    "SuccessLeaveGroupsIq": ("protocol_groups.protocolentities.iq_groups_leave_success.SuccessLeaveGroupsIqProtocolEntity", "in", lambda C: C("id1", G), ()),
    "ParticipantsGroupsIq": ("protocol_groups.protocolentities.iq_groups_participants.ParticipantsGroupsIqProtocolEntity", "out", lambda C: C(G, [J, J2], "add"), ()),
    "AddParticipantsIq": ("protocol_groups.protocolentities.iq_groups_participants_add.AddParticipantsIqProtocolEntity", "out", lambda C: C(G, [J, J2]), ()),
    "FailureAddParticipantsIq": ("protocol_groups.protocolentities.iq_groups_participants_add_failure.FailureAddParticipantsIqProtocolEntity", "in",
                                 lambda C: C("id1", G, 409, "conflict", 0), ()),
    "SuccessAddParticipantsIq": ("protocol_groups.protocolentities.iq_groups_participants_add_success.SuccessAddParticipantsIqProtocolEntity", "in",
                                 lambda C: C("id1", G, [J, J2]), ()),
    "DemoteParticipantsIq": ("protocol_groups.protocolentities.iq_groups_participants_demote.DemoteParticipantsIqProtocolEntity", "out", lambda C: C(G, [J, J2]), ()),
    "PromoteParticipantsIq": ("protocol_groups.protocolentities.iq_groups_participants_promote.PromoteParticipantsIqProtocolEntity", "out", lambda C: C(G, [J, J2]), ()),
    "RemoveParticipantsIq": ("protocol_groups.protocolentities.iq_groups_participants_remove.RemoveParticipantsIqProtocolEntity", "out", lambda C: C(G, [J, J2]), ()),
    "SuccessRemoveParticipantsIq": ("protocol_groups.protocolentities.iq_groups_participants_remove_success.SuccessRemoveParticipantsIqProtocolEntity", "in",
                                    lambda C: C("id1", G, [J, J2]), ()),
    "SubjectGroupsIq": ("protocol_groups.protocolentities.iq_groups_subject.SubjectGroupsIqProtocolEntity", "out", lambda C: C(G, "new subject"), ()),
    "InfoGroupsResultIq": ("protocol_groups.protocolentities.iq_result_groups_info.InfoGroupsResultIqProtocolEntity", "in",
                           lambda C: C("id1", G, "4915901234567-1400000000", "1400000000", J, "subj", "1400000005", J2, {J: "admin", J2: None}), ()),
    "ListParticipantsResultIq": ("protocol_groups.protocolentities.iq_result_participants_list.ListParticipantsResultIqProtocolEntity", "in", lambda C: C(G, [J, J2]), ()),
    "AddGroupsNotification": ("protocol_groups.protocolentities.notification_groups_add.AddGroupsNotificationProtocolEntity", "in",
                              lambda C: C("id1", G, "1400000000", "nn", J, "0", [J, J2]), ()),
    "CreateGroupsNotification": ("protocol_groups.protocolentities.notification_groups_create.CreateGroupsNotificationProtocolEntity", "in",
                                 lambda C: C("id1", G, "1400000000", "nn", J, "0", "new", "key1", "4915901234567-1400000000", "1400000000", J, "subj", "1400000005", J2,
                                             {J: "admin", J2: None}), ()),
    "RemoveGroupsNotification": ("protocol_groups.protocolentities.notification_groups_remove.RemoveGroupsNotificationProtocolEntity", "in",
                                 lambda C: C("id1", G, "1400000000", "nn", J, "0", "subj", [J, J2]), ()),
    "LastseenIq": ("protocol_presence.protocolentities.iq_lastseen.LastseenIqProtocolEntity", "out", lambda C: C(J), ()),
    "ResultLastseenIq": ("protocol_presence.protocolentities.iq_lastseen_result.ResultLastseenIqProtocolEntity", "in", lambda C: C(J, 1234), ()),
    "PrivacyListIq": ("protocol_privacy.protocolentities.privacylist_iq.PrivacyListIqProtocolEntity", "out", lambda C: C(), ()),
    "GetPictureIq": ("protocol_profiles.protocolentities.iq_picture_get.GetPictureIqProtocolEntity", "out", lambda C: C(J), ()),
    "GetPictureIq-full": ("protocol_profiles.protocolentities.iq_picture_get.GetPictureIqProtocolEntity", "out", lambda C: C(J, preview=False), ()),
    "SetPictureIq": ("protocol_profiles.protocolentities.iq_picture_set.SetPictureIqProtocolEntity", "out", lambda C: C(J, b"preview", b"full-picture"), ()),
    "ListPicturesIq": ("protocol_profiles.protocolentities.iq_pictures_list.ListPicturesIqProtocolEntity", "out", lambda C: C(J, [J, J2]), ()),
    "GetStatusesIq": ("protocol_profiles.protocolentities.iq_statuses_get.GetStatusesIqProtocolEntity", "out", lambda C: C([J, J2]), ()),
    "ResultStatusesIq": ("protocol_profiles.protocolentities.iq_statuses_result.ResultStatusesIqProtocolEntity", "in",
                         lambda C: C("id1", "s.whatsapp.net", {J: (b"busy", "1400000000"), J2: (b"at work", "1400000005")}), ()),
    "CleanIq": ("protocol_ib.protocolentities.clean_iq.CleanIqProtocolEntity", "out", lambda C: C("groups", "s.whatsapp.net"), ()),
    "UnregisterIq": ("protocol_profiles.protocolentities.iq_unregister.UnregisterIqProtocolEntity", "out", lambda C: C(), ()),
    "SetStatusIq": ("protocol_profiles.protocolentities.iq_status_set.SetStatusIqProtocolEntity", "out", lambda C: C(b"busy now"), ()),
    "RequestUploadIq": ("protocol_media.protocolentities.iq_requestupload.RequestUploadIqProtocolEntity", "out", lambda C: C("image", "b64hashvalue", "12345"), ()),
    "TextMessage": ("protocol_messages.protocolentities.message_text.TextMessageProtocolEntity", "out", lambda C: C("hello there", to=J), ()),
    "SetKeysIq": ("axolotl.protocolentities.iq_keys_set.SetKeysIqProtocolEntity", "out",
                  lambda C: C(b"\x01" * 32, (b"\x00\x00\x01", b"\x02" * 32, b"\x03" * 64), {b"\x00\x00\x05": b"\x04" * 32, b"\x00\x00\x06": b"\x05" * 32}, 5, b"\x00\x01\x02\x03"), ()),
}


def _n(tag, attrs=None, children=None, data=None):
    return SC.N()(tag, attrs, children, data)


# documented shapes written out by hand (class docstrings) where the class's own serialiser cannot produce them
NODES = {
    "StreamError-conflict": ("auth.protocolentities.stream_error.StreamErrorProtocolEntity", "in",
                             lambda: _n("stream:error", {}, [_n("conflict"), _n("text", None, None, b"Replaced by new connection")]), ()),
    "StreamError-ack": ("auth.protocolentities.stream_error.StreamErrorProtocolEntity", "in", lambda: _n("stream:error", {}, [_n("ack")]), ()),
    "StreamError-xml": ("auth.protocolentities.stream_error.StreamErrorProtocolEntity", "in", lambda: _n("stream:error", {}, [_n("xml-not-well-formed")]), ()),
    "AccountIb": ("protocol_ib.protocolentities.account_ib.AccountIbProtocolEntity", "in",
                  lambda: _n("ib", {}, [_n("account", {"status": "active", "kind": "paid", "creation": "1400000000", "expiration": "1500000000"})]),
                  ("from", "status", "kind")),
    "ResultGetPictureIq": ("protocol_profiles.protocolentities.iq_picture_get_result.ResultGetPictureIqProtocolEntity", "in",
                           lambda: _n("iq", {"type": "result", "from": J, "id": "id1"}, [_n("picture", {"type": "image", "id": "1400000000"}, None, b"\xff\xd8jpegdata")]), ()),
    "ResultGetPictureIq-preview": ("protocol_profiles.protocolentities.iq_picture_get_result.ResultGetPictureIqProtocolEntity", "in",
                                   lambda: _n("iq", {"type": "result", "from": J, "id": "id1"}, [_n("picture", {"type": "preview", "id": "1400000000"}, None, b"\xff\xd8jpegdata")]), ()),
    "ListGroupsResultIq-with-participants": ("protocol_groups.protocolentities.iq_result_groups_list.ListGroupsResultIqProtocolEntity", "in",
                                             lambda: _n("iq", {"type": "result", "from": "g.us", "id": "id1"}, [_n("groups", {}, [
                                                 _n("group", {"s_t": "1400000005", "creation": "1400000000", "creator": J, "id": "4915901234567-1400000000", "s_o": J2, "subject": "one"},
                                                    [_n("participant", {"jid": J, "type": "admin"}), _n("participant", {"jid": J2})]),
                                                 _n("group", {"s_t": "1500000005", "creation": "1500000000", "creator": J2, "id": "4915907654321-1500000000", "s_o": J, "subject": "two"},
                                                    [_n("participant", {"jid": J2, "type": "admin"})])])]), ("from",)),
    # the class docstring's shape: a rate-limit style error answer carrying the optional backoff
    "ErrorIq-backoff": ("protocol_iq.protocolentities.iq_error.ErrorIqProtocolEntity", "in",
                        lambda: _n("iq", {"type": "error", "from": J, "id": "id1"}, [_n("error", {"text": "not-acceptable", "code": "406", "backoff": "3600"})]), ()),
    # a media message of a kind the library does not know (the media layer builds the base-class entity for it and acknowledges it)
    "MediaMessage-unlisted-kind": ("protocol_media.protocolentities.message_media.MediaMessageProtocolEntity", "in",
                                   lambda: _n("message", {"from": J, "id": "id1", "t": "1400000000", "notify": "n", "offline": "0", "type": "media"}, [_n("proto", {"mediatype": "livelocation"}, None, b"\x0a\x02hi")]),
                                   ("mediatype",)),
    "SubjectGroupsNotification": ("protocol_groups.protocolentities.notification_groups_subject.SubjectGroupsNotificationProtocolEntity", "in",
                                  lambda: _n("notification", {"notify": "WhatsApp", "id": "id1", "t": "1400000000", "participant": J, "from": G, "type": "w:gp2", "offline": "0"},
                                             [_n("subject", {"s_t": "1400000005", "s_o": J2, "subject": "new subj"})]), ()),
}


def _sample(name):
    if name in NODES:
        path, role, mk, keep = NODES[name]
        return _cls(path), mk(), role, keep
    path, role, make, keep = SAMPLES[name]
    C = _cls(path)
    return C, make(C).toProtocolTreeNode(), role, keep


class _SymArgs(object):
    """calls the class constructor with the sample's arguments, each string / bytes / number argument replaced by a
    symbolic value of the same kind (role "out": entities are built by applications through the constructor)"""

    def __init__(self, ctx, C):
        self.ctx, self.C, self.i = ctx, C, 0

    def _v(self, x, hint="arg"):
        self.i += 1
        n = "%s%d" % (hint, self.i)
        if isinstance(x, bool) or x is None:
            return x
        if isinstance(x, str):
            if x in ("msg", "pkmsg", "skmsg", "text", "media", "add", "remove", "promote", "demote", "image", "new", "w:gp2", "identity", "hello there", "groups"):
                return x
            if SC._is_num(x):
                return H.numstr(self.ctx, n, 0)
            return H.zstr(self.ctx, n)
        if isinstance(x, int):
            if x >= 100000:          # registration ids: any value of the 32-bit range (small ints are versions and counts of the shape)
                return self.ctx.int(n, 0, 2 ** 32 - 1)
            return x
        if isinstance(x, bytes):
            return H.symbytes(self.ctx, n, len(x)) if len(x) <= 8 else x
        if isinstance(x, list):
            return [self._v(e, hint) for e in x]
        if isinstance(x, tuple):
            return tuple(self._v(e, hint) for e in x)
        if isinstance(x, dict):
            d = {}
            for k, v in x.items():
                hooks.sx_setitem(d, self._v(k, hint), self._v(v, hint)) if H.sym(self.ctx) else d.__setitem__(self._v(k, hint), self._v(v, hint))
            return d
        return x

    def __call__(self, *a, **k):
        return self.C(*[self._v(x) for x in a], **{kk: self._v(v, kk) for kk, v in k.items()})


# what an outgoing stanza must carry for the addressing given to the constructor (envelopes re-sent to one group member after a retry)
EXPECT_ATTRS = {"EncryptedMessage-out": {"to": J, "id": "ABC1"}, "EncryptedMessage-out-participant": {"to": G, "participant": J2, "id": "ABC1"}}


def h_sample_out(ctx, name):
    path, role, make, keep = SAMPLES[name]
    C = _cls(path)
    ent = make(_SymArgs(ctx, C))
    out = ent.toProtocolTreeNode()
    obs = SC.codec_contract_obs("codec", out)
    for k, v in EXPECT_ATTRS.get(name, {}).items():
        obs.append(("addressing given to the constructor is on the stanza: @%s" % k, SC.val_eq(hooks.dict_get(out.attributes, k), v)))
    if not H.sym(ctx):
        obs += SC.real_codec_roundtrip_obs("wire", out)
    return obs


def h_sample(ctx, name, variant, role):
    C, node, _, keep = _sample(name)
    lv = int(variant[4:]) if variant.startswith("list") else None
    drop = (variant[8:],) if variant.startswith("without-") else ()
    sym = SC.symbolise(ctx, node, list_variant=lv, keep=SC.DISCRIMINATORS + tuple(keep), drop=drop)
    ent = C.fromProtocolTreeNode(sym)
    if ent is None:
        return [("the parser returns an entity for the documented stanza", False)]
    out = ent.toProtocolTreeNode()
    obs = []
    if role == "in":
        obs += SC.node_obs("rt", out, sym)
        # converting is not consuming: a second serialisation of the same entity gives the same stanza
        obs += [(l.replace("rt", "rt(second serialisation)", 1), o) for l, o in SC.node_obs("rt", ent.toProtocolTreeNode(), sym)]
    else:
        obs += SC.codec_contract_obs("codec", out)
        if not H.sym(ctx):
            obs += SC.real_codec_roundtrip_obs("wire", out)
    return obs


def h_sample_twice(ctx, name):
    """two stanzas of the same documented shape (independent field values, different list members) are converted one after the other in
    one process: the second comes back as itself -- nothing of the first conversion is left in it"""
    C, node, _, keep = _sample(name)
    lv = 1 if _has_list(node) else None
    sym1 = SC.symbolise(ctx, node, namer=SC.Namer("a"), list_variant=lv, keep=SC.DISCRIMINATORS + tuple(keep))
    sym2 = SC.symbolise(ctx, node, namer=SC.Namer("b"), list_variant=lv, keep=SC.DISCRIMINATORS + tuple(keep))
    SC.assume_distinct_members(ctx, sym1, sym2)
    ent1 = C.fromProtocolTreeNode(sym1)
    if ent1 is not None:
        ent1.toProtocolTreeNode()
    ent2 = C.fromProtocolTreeNode(sym2)
    if ent2 is None:
        return [("the parser returns an entity for the documented stanza", False)]
    return SC.node_obs("second", ent2.toProtocolTreeNode(), sym2)


def h_big_list(ctx, which):
    """lists at scale: an entity whose stanza carries 255 / 256 / 257 list members (a contact sync, a key request for a large group) goes
    through the real binary codec and comes back with every member, in order"""
    count = ctx.choice("members", [255, 256, 257])
    if which == "GetSyncIq":
        ent = _cls("protocol_contacts.protocolentities.iq_sync_get.GetSyncIqProtocolEntity")(["49159%07d" % i for i in range(count)])
    elif which == "GetKeysIq":
        ent = _cls("axolotl.protocolentities.iq_key_get.GetKeysIqProtocolEntity")(["49159%07d@s.whatsapp.net" % i for i in range(count)])
    else:
        raise ValueError(which)
    out = ent.toProtocolTreeNode()
    return SC.codec_contract_obs("codec", out) + SC.real_codec_roundtrip_obs("wire", out)


# ---- classes without a parser: constructed with symbolic arguments ------------------------------------------------
def _direct(ctx, which):
    s = lambda n: H.zstr(ctx, n)
    if which == "GetKeysIq":
        C = _cls("axolotl.protocolentities.iq_key_get.GetKeysIqProtocolEntity")
        return C([s("jid1"), s("jid2")], reason=ctx.choice("reason", [None, "identity"]))
    if which == "PingIq":
        return _cls("protocol_iq.protocolentities.iq_ping.PingIqProtocolEntity")()
    if which == "PropsIq":
        return _cls("protocol_iq.protocolentities.iq_props.PropsIqProtocolEntity")()
    if which == "PushIq":
        return _cls("protocol_iq.protocolentities.iq_push.PushIqProtocolEntity")()
    if which == "CryptoIq":
        return _cls("protocol_iq.protocolentities.iq_crypto.CryptoIqProtocolEntity")()
    if which == "PongResultIq":
        return _cls("protocol_iq.protocolentities.iq_result_pong.PongResultIqProtocolEntity")(s("to"), s("id"))
    if which == "OutgoingReceipt":
        C = _cls("protocol_receipts.protocolentities.receipt_outgoing.OutgoingReceiptProtocolEntity")
        kind = ctx.choice("kind", ["plain", "read", "participant", "callid", "multi"])
        if kind == "plain":
            return C(s("id"), s("to"))
        if kind == "read":
            return C(s("id"), s("to"), read=True)
        if kind == "participant":
            return C(s("id"), s("to"), participant=s("participant"))
        if kind == "callid":
            return C(s("id"), s("to"), callId=s("callid"))
        return C([s("id"), s("id2"), s("id3")], s("to"), read=True, participant=s("participant"))
    if which == "OutgoingAck":
        C = _cls("protocol_acks.protocolentities.ack_outgoing.OutgoingAckProtocolEntity")
        kind = ctx.choice("kind", ["notification", "notification+participant", "call"])
        if kind == "notification":
            return C(s("id"), "notification", s("type"), s("to"))
        if kind == "notification+participant":
            return C(s("id"), "notification", s("type"), s("to"), participant=s("participant"))
        return C(s("id"), "call", None, s("to"))
    raise ValueError(which)


DIRECT = ("GetKeysIq", "PingIq", "PropsIq", "PushIq", "CryptoIq", "PongResultIq", "OutgoingReceipt", "OutgoingAck")


def h_direct(ctx, which):
    ent = _direct(ctx, which)
    out = ent.toProtocolTreeNode()
    obs = SC.codec_contract_obs("codec", out)
    if not H.sym(ctx):
        obs += SC.real_codec_roundtrip_obs("wire", out)
    return obs


def _has_list(node):
    if len(node.children) >= 2 and len(set(c.tag for c in node.children)) == 1:
        return True
    return any(_has_list(c) for c in node.children)


# ---- message stanzas with a payload as a peer client sends it --------------------------------------------------------------------------
MEDIATYPE = dict(image="image", sticker="sticker", audio="audio", video="video", location="location", contact="contact", document="document", extended_text="url")


def h_media_stanza(ctx, kind, which):
    """<message type=media><proto mediatype=..>payload</proto></message> with symbolic attributes and a payload whose fields are solver
    variables (built by the independent reference mapping, ref/e2e_ref.py): the media layer's dispatch picks the entity class; serialising
    the entity again reproduces the attributes and every field of the payload"""
    from checks import c10
    from ref import e2e_ref
    import yowsup.layers.protocol_media.layer as ML
    try:
        return _media_stanza(ctx, kind, which)
    finally:
        c10.restore()


def _media_stanza(ctx, kind, which):
    from checks import c10
    from ref import e2e_ref
    import yowsup.layers.protocol_media.layer as ML
    C, c = c10.conv(ctx)
    C.AttributesConverter._AttributesConverter__instance = c
    v = c10.V(ctx)
    model = c10.build(ctx, v, kind, which, 0)
    if H.sym(ctx):
        P = e2e_ref.message(C.Message(), model)
    else:
        import yowsup.layers.protocol_messages.proto.e2e_pb2 as e2e
        P = e2e_ref.message(e2e.Message(), model)
    N = SC.N()
    attrs = {"from": J, "id": H.zstr(ctx, "id"), "t": H.numstr(ctx, "t", 0), "notify": H.zstr(ctx, "notify"), "offline": ctx.choice("offline", ["0", "1"]), "type": "media"}
    node = N("message", attrs, [N("proto", {"mediatype": MEDIATYPE[kind]}, None, P.SerializeToString())])
    layer = ML.YowMediaProtocolLayer()
    up, down = [], []
    layer.toUpper = up.append
    layer.toLower = down.append
    layer.recvMessageStanza(node)
    obs = [("exactly one entity for the stanza (got %d)" % len(up), len(up) == 1)]
    if len(up) != 1:
        return obs
    out = up[0].toProtocolTreeNode()
    obs += SC.node_obs("rt", N(out.tag, out.attributes), N(node.tag, node.attributes))
    pc = out.getChild("proto")
    obs.append(("proto child with the same mediatype", pc is not None and hooks.dict_get(pc.attributes, "mediatype") == MEDIATYPE[kind]))
    if pc is not None:
        Q = C.Message() if H.sym(ctx) else e2e.Message()
        Q.ParseFromString(pc.data)
        obs += c10.proto_obs("payload", P, Q)
    # the application edits the entity it was handed through its documented setters (a forwarded image with a new link / caption) and
    # serialises it again: the stanza carries the new value
    ent = up[0]
    for field in (("url", "caption") if kind in ("image", "audio", "video", "document", "sticker") else ()):
        prop = getattr(type(ent), field, None)
        if isinstance(prop, property) and prop.fset is not None:
            new = H.zstr(ctx, "edited_" + field)
            setattr(ent, field, new)
            pc2 = ent.toProtocolTreeNode().getChild("proto")
            Q2 = C.Message() if H.sym(ctx) else e2e.Message()
            Q2.ParseFromString(pc2.data)
            sub = getattr(Q2, e2e_ref.KIND_FIELD[kind])
            obs.append(("after an edit through the entity's setter the next serialisation carries the new %s" % field, c10.val_eq(getattr(sub, field), new)))
            break
    return obs


def cases(tier):
    from checks.c09 import OPTIONAL_ATTRS
    from checks import c10
    cs = []
    for kind in sorted(MEDIATYPE):
        for which in ["none", "all"] + [o for o in c10.OPTIONALS[kind] if o not in ("context_info", "stanza_id", "participant", "remote_jid", "mentioned_jid", "edit_version", "revoke_message")]:
            cs.append(dict(name="media-stanza[%s,%s]" % (kind, which), fn=h_media_stanza, args=(kind, which), timeout_s=120, max_paths=3000, keep_samples=3))
    for name in sorted(list(SAMPLES) + list(NODES)):
        try:
            C, node, role, keep = _sample(name)
        except Exception as e:
            cs.append(dict(name="sample[%s,setup]" % name, fn=_setup_failed, args=(name, repr(e)[:150])))
            continue
        roles = {"in": ("in",), "out": (), "inout": ("in",)}[role]
        if "out" in role:
            cs.append(dict(name="sample[%s:%s,out,ctor]" % (name, C.__name__), fn=h_sample_out, args=(name,), timeout_s=120, max_paths=3000, keep_samples=3))
        variants = ["base"]
        if _has_list(node):
            variants += ["list0", "list1", "list3"] + (["list5"] if tier != "quick" else [])
        for opt in OPTIONAL_ATTRS:
            if opt in node.attributes and not (opt == "participant" and node.tag == "notification"):
                variants.append("without-" + opt)
        if "in" in roles:
            cs.append(dict(name="sample[%s:%s,in,second conversion]" % (name, C.__name__), fn=h_sample_twice, args=(name,), timeout_s=120, max_paths=3000, keep_samples=3))
        for r in roles:
            for v in variants:
                cs.append(dict(name="sample[%s:%s,%s,%s]" % (name, C.__name__, r, v), fn=h_sample, args=(name, v, r), timeout_s=120, max_paths=3000, keep_samples=3))
    for which in ("GetSyncIq", "GetKeysIq"):
        cs.append(dict(name="big-list[%s,255..257 members]" % which, fn=h_big_list, args=(which,), timeout_s=300, keep_samples=3))
    for which in DIRECT:
        cs.append(dict(name="direct[%s]" % which, fn=h_direct, args=(which,), timeout_s=120, keep_samples=6))
    return cs


def _setup_failed(ctx, name, err):
    return [("template %s can be built from the class constructor (%s)" % (name, err), False)]
