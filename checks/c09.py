"""C09 -- protocol entities and stanzas convert into each other without loss.

For every entity class with a documented example stanza (the repository's fixtures) and for the hand-written
templates of classes without a fixture: the example is turned into a template whose field values are solver
variables; fromProtocolTreeNode(template).toProtocolTreeNode() must reproduce the template for ALL values
(numbers by value), and the produced stanza must satisfy the binary codec's typing contract (C01 covers the
codec itself); on every path witness the stanza is also pushed through the real encoder and decoder."""
import glob, importlib, os, sys, unittest
from sx import core, hooks, harness as H
from checks import stanza_common as SC

DEFAULT_TIMEOUT_S = 40          # a case of this check takes about a second; a tree on which it takes longer than this is not explored further
PROPERTY = "C09"
LEVEL = "model_checking"
CODE = ["yowsup/layers/*/protocolentities/*.py: <Entity>.fromProtocolTreeNode / toProtocolTreeNode / __init__ (every class listed in coverage.cases)",
        "yowsup/structs/protocolentity.py", "yowsup/structs/protocoltreenode.py"]
BOUNDS = {"quick": "[+ big lists 255/256/257 for 2 entity classes; unlisted media kind] " 
                   "[+ second serialisation of every incoming shape; url / caption edited on the 5 downloadable kinds] " 
                   "[+ second conversion of every incoming shape (independent values, distinct list members)] " 
                   "[+ error iq with backoff >= 1] " 
                   "one template per documented stanza shape; every non-discriminator attribute an unconstrained non-empty string or non-negative integer; "
                   "repeated list children 0,1,2(as documented),3; binary data of symbolic length 0..4096 where the class only stores it; 32-bit number blobs (registration ids) symbolic; "
                   "media message stanzas of 8 kinds x optional-field families with every payload field a solver variable",
          "thorough": "same (the space is covered by the symbolic values; thorough adds list length 5 and the data-blob variant for every class)"}
OUTSIDE = ["attribute values that are empty strings (the codec cannot carry them, see C01)", "list children beyond 5",
           "optional attributes are present/absent only as in the documented shapes and the hand-written templates",
           "classes listed under coverage.not_encodable with the reason"]
ASSUMPTIONS = ["dispatch discriminators (type, xmlns, class, mediatype, ...) keep their documented value inside a template",
               "the protobuf payload of fixture message stanzas is opaque (C10 covers the converter); the media-stanza cases build payloads with the independent reference mapping ref/e2e_ref.py over a descriptor-generated protobuf stub"]
EXPLANATION = "symbolic execution of each entity class's parser and serialiser on a stanza template with solver-variable fields; equality discharged by z3"

REPO = (os.environ.get("YOWSUP_REPO") or "/repo")

# role of each entity class (by name): "in" = built from an incoming stanza by a receive handler (the stanza must be
# reproduced); "out" = sent by applications or by the library (the produced stanza must be codec-clean); both where both.
ROLES = {
    "FailureProtocolEntity": "in", "SuccessProtocolEntity": "in", "ResultGetKeysIqProtocolEntity": "in",
    "RequestKeysEncryptNotification": "in", "IncomingAckProtocolEntity": "in", "OutgoingAckProtocolEntity": "out",
    "CallProtocolEntity": "in", "IncomingChatstateProtocolEntity": "in", "OutgoingChatstateProtocolEntity": "out",
    "GetSyncIqProtocolEntity": "out", "ResultSyncIqProtocolEntity": "in", "AddContactNotificationProtocolEntity": "in",
    "RemoveContactNotificationProtocolEntity": "in", "UpdateContactNotificationProtocolEntity": "in",
    "IqProtocolEntity": "inout", "CreateGroupsIqProtocolEntity": "out", "SuccessCreateGroupsIqProtocolEntity": "in",
    "ListGroupsIqProtocolEntity": "out", "ListGroupsResultIqProtocolEntity": "in", "CleanIqProtocolEntity": "out",
    "DirtyIbProtocolEntity": "in", "IbProtocolEntity": "in", "OfflineIbProtocolEntity": "in", "ErrorIqProtocolEntity": "in",
    "RequestUploadIqProtocolEntity": "out", "ResultRequestUploadIqProtocolEntity": "in",
    "MediaMessageProtocolEntity": "inout", "ContactMediaMessageProtocolEntity": "inout", "AudioDownloadableMediaMessageProtocolEntity": "inout",
    "ImageDownloadableMediaMessageProtocolEntity": "inout", "VideoDownloadableMediaMessageProtocolEntity": "inout",
    "ExtendedTextMediaMessageProtocolEntity": "inout", "LocationMediaMessageProtocolEntity": "inout",
    "MessageProtocolEntity": "inout", "TextMessageProtocolEntity": "out", "BroadcastTextMessage": "out",
    "NotificationProtocolEntity": "in", "PictureNotificationProtocolEntity": "in", "DeletePictureNotificationProtocolEntity": "in",
    "SetPictureNotificationProtocolEntity": "in", "StatusNotificationProtocolEntity": "in",
    "PresenceProtocolEntity": "inout", "AvailablePresenceProtocolEntity": "out", "SubscribePresenceProtocolEntity": "out",
    "UnavailablePresenceProtocolEntity": "out", "UnsubscribePresenceProtocolEntity": "out",
    "GetPrivacyIqProtocolEntity": "out", "ResultPrivacyIqProtocolEntity": "in", "SetPrivacyIqProtocolEntity": "out",
    "SetStatusIqProtocolEntity": "out", "UnregisterIqProtocolEntity": "out",
    "IncomingReceiptProtocolEntity": "in", "OutgoingReceiptProtocolEntity": "out",
}
# top-level attributes the server/application may omit: each gets a variant without it
OPTIONAL_ATTRS = ("notify", "offline", "participant")
# attributes that are documented constants of a shape (the class hard-codes them): kept concrete in that class's template
KEEP_EXTRA = {
    "ResultGetKeysIqProtocolEntity": ("from",),      # always the server domain
}


def _fixture_classes():
    out = []
    for f in sorted(glob.glob(os.path.join(REPO, "yowsup/layers/*/protocolentities/test_*.py"))):
        modname = f[len(REPO) + 1:-3].replace("/", ".")
        out.append(modname)
    return out


_FIX = {}


def _load_fixture(modname, clsname):
    key = (modname, clsname)
    if key not in _FIX:
        mod = importlib.import_module(modname)
        cls = getattr(mod, clsname)
        tc = cls("test_generation")
        tc.setUp()
        _FIX[key] = (tc.ProtocolEntity, tc.node)
    return _FIX[key]


def _has_list(node):
    if len(node.children) >= 2 and len(set(c.tag for c in node.children)) == 1:
        return True
    return any(_has_list(c) for c in node.children)


def _has_data(node):
    return node.data is not None or any(_has_data(c) for c in node.children)


def _has_text_leaf(node):
    d = node.data
    if isinstance(d, bytes) and 1 <= len(d) <= 16 and not node.children and node.tag != "registration":
        try:
            if d.decode("ascii").isprintable():
                return True
        except Exception:
            pass
    return any(_has_text_leaf(c) for c in node.children)


def _outgoing_shape(node):
    """message fixtures document the incoming shape; the shape an application sends has `to` instead of from/t/offline/notify"""
    if node.tag != "message" or "from" not in node.attributes:
        return node
    PTN = SC.N()
    attrs = {k: v for k, v in node.attributes.items() if k not in ("from", "t", "offline", "notify", "participant")}
    attrs["to"] = node.attributes["from"]
    return PTN(node.tag, attrs, list(node.children), node.data)


def h_fixture(ctx, modname, clsname, variant, role):
    Ent, node = _load_fixture(modname, clsname)
    lv, data = None, "keep"
    if variant == "textdata":
        data = "text"
    if variant.startswith("list"):
        lv = int(variant[4:])
    drop = ()
    if variant.startswith("without-"):
        drop = (variant[8:],)
    if role == "out":
        node = _outgoing_shape(node)
    keep = SC.DISCRIMINATORS + KEEP_EXTRA.get(Ent.__name__, ())
    sym = SC.symbolise(ctx, node, list_variant=lv, data=data, keep=keep, drop=drop)
    try:
        ent = Ent.fromProtocolTreeNode(sym)
    except (UnicodeDecodeError, ValueError) as e:
        if variant != "textdata":
            raise
        return []            # arbitrary bytes that the class rejects as text / number: not a conversion at all
    if ent is None:
        return [("the parser returns an entity for the documented stanza", False)]
    out = ent.toProtocolTreeNode()
    obs = []
    if role == "in":
        obs += SC.node_obs("rt", out, sym)
        # converting is not consuming: a second serialisation of the same entity gives the same stanza
        obs += [(l.replace("rt", "rt(second serialisation)", 1), o) for l, o in SC.node_obs("rt", ent.toProtocolTreeNode(), sym)]
    else:
        obs += SC.codec_contract_obs("codec", out)
        if not H.sym(ctx):
            obs += SC.real_codec_roundtrip_obs("wire", out)
    return obs


def h_fixture_twice(ctx, modname, clsname, has_list):
    """two stanzas of the documented shape (independent values, different list members) converted one after the other in one process:
    the second comes back as itself -- nothing of the first conversion is left in it"""
    Ent, node = _load_fixture(modname, clsname)
    keep = SC.DISCRIMINATORS + KEEP_EXTRA.get(Ent.__name__, ())
    lv = 1 if has_list else None
    sym1 = SC.symbolise(ctx, node, namer=SC.Namer("a"), list_variant=lv, keep=keep)
    sym2 = SC.symbolise(ctx, node, namer=SC.Namer("b"), list_variant=lv, keep=keep)
    SC.assume_distinct_members(ctx, sym1, sym2)
    ent1 = Ent.fromProtocolTreeNode(sym1)
    if ent1 is not None:
        ent1.toProtocolTreeNode()
    ent2 = Ent.fromProtocolTreeNode(sym2)
    if ent2 is None:
        return [("the parser returns an entity for the documented stanza", False)]
    return SC.node_obs("second", ent2.toProtocolTreeNode(), sym2)


def finding_key(case, label, values, where):
    """stable identification of a finding: entity test class + variant + what differs"""
    import re
    m = re.match(r"(\w+)\[([^,]+),(\w+),([^\]]+)\]", case)
    if not m:
        return None
    kind, cls, role, variant = m.groups()
    cls = cls.split(":")[-1] if kind == "fixture" else cls.split(":")[0]
    pm = re.match(r"rt(?:\(second serialisation\))?:attribute-names produced=(\[.*\]) expected=(\[.*\])", label)
    if pm and variant in ("without-offline", "without-notify"):
        produced, expected = eval(pm.group(1)), eval(pm.group(2))
        extra = sorted(set(produced) - set(expected))
        if not (set(expected) - set(produced)) and extra == [variant[8:]]:
            tag = "?"
            if kind == "sample":
                from checks import c09_templates
                try:
                    tag = c09_templates._sample(cls)[1].tag
                except Exception:
                    pass
            for (mn, cn), (E, node) in list(_FIX.items()):
                if cn == cls:
                    tag = node.tag
            if tag == "?":
                found, _ = discover()
                for mn, cn, _l, _d in found:
                    if cn == cls:
                        tag = _load_fixture(mn, cn)[1].tag
            return "C09|absent-%s-reserialised-with-default|%s" % (variant[8:], tag)
    lab = label.split(" produced=")[0].split(" values=")[0]
    return "C09|%s|%s|%s|%s" % (cls, role, variant, lab)


def discover():
    """[(modname, clsname, has_list, has_data)] -- import errors are reported as not encodable"""
    found, broken = [], []
    if REPO not in sys.path:
        sys.path.insert(0, REPO)
    for modname in _fixture_classes():
        try:
            mod = importlib.import_module(modname)
        except Exception as e:
            broken.append((modname, "import failed: %s" % repr(e)[:100]))
            continue
        for name in sorted(dir(mod)):
            cls = getattr(mod, name)
            if not (isinstance(cls, type) and issubclass(cls, unittest.TestCase) and cls.__module__ == modname and hasattr(cls, "test_generation")):
                continue
            try:
                Ent, node = _load_fixture(modname, name)
            except Exception as e:
                broken.append((modname + ":" + name, "fixture setUp failed: %s" % repr(e)[:100]))
                continue
            found.append((modname, name, _has_list(node), _has_data(node)))
    return found, broken


def h_wire_values(ctx, cls, n):
    """free-text fields that happen to look like numbers ("24.12.", "007.", "1-2"): the stanza an entity produces keeps the value
    through the real binary codec (packed string forms) and the entity read back returns it"""
    from checks import codec_common as CC
    from yowsup.layers.protocol_presence.protocolentities import PresenceProtocolEntity
    from yowsup.layers.protocol_groups.protocolentities import SubjectGroupsIqProtocolEntity
    s = CC.classed_string(ctx, "s", n, cls)
    which = ctx.choice("entity", ["presence name", "group subject"])
    if which == "presence name":
        ent = PresenceProtocolEntity("available", s)
        get = lambda e: e.name
    else:
        ent = SubjectGroupsIqProtocolEntity("4915900000001-1400000000@g.us", s)
        get = lambda e: e.subject if hasattr(e, "subject") else None
    node = ent.toProtocolTreeNode()
    frame = CC.lib_encode(ctx, node)
    out = CC.lib_decode(ctx, frame)
    obs = CC.tree_obs("wire", node, out)
    if which == "presence name" and out is not None:
        back = PresenceProtocolEntity.fromProtocolTreeNode(out)
        obs.append(("the entity read back returns the value", back.name == s))
    return obs


def cases(tier):
    from checks import c09_templates
    found, broken = discover()
    cs = []
    for modname, name, has_list, has_data in found:
        short = modname.split(".")[2] + "." + modname.split(".")[-1][5:] + ":" + name
        Ent, node = _load_fixture(modname, name)
        roles = {"in": ("in",), "out": ("out",), "inout": ("in", "out")}[ROLES.get(Ent.__name__, "inout")]
        variants = ["base"]
        if has_list:
            variants += ["list0", "list1", "list3"] + (["list5"] if tier != "quick" else [])
        for opt in OPTIONAL_ATTRS:
            if opt in node.attributes:
                variants.append("without-" + opt)
        if _has_text_leaf(node) and "in" in roles:
            variants.append("textdata")
        if "in" in roles:
            cs.append(dict(name="fixture[%s,in,second conversion]" % short, fn=h_fixture_twice, args=(modname, name, has_list), timeout_s=120, max_paths=3000, keep_samples=3))
        for role in roles:
            for v in variants:
                cs.append(dict(name="fixture[%s,%s,%s]" % (short, role, v), fn=h_fixture, args=(modname, name, v, role), timeout_s=120, max_paths=3000, keep_samples=3))
    cs += c09_templates.cases(tier)
    for cls in ("digits", "nibble", "hex"):
        for n in ((2, 4) if tier == "quick" else (1, 2, 3, 4, 5, 6)):
            cs.append(dict(name="wire-values[%s,n=%d]" % (cls, n), fn=h_wire_values, args=(cls, n), timeout_s=300))
    return cs


def extra_evidence(tier, results):
    found, broken = discover()
    return {"entity_classes_with_fixture": len(found), "not_encodable": [list(b) for b in broken]}
