"""C20 -- registration requests: token, parameter encoding and encryption are correct.

token[*]    AndroidYowsupEnv.getToken with SHA-1 as an uninterpreted incremental hash and the phone number an abstract
            string of SYMBOLIC length: the produced term equals WhatsApp's keyed construction built independently.
encode[*]   WARequest.urlencode / urlencodeParams on symbolic characters over the whole Unicode range (one slot of n
            characters, split by UTF-8 length class), bytes and ints: equals the independent reference encoder, whose
            output decodes back to the value.
encrypt[*]  WARequest.encryptParams with X25519 / AES-GCM / base64 as uninterpreted terms (DH commutativity, dec(enc)=id).
Every model is replayed with the real hashlib / cryptography / urllib and an independent reference."""
import z3
from sx import core, hooks, harness as H
from sx.core import SymInt
from sx.vals import SymSeq, SymStr, SymChar, Term, valkey, Piece
from sx import crypto_models as M

PROPERTY = "C20"
LEVEL = "model_checking"
CODE = ["yowsup/env/env_android.py:AndroidYowsupEnv.getToken", "yowsup/common/http/warequest.py:WARequest.urlencode/urlencodeParams/encryptParams"]
BOUNDS = {"quick": "[+ 3 selections from {android, custom}] " 
                   "[+ 3 country codes x 4 shapes of national number x {exists, code} request, 3 sends each] " 
                   "[+ both encryptions of one request object; '%', 'a%', '&', '+' followed by 2 unconstrained ASCII characters] " 
                   "[+ stock and 4 derived environments (overriding classes / key / signature / all)] " 
                   "token: phone length 0..64 symbolic, contents abstract; two requests in one process with 1-2 symbolic digits each; parameter lists of 2-3 entries with any (also repeated) names; encode: one value of n<=2 unconstrained Unicode code points (0..0x10FFFF without surrogates), "
                   "bytes n<=2, ints 0..10^12, parameter lists of <=3; single-character exhaustive concrete sweep over code points < 0x3000",
          "thorough": "encode n<=3; exhaustive concrete sweep over all 1,112,064 code points"}
OUTSIDE = ["SHA-1, X25519, AES-GCM themselves (uninterpreted; real on the witnesses)", "values longer than the bound (the encoder is per character: no cross-character state)",
           "the HTTP transport"]
ASSUMPTIONS = ["hashlib.sha1 modelled as an uninterpreted function of the concatenated updates", "X25519 modelled with DH commutativity, AES-GCM with dec(enc(x))=x, base64 as an inverse pair",
               "urllib.parse.quote modelled exactly (validated against the real function by the exhaustive sweep)"]
EXPLANATION = "symbolic execution of token/encoding/encryption code with hashes and ciphers as uninterpreted terms and characters as z3 integers"


# ---- token ---------------------------------------------------------------------------------------------------------------
class RopeStr(core.Sym):
    """a phone-number string of symbolic length whose only use is .encode()"""

    def __init__(self, rope):
        self.rope = rope

    def encode(self, *a):
        return self.rope


def _env(ctx, E):
    """the environment whose token is asked for: the stock Android one, or one derived from it that carries the constants of another
    release (the way the library is retargeted: a subclass overriding some of the three constants, selected with YowsupEnv.setEnv)"""
    import base64
    which = ctx.choice("environment", ["stock", "derived:classes", "derived:key", "derived:signature", "derived:all"])
    if which == "stock":
        return E.AndroidYowsupEnv()
    over = {}
    if which in ("derived:classes", "derived:all"):
        over["_MD5_CLASSES"] = base64.b64encode(bytes(range(16, 32))).decode()
    if which in ("derived:key", "derived:all"):
        over["_KEY"] = base64.b64encode(bytes((7 * i + 1) % 256 for i in range(80))).decode()
    if which in ("derived:signature", "derived:all"):
        over["_SIGNATURE"] = base64.b64encode(bytes((3 * i + 5) % 256 for i in range(300))).decode()
    cls = type("OtherReleaseEnv", (E.AndroidYowsupEnv,), over)
    return cls()


def h_token_of_current_env(ctx):
    """the environment is selected by name (YowsupEnv.setEnv) and read back with getCurrent(), as the registration requests do; after
    any sequence of selections the token is computed with the constants of the environment selected LAST"""
    import base64
    import yowsup.env.env_android as E
    from yowsup.env import YowsupEnv
    from ref import wa_registration_ref as R
    over = {"_MD5_CLASSES": base64.b64encode(bytes(range(16, 32))).decode(), "_KEY": base64.b64encode(bytes((7 * i + 1) % 256 for i in range(80))).decode()}
    Custom = type("CustomYowsupEnv", (E.AndroidYowsupEnv,), over)            # registers itself under the name "custom" (class name minus "YowsupEnv", lower case)
    names = [ctx.choice("selected%d" % i, ["android", "custom"]) for i in range(3)]
    try:
        for nm in names:
            YowsupEnv.setEnv(nm)
        env = YowsupEnv.getCurrent()
    finally:
        YowsupEnv._YowsupEnv__CURR = None                  # other cases of this process start from "nothing selected"
        YowsupEnv._YowsupEnv__ENVS.pop("custom", None)
    want = Custom if names[-1] == "custom" else E.AndroidYowsupEnv
    phone = "4915901234567"
    return [("getCurrent() is the environment selected last (%s -> %s)" % (names, type(env).__name__), type(env) is want),
            ("its token is the keyed hash with that environment's constants", env.getToken(phone) == R.token(want._KEY, want._SIGNATURE, want._MD5_CLASSES, phone))]


def h_token(ctx, lmax):
    import base64
    import yowsup.env.env_android as E
    L = ctx.int("L", 0, lmax)
    env = _env(ctx, E)
    C = type(env)
    if H.sym(ctx):
        E.hashlib, E.base64 = M.M_hashlib, M.M_base64
        phone_bytes = H.blob(ctx, "PHONE", L)
        out = env.getToken(RopeStr(phone_bytes))
        key = base64.b64decode(C._KEY)
        sig = base64.b64decode(C._SIGNATURE)
        cls_ = base64.b64decode(C._MD5_CLASSES)
        ipad = bytes(0x36 ^ k for k in key[:64])
        opad = bytes(0x5C ^ k for k in key[:64])
        inner = Term("hash", "sha1", M.rope(ipad + sig + cls_) + phone_bytes)
        inner.size = 20
        outer = Term("hash", "sha1", M.rope(opad) + M.tblob(inner, 20))
        outer.size = 20
        ref = M.M_base64.b64encode(M.tblob(outer, 20))
        return [("token == b64(SHA1(opad || SHA1(ipad || signature || classes || phone))) with the constants of the environment in use", valkey(M.rope(out)) == valkey(ref))]
    from ref import wa_registration_ref as R
    phone = "".join("0123456789"[(i * 7 + 3) % 10] for i in range(L))
    return [("token == b64(SHA1(opad || SHA1(ipad || signature || classes || phone))) with the constants of the environment in use",
             env.getToken(phone) == R.token(C._KEY, C._SIGNATURE, C._MD5_CLASSES, phone))]


TOKEN_SHAPES = ["123", " 123", "123 ", "123\n", "\t4915900000001", "4915900000001\r\n", "49 159 0000", "+4915900000001", "004915900000001",
                "\u0661\u0662\u0663", "123\u00a0", "\u2003123", "\x1c123", "123\x85", "", " "]


def h_token_shapes(ctx):
    """phone-number strings as they are typed or pasted (blanks and line ends at the edges, a plus sign, other scripts' digits): the
    token is the keyed hash of exactly the string given (it travels next to that string in the request)"""
    import yowsup.env.env_android as E
    from ref import wa_registration_ref as R
    phone = ctx.choice("phone", TOKEN_SHAPES)
    other = ctx.choice("other", TOKEN_SHAPES)
    env = _env(ctx, E)
    C = type(env)
    t1, t2 = env.getToken(phone), env.getToken(other)
    return [("token == keyed SHA-1 over signature || classes || the phone string as given (%r)" % phone, t1 == R.token(C._KEY, C._SIGNATURE, C._MD5_CLASSES, phone)),
            ("different phone strings never share a token (%r / %r)" % (phone, other), (t1 == t2) == (phone == other))]


def h_token_twice(ctx, n1, n2):
    """two requests in one process: each token is a function of its own phone-number STRING (nothing carried over)"""
    import base64
    import yowsup.env.env_android as E
    from ref import wa_registration_ref as R
    d1 = [ctx.int("a_%d" % i, 48, 57) for i in range(n1)]
    d2 = [ctx.int("b_%d" % i, 48, 57) for i in range(n2)]
    env = E.AndroidYowsupEnv()
    for k_, v in list(vars(E.AndroidYowsupEnv).items()) + list(vars(E.AndroidYowsupEnv.__mro__[1]).items()):
        if isinstance(v, dict) and not k_.startswith("__") and "ENVS" not in k_:          # (not the registry of environments)
            v.clear()                      # class-level containers do not survive from one explored path to the next
    if H.sym(ctx):
        E.hashlib, E.base64 = M.M_hashlib, M.M_base64
        p1, p2 = SymStr([SymChar(c) for c in d1]), SymStr([SymChar(c) for c in d2])
        env.getToken(p1)
        out = env.getToken(p2)
        key = base64.b64decode(E.AndroidYowsupEnv._KEY)
        sig = base64.b64decode(E.AndroidYowsupEnv._SIGNATURE)
        cls_ = base64.b64decode(E.AndroidYowsupEnv._MD5_CLASSES)
        ipad = bytes(0x36 ^ k for k in key[:64])
        opad = bytes(0x5C ^ k for k in key[:64])
        inner = Term("hash", "sha1", M.rope(ipad + sig + cls_) + SymSeq(d2, "bytes"))
        inner.size = 20
        outer = Term("hash", "sha1", M.rope(opad) + M.tblob(inner, 20))
        outer.size = 20
        ref = M.M_base64.b64encode(M.tblob(outer, 20))
        return [("second token == keyed hash of the second phone number", H.rope_eq(M.rope(out), ref))]
    p1, p2 = "".join(chr(c) for c in d1), "".join(chr(c) for c in d2)
    env.getToken(p1)
    return [("second token == keyed hash of the second phone number",
             env.getToken(p2) == R.token(E.AndroidYowsupEnv._KEY, E.AndroidYowsupEnv._SIGNATURE, E.AndroidYowsupEnv._MD5_CLASSES, p2))]


# ---- percent-encoding ------------------------------------------------------------------------------------------------------
def _W():
    from yowsup.common.http.warequest import WARequest
    return WARequest


def _unicode_chars(ctx, name, n, his=None):
    his = his or [0x10FFFF] * n
    cs = [ctx.int("%s_%d" % (name, i), 0, his[i]) for i in range(n)]
    for c in cs:
        ctx.assume(~((c >= 0xD800) & (c <= 0xDFFF)) if H.sym(ctx) else not (0xD800 <= c <= 0xDFFF))
    if H.sym(ctx):
        return SymStr([SymChar(c) for c in cs]), cs
    return "".join(chr(c) for c in cs), cs


def _codes_of(s):
    if isinstance(s, SymStr):
        return s.codes()
    return [ord(c) for c in s]


def _eq_codes(a, b):
    if len(a) != len(b):
        return False
    return core.conj(*[core.eq(x, y) for x, y in zip(a, b)])


def h_encode_str(ctx, n, his=None, lead=""):
    """lead: concrete characters in front of the n unconstrained ones (values that look like something else: an escape, a query string)"""
    from ref import wa_registration_ref as R
    W = _W()
    v, cs = _unicode_chars(ctx, "u", n, his)
    if lead:
        v = (SymStr(list(lead)) + v) if H.sym(ctx) else lead + v
        cs = [ord(c) for c in lead] + list(cs)
    out = W.urlencode(v)
    ref = []
    for c in cs:
        ref += R.encode_bytes(R.utf8_codes(c))
    obs = [("urlencode(text) == reference percent-encoding of its UTF-8 bytes", _eq_codes(_codes_of(out), ref))]
    if not H.sym(ctx):
        import urllib.parse
        obs.append(("standard decoding returns the original value", urllib.parse.unquote(out) == v))
        obs.append(("reference decoder returns the original bytes", bytes(R.decode_to_bytes(ref)) == v.encode("utf-8")))
    return obs


def h_encode_bytes(ctx, n):
    from ref import wa_registration_ref as R
    W = _W()
    b = H.symbytes(ctx, "b", n)
    out = W.urlencode(b)
    items = list(b.items) if isinstance(b, SymSeq) else list(b)
    ref = R.encode_bytes(items)
    obs = [("urlencode(bytes) == reference percent-encoding", _eq_codes(_codes_of(out), ref))]
    if not H.sym(ctx):
        import urllib.parse
        obs.append(("standard decoding returns the original bytes", urllib.parse.unquote_to_bytes(out) == bytes(b)))
    return obs


def h_encode_int(ctx):
    W = _W()
    n = ctx.choice("n", [0, 6, 10, 443, 9999, 4915901234567, 10 ** 12])
    out = W.urlencode(n)
    return [("urlencode(int) is its decimal rendering", out == str(n))]


def h_params(ctx, k, vary_names=False):
    from ref import wa_registration_ref as R
    W = _W()
    # parameter names are the caller's choice: repeated names are ordinary (addParam only ever appends)
    names = [ctx.choice("name%d" % i, ["cc", "in", "id"]) for i in range(k)] if vary_names else ["cc", "in", "id"][:k]
    vals, refs = [], []
    for i, nm in enumerate(names):
        v, cs = _unicode_chars(ctx, "p%d" % i, 1, [0x39 if vary_names else 0x10FFFF if i == 0 else (0x7F if i == 1 and k == 2 else 0x2F)])
        vals.append((nm, v))
        r = [ord(c) for c in nm] + [61]
        for c in cs:
            r += R.encode_bytes(R.utf8_codes(c))
        refs.append(r)
    out = W.urlencodeParams(vals)
    ref = []
    for i, r in enumerate(refs):
        if i:
            ref.append(38)
        ref += r
    return [("parameters joined as k=v with & in the original order", _eq_codes(_codes_of(out), ref))]


def h_sweep(ctx, hi):
    """exhaustive single-character sweep with the real urllib (replay mode only)"""
    if H.sym(ctx):
        ctx.int("dummy", 0, 0)
        return [("sweep-runs-in-replay", True)]
    from ref import wa_registration_ref as R
    import urllib.parse
    W = _W()
    bad = []
    for cp in range(hi):
        if 0xD800 <= cp <= 0xDFFF:
            continue
        ch = chr(cp)
        out = W.urlencode(ch)
        if [ord(c) for c in out] != R.encode_value(ch) or urllib.parse.unquote(out) != ch:
            bad.append(cp)
            if len(bad) > 5:
                break
    for b in range(256):
        out = W.urlencode(bytes([b]))
        if [ord(c) for c in out] != R.encode_bytes([b]) or urllib.parse.unquote_to_bytes(out) != bytes([b]):
            bad.append(-b)
    return [("every single code point < %#x and every byte: library == reference and decodes back (failing: %s)" % (hi, bad[:6]), not bad)]


# ---- encryption --------------------------------------------------------------------------------------------------------------
def h_encrypt(ctx):
    import yowsup.common.http.warequest as WR
    W = WR.WARequest
    req = W.__new__(W)
    v, cs = _unicode_chars(ctx, "q", 1)
    params = [("cc", "49"), ("in", v), ("id", b"\x00\xff")]
    if H.sym(ctx):
        WR.Curve, WR.AESGCM, WR.base64 = M.M_Curve, M.M_AESGCM, M.M_base64
        server = M.M_KeyPair("server")
        M.M_Curve.counter[0] = 0
        p1 = req.encryptParams(params, server.publicKey)
        p2 = req.encryptParams(params, server.publicKey)
        obs = [("one ENC parameter", len(p1) == 1 and p1[0][0] == "ENC")]
        firsts = []
        # every request of the process (here: two on one request object, as a preview followed by the real send) must decrypt at the server
        for nth, p in (("first", p1), ("second", p2)):
            blob = M.M_base64.b64decode(p[0][1])
            eph_pub, ct = blob[:32], blob[32:]
            firsts.append(eph_pub)
            pubterm = eph_pub.norm()[0].base if len(eph_pub.norm()) == 1 and isinstance(eph_pub.norm()[0], Piece) else None
            obs.append(("%s request: payload starts with the 32-byte ephemeral public key" % nth, pubterm is not None and pubterm.fn == "pubkey"))
            if pubterm is None:
                continue
            eph_ident = pubterm.args[0]
            shared = M.M_Curve.calculateAgreement(M.M_ECKey("pub", eph_ident), server.privateKey)     # what the server computes
            try:
                pt = M.M_AESGCM(shared).decrypt(b"\x00\x00\x00\x00" + b"\x00" * 8, ct, b"")
                expect = M.rope(W.urlencodeParams(params).encode())
                obs.append(("%s request: server decrypts (fixed nonce) to exactly the encoded parameter string" % nth, valkey(M.rope(pt)) == valkey(expect)))
            except ValueError:
                obs.append(("%s request: server decrypts (fixed nonce) to exactly the encoded parameter string" % nth, False))
        obs.append(("fresh ephemeral key per call", valkey(firsts[1]) != valkey(firsts[0])))
        return obs
    # concrete: real primitives
    from axolotl.ecc.curve import Curve
    from cryptography.hazmat.primitives.ciphers.aead import AESGCM
    import base64, struct
    server = Curve.generateKeyPair()
    # bytes of the (uninterpreted) ephemeral public keys that the violating path looked at: draw real key pairs until they match
    wants = [v for k, v in sorted(ctx.values.items()) if k.startswith("arr!") and "pubkey" in k and "fresh" in k]

    class _Curve(object):
        n = [0]

        def __getattr__(self, a):
            return getattr(Curve, a)

        def generateKeyPair(self):
            want = wants[self.n[0]] if self.n[0] < len(wants) else {}
            self.n[0] += 1
            if len(want) > 2:
                raise core.Unrealisable("a key pair whose public key has %d given bytes" % len(want))
            for _ in range(1 << 20):
                kp = Curve.generateKeyPair()
                pub = kp.getPublicKey().serialize()[1:]
                if all(pub[int(i)] == v for i, v in want.items()):
                    return kp
            raise core.Unrealisable("no matching key pair in 2^20 draws")
    WR.Curve = _Curve()
    p1 = req.encryptParams(params, server.getPublicKey())
    p2 = req.encryptParams(params, server.getPublicKey())
    obs = [("one ENC parameter", len(p1) == 1 and p1[0][0] == "ENC")]
    try:
        for nth, p in (("first", p1), ("second", p2)):
            raw = base64.b64decode(p[0][1])
            eph = Curve.decodePoint(bytearray(b"\x05" + raw[:32]), 0)
            shared = Curve.calculateAgreement(eph, server.getPrivateKey())
            try:
                pt = AESGCM(shared).decrypt(b"\x00\x00\x00\x00" + struct.pack(">Q", 0), raw[32:], b"")
            except Exception:
                pt = None
            obs.append(("%s request: server decrypts (fixed nonce) to exactly the encoded parameter string" % nth, pt is not None and pt.decode() == W.urlencodeParams(params)))
    finally:
        WR.Curve = Curve
    obs.append(("fresh ephemeral key per call", base64.b64decode(p2[0][1])[:32] != base64.b64decode(p1[0][1])[:32]))
    return obs


def h_request_object(ctx):
    """a real request object of the registration flow (existence check / code request) built from a configuration: the national number it
    reports and the number its token is computed from are the phone number without its leading country code, whatever digits follow; and
    every send of the object (a preview, then the real one, then a retry) carries all of ITS parameters, encrypted for the server"""
    import base64, struct
    from checks import c19
    from ref import wa_registration_ref as R
    from yowsup.config.v1.config import Config
    from axolotl.ecc.curve import Curve
    from cryptography.hazmat.primitives.ciphers.aead import AESGCM
    import yowsup.common.http.warequest as WR
    import yowsup.env.env_android as E
    from yowsup.env import YowsupEnv
    cc = ctx.choice("country_code", ["49", "1", "353"])
    shape = ctx.choice("national_number", ["no country code digits inside", "country code digits inside", "starts with the country code digits again", "ends with the country code digits"])
    national = {"no country code digits inside": "8887770", "country code digits inside": "888" + cc + "0077", "starts with the country code digits again": cc + "88877",
                "ends with the country code digits": "88877" + cc}[shape]
    kind = ctx.choice("request", ["exists", "code"])
    with c19._Env():
        cfg = Config(phone=cc + national, cc=cc, id=b"\x01" * 20, mcc="262", mnc="01", sim_mcc="262", sim_mnc="01")
        if kind == "exists":
            from yowsup.registration.existsrequest import WAExistsRequest
            req = WAExistsRequest(cfg)
        else:
            from yowsup.registration.coderequest import WACodeRequest
            req = WACodeRequest("sms", cfg)
        server = Curve.generateKeyPair()
        req.ENC_PUBKEY = server.getPublicKey()
        sent = []
        orig = WR.WARequest.sendRequest
        WR.WARequest.sendRequest = staticmethod(lambda host, port, path, headers, params, reqType="GET", preview=False: sent.append(list(params)))
        try:
            want = list(req.params)
            pd = dict((k, v) for k, v in want)
            obs = [("the request names the national number: phone without its leading country code (%r)" % pd.get("in"), pd.get("in") == national and pd.get("cc") == cc)]
            env = YowsupEnv.getCurrent()
            C = type(env)
            if hasattr(C, "_KEY"):
                obs.append(("the token is the keyed hash of that national number", pd.get("token") == R.token(C._KEY, C._SIGNATURE, C._MD5_CLASSES, national)))
            for nth in ("preview", "send", "retry"):
                n0 = len(sent)
                req.send(preview=True)
                got = sent[n0:]
                ok = False
                # (a code request asks for the account's existence first: the request's own parameters travel in the last transmission)
                if len(got) >= 1 and len(got[-1]) == 1 and got[-1][0][0] == "ENC":
                    raw = base64.b64decode(got[-1][0][1])
                    eph = Curve.decodePoint(bytearray(b"\x05" + raw[:32]), 0)
                    try:
                        pt = AESGCM(Curve.calculateAgreement(eph, server.getPrivateKey())).decrypt(b"\x00\x00\x00\x00" + struct.pack(">Q", 0), raw[32:], b"")
                        ok = pt.decode() == R.encode_params(want) if hasattr(R, "encode_params") else pt.decode() == WR.WARequest.urlencodeParams(want)
                    except Exception:
                        ok = False
                obs.append(("%s: one ENC parameter that the server decrypts to exactly this request's parameters" % nth, ok))
                obs.append(("%s: the request object still holds its own parameters afterwards" % nth, list(req.params) == want))
            return obs
        finally:
            WR.WARequest.sendRequest = orig


def cases(tier):
    q = tier == "quick"
    cs = [dict(name="token-of-the-selected-environment[3 selections by name]", fn=h_token_of_current_env, keep_samples=8), dict(name="request-object[exists / code request, 3 sends]", fn=h_request_object, keep_samples=24, timeout_s=300), dict(name="token[L<=64]", fn=h_token, args=(64,)), dict(name="token[typed and pasted phone strings]", fn=h_token_shapes, keep_samples=16, max_paths=5000), dict(name="encode-int", fn=h_encode_int), dict(name="encrypt", fn=h_encrypt)]
    for n1, n2 in (((1, 2), (2, 1), (2, 2)) if q else ((1, 2), (2, 1), (2, 2), (3, 2), (2, 3), (3, 3), (4, 3))):
        cs.append(dict(name="token-twice[%d,%d digits]" % (n1, n2), fn=h_token_twice, args=(n1, n2)))
    cs.append(dict(name="encode-str[n=1,unicode]", fn=h_encode_str, args=(1,), weight=20, timeout_s=300, max_paths=400000))
    # values that already look percent-encoded / like a query string: '%', '&', '=' or '+' followed by two unconstrained ASCII characters
    for lead in ("%", "a%", "&", "+"):
        cs.append(dict(name="encode-str[%r + 2 ascii]" % lead, fn=h_encode_str, args=(2, [0x7F, 0x7F], lead), weight=100, timeout_s=300 if q else 3000, max_paths=400000))
    cs.append(dict(name="encode-str[n=2,ascii+ascii]", fn=h_encode_str, args=(2, [0x7F, 0x7F]), weight=100, timeout_s=300 if q else 3000, max_paths=400000))
    cs.append(dict(name="encode-str[n=2,unicode+ascii]", fn=h_encode_str, args=(2, [0x10FFFF, 0x7F]), weight=300, timeout_s=400 if q else 3000, max_paths=400000))
    if not q:
        for lo_hi in ((0x7F,), (0x7FF,), (0xFFFF,), (0x10FFFF,)):
            cs.append(dict(name="encode-str[n=2,first<=%#x,unicode]" % lo_hi[0], fn=h_encode_str, args=(2, [lo_hi[0], 0x10FFFF]), weight=2000, timeout_s=3400, max_paths=800000))
    for n in ((1, 2) if q else (1, 2, 3)):
        cs.append(dict(name="encode-bytes[n=%d]" % n, fn=h_encode_bytes, args=(n,), weight=8 ** n, timeout_s=300 if q else 3400, max_paths=400000))
    for k in (1, 2, 3):
        cs.append(dict(name="params[k=%d]" % k, fn=h_params, args=(k,), weight=20 ** min(k, 2), timeout_s=400 if q else 3400, max_paths=400000))
    for k in (2, 3):
        cs.append(dict(name="params-any-names[k=%d]" % k, fn=h_params, args=(k, True), weight=200, timeout_s=400 if q else 3400, max_paths=400000))
    cs.append(dict(name="sweep", fn=h_sweep, args=(0x3000 if q else 0x110000,), timeout_s=600))
    return cs
