"""C18 -- stack assembly and event propagation work for every composition.

Real YowStack / YowStackBuilder / YowLayer / YowParallelLayer with recording layers.  The solver enumerates the stack
shape (each position a plain layer or a parallel group, explicit / implicit / instance style, either order convention),
emitter and consumer positions, detached or not, and the arguments of the default helpers; expectations come from an
independent reference model of the documented semantics (below)."""
import itertools
from sx import core, hooks, harness as H

PROPERTY = "C18"
LEVEL = "exploration"
CODE = ["yowsup/stacks/yowstack.py:YowStack.__init__/_construct/send/receive/emitEvent/broadcastEvent/execDetached/loop/getLayerInterface/getLayer",
        "yowsup/stacks/yowstack.py:YowStackBuilder.push/pop/build/getDefaultLayers/getDefaultStack/getProtocolLayers/getCoreLayers",
        "yowsup/layers/__init__.py:YowLayer.emitEvent/broadcastEvent/onEvent/toLower/toUpper, YowParallelLayer.*, YowLayerEvent"]
BOUNDS = {"quick": "[+ 5 positions of a subclass next to its base class; payload in {trace, b'', 0, None}] " 
                   "[+ handler style {onEvent override, own decorated, inherited decorated} on depth<=2; 3 legacy constants] " 
                   "[+ builder ops incl. implicit tuple groups; consumers inside the emitter's group] " 
                   "[+ addPostConstructLayer with 1-2 layers on depth 1..3] " 
                   "(dataflow: plus a send refused by any one layer below the top, followed by another send) stack depth 1..4, each position plain | group of 2 | group of 3; 3 declaration styles x 2 order conventions; every emitter x consumer position, detached and normal; "
                   "all 16 getDefaultLayers and all 64 getDefaultStack argument combinations; builder push/pop sequences up to 4",
          "thorough": "[+ post-construct on depth 1..4] depth 1..6, positions plain | group of 1 | group of 2 | group of 4 (group size only matters at emitter/consumer positions: stated pruning)"}
OUTSIDE = ["events emitted by a member of a parallel group are only required to be seen at most once by its siblings (the statement leaves sibling delivery open)",
           "stacks deeper than the bound"]
ASSUMPTIONS = ["one run of the stack's loop body stands for 'the stack's loop runs' (time.sleep stubbed)"]
EXPLANATION = "exhaustive solver-driven enumeration of stack compositions on the real stack classes against a reference model"


def _mods():
    import yowsup.layers as L
    import yowsup.stacks.yowstack as Y
    return L, Y


_CLS_CACHE = {}
SEEN_BY = []            # the layer objects whose handlers ran (identity, not name)
REFUSE = set()          # names of layers whose next send() raises (once)


class Refused(Exception):
    pass


HANDLER_STYLE = ["onEvent"]     # how recording layers receive events: overriding onEvent | "decorated" (own @EventCallback method) | "inherited" (decorated in a base class)


def _rec_class(name):
    """a recording layer class with a fixed name (classes are needed for class-style declaration)"""
    L, Y = _mods()
    if HANDLER_STYLE[0] != "onEvent":
        return _rec_class_decorated(name, HANDLER_STYLE[0])
    if name in _CLS_CACHE:
        return _CLS_CACHE[name]

    class Iface(L.YowLayerInterface):
        pass

    class Rec(L.YowLayer):
        NAME = name
        LOG = None
        CONSUME = None      # set of event names this layer consumes

        def __init__(self):
            super(Rec, self).__init__()
            self.interface = Iface(self)

        def send(self, d):
            if self.NAME in REFUSE:
                REFUSE.discard(self.NAME)
                raise Refused("layer %s refuses this send" % self.NAME)
            Rec.LOG.append(("send", self.NAME, d))
            self.toLower(d + (self.NAME,) if isinstance(d, tuple) else d)       # (payloads that are not traces are passed on unchanged)

        def receive(self, d):
            Rec.LOG.append(("recv", self.NAME, d))
            self.toUpper(d + (self.NAME,) if isinstance(d, tuple) else d)

        def onEvent(self, ev):
            Rec.LOG.append(("event", self.NAME, ev.getName()))
            SEEN_BY.append(self)
            return self.NAME in (Rec.CONSUME or ())
    Rec.__name__ = "Rec_" + name
    _CLS_CACHE[name] = Rec
    return Rec


def _rec_class_decorated(name, style):
    """the documented way to write a layer: @EventCallback methods, in the class itself or inherited from a base class"""
    L, Y = _mods()
    key = "%s/%s" % (name, style)
    if key in _CLS_CACHE:
        return _CLS_CACHE[key]

    class Iface(L.YowLayerInterface):
        pass

    class Common(L.YowLayer):
        NAME = name
        LOG = None
        CONSUME = None

        def __init__(self):
            super(Common, self).__init__()
            self.interface = Iface(self)

        def send(self, d):
            type(self).LOG.append(("send", self.NAME, d))
            self.toLower(d + (self.NAME,))

        def receive(self, d):
            type(self).LOG.append(("recv", self.NAME, d))
            self.toUpper(d + (self.NAME,))

    def handler(self, ev):
        type(self).LOG.append(("event", self.NAME, ev.getName()))
        SEEN_BY.append(self)
        return self.NAME in (type(self).CONSUME or ())
    if style == "inherited":
        Base = type("Base_" + name, (Common,), {"on_test": L.EventCallback("ev.test")(handler)})
        Rec = type("Rec_" + name, (Base,), {})
    else:
        Rec = type("Rec_" + name, (Common,), {"on_test": L.EventCallback("ev.test")(handler)})
    _CLS_CACHE[key] = Rec
    return Rec


def _shape_names(shape):
    """shape: list bottom->top of group sizes (0 = plain layer) -> list of lists of names"""
    out = []
    for i, g in enumerate(shape):
        out.append(["L%d" % i] if g == 0 else ["L%d%s" % (i, "abcd"[j]) for j in range(g)])
    return out


def _build(shape, style, rev):
    """-> (stack, names per position bottom->top, log)"""
    L, Y = _mods()
    # locks created by the layers are recording, non-blocking ones: acquiring a held lock is reported instead of hanging the run
    from checks import c12
    import threading as _threading

    class FakeThreading(object):
        def Lock(self_):
            return c12.RecLock("layer lock")

        def __getattr__(self_, n):
            return getattr(_threading, n)
    L.threading = FakeThreading()
    REFUSE.clear()
    log = []
    names = _shape_names(shape)
    decl = []
    for pos, g in enumerate(shape):
        classes = []
        for n in names[pos]:
            c = _rec_class(n)
            c.LOG = log
            c.CONSUME = set()
            classes.append(c)
        for c in _CLS_CACHE.values():
            c.LOG = log
        if g == 0:
            decl.append(classes[0]() if style == "instances" else classes[0])
        elif style == "implicit":
            decl.append(tuple(classes))
        else:
            decl.append(L.YowParallelLayer(tuple(classes)))      # explicit group (also for the instance style)
    arr = tuple(decl[::-1]) if rev else tuple(decl)
    st = Y.YowStack(arr, reversed=rev)
    return st, names, log


def _set_consumers(consumers):
    for n, c in _CLS_CACHE.items():
        c.CONSUME = set(consumers)


# ---- reference model ---------------------------------------------------------------------------------------------------
def ref_down(names):
    """arrivals below the bottom position for one send() from the top, in order"""
    def rec(pos, d):
        if pos < 0:
            return [d]
        out = []
        for m in names[pos]:
            out += rec(pos - 1, d + (m,))
        return out
    return rec(len(names) - 1, ())


def ref_up(names):
    def rec(pos, d):
        if pos >= len(names):
            return [d]
        out = []
        for m in names[pos]:
            out += rec(pos + 1, d + (m,))
        return out
    return rec(0, ())


def ref_event(names, emitter_pos, direction, consumers):
    """layers that must see the event, in order: strictly above (emit) / below (broadcast) the emitter, until consumed"""
    seen = []
    rng = range(emitter_pos + 1, len(names)) if direction == "emit" else range(emitter_pos - 1, -1, -1)
    for pos in rng:
        stop = False
        for m in names[pos]:
            seen.append(m)
            if m in consumers:
                stop = True
                break
        if stop:
            break
    return seen


# ---- harnesses -----------------------------------------------------------------------------------------------------------
def _choose_shape(ctx, depth, options):
    return [ctx.choice("pos%d" % i, options) for i in range(depth)]


class _End(object):
    pass


def _terminal_layers(st, names, log):
    """wrap: record what leaves the stack at the bottom (send) and at the top (receive)"""
    bottom, top = st.getLayer(0), st.getLayer(len(names) - 1)
    down, up = [], []
    L, Y = _mods()

    class Sink(L.YowLayer):
        def __init__(self, sink):
            super(Sink, self).__init__()
            self.sink = sink

        def send(self, d):
            self.sink.append(d)

        def receive(self, d):
            self.sink.append(d)

        def onEvent(self, ev):
            return False
    return down, up, Sink


def h_dataflow(ctx, depth, options):
    shape = _choose_shape(ctx, depth, options)
    style = ctx.choice("style", ["classes", "implicit", "instances"])
    rev = ctx.flag("reversed_convention")
    L, Y = _mods()
    st, names, log = _build(shape, style, rev)
    obs = []
    # order of layers as given
    for pos in range(depth):
        inst = st.getLayer(pos)
        got = [s.NAME for s in inst.sublayers] if isinstance(inst, L.YowParallelLayer) else [inst.NAME]
        obs.append(("layer-order@%d" % pos, got == names[pos]))
    # downward: observe at the bottom position's members: what they receive via send()
    del log[:]
    st.send(())
    arrivals = [e[2] + (e[1],) for e in log if e[0] == "send" and e[1] in names[0]]
    obs.append(("send: offered to every member, outputs continue downward, in order", arrivals == ref_down(names)))
    visited = [e[1] for e in log if e[0] == "send"]
    obs.append(("send: every layer reached", set(visited) == set(n for grp in names for n in grp)))
    del log[:]
    st.receive(())
    arrivals = [e[2] + (e[1],) for e in log if e[0] == "recv" and e[1] in names[-1]]
    obs.append(("receive: offered to every member, outputs continue upward, in order", arrivals == ref_up(names)))
    # payloads are the layers' business, not the stack's: an empty one (an empty frame, a zero, None) travels like any other
    odd = ctx.choice("payload", ["trace", "empty bytes", "zero", "None"])
    if odd != "trace":
        val = {"empty bytes": b"", "zero": 0, "None": None}[odd]
        del log[:]
        st.receive(val)
        obs.append(("receive(%r): reaches every member of the top position as often as a trace does" % (val,), len([e for e in log if e[0] == "recv" and e[1] in names[-1]]) == len(ref_up(names))))
        del log[:]
        st.send(val)
        obs.append(("send(%r): reaches every member of the bottom position as often as a trace does" % (val,), len([e for e in log if e[0] == "send" and e[1] in names[0]]) == len(ref_down(names))))
    # interfaces by class
    for pos in range(depth):
        for n in names[pos]:
            iface = st.getLayerInterface(_rec_class(n))
            obs.append(("interface-found-by-class:%s" % n, iface is not None and iface._layer.NAME == n))
    # a send that one layer refuses (it raises): the caller gets the error, and the next send travels the whole stack again
    from checks import c12
    below_top = [n for grp in names[:-1] for n in grp]
    if below_top:
        who = ctx.choice("refusing_layer", below_top)
        REFUSE.add(who)
        raised = False
        try:
            st.send(())
        except Refused:
            raised = True
        except c12.WouldBlock:
            pass
        obs.append(("a refused send is reported to the sender", raised))
        del log[:]
        try:
            st.send(())
            arrivals = [e[2] + (e[1],) for e in log if e[0] == "send" and e[1] in names[0]]
            obs.append(("after a refused send the next one is offered to every member and continues downward as before", arrivals == ref_down(names)))
        except c12.WouldBlock as e:
            obs.append(("after a refused send the next one is not blocked (%s)" % e, False))
    return obs


def h_post_construct(ctx, depth, options):
    """layers added to an assembled stack (addPostConstructLayer, the way getDefaultStack-style code puts the application on top):
    the grown stack carries data and events through every layer, old and new, exactly like a stack declared with them"""
    shape = _choose_shape(ctx, depth, options)
    style = ctx.choice("style", ["classes", "implicit", "instances"])
    extra = ctx.choice("layers_added", [1, 2])
    L, Y = _mods()
    st, names, log = _build(shape, style, False)
    names = [list(g) for g in names]
    for j in range(extra):
        c = _rec_class("P%d" % j)
        c.LOG, c.CONSUME = log, set()
        st.addPostConstructLayer(c())
        names.append(["P%d" % j])
    obs = []
    for pos in range(len(names)):
        inst = st.getLayer(pos)
        got = [x.NAME for x in inst.sublayers] if isinstance(inst, L.YowParallelLayer) else [inst.NAME]
        obs.append(("layer-order@%d" % pos, got == names[pos]))
    del log[:]
    st.send(())
    arrivals = [e[2] + (e[1],) for e in log if e[0] == "send" and e[1] in names[0]]
    obs.append(("send from the new top: offered to every member, outputs continue downward, in order", arrivals == ref_down(names)))
    del log[:]
    st.receive(())
    arrivals = [e[2] + (e[1],) for e in log if e[0] == "recv" and e[1] in names[-1]]
    obs.append(("receive: reaches the new top through every layer, in order", arrivals == ref_up(names)))
    for direction in ("emit", "broadcast"):
        del log[:]
        ev = L.YowLayerEvent("probe")
        (st.emitEvent if direction == "emit" else st.broadcastEvent)(ev)
        seen = [e[1] for e in log if e[0] == "event"]
        obs.append(("%s from the stack: every layer sees the event once, in order" % direction, seen == ref_event(names, -1 if direction == "emit" else len(names), direction, ())))
    return obs


def _run_loop_once(st):
    """one pass over the stack's detached queue through the real loop()"""
    L, Y = _mods()

    class _Stop(BaseException):
        pass
    import time as _t
    calls = {"n": 0}

    class FakeTime(object):
        @staticmethod
        def sleep(x):
            calls["n"] += 1
            if calls["n"] >= 6:
                raise _Stop()

        time = staticmethod(_t.time)
    old = Y.time
    Y.time = FakeTime
    try:
        st.loop()
    except _Stop:
        pass
    finally:
        Y.time = old


def h_events(ctx, depth, options):
    shape = _choose_shape(ctx, depth, options)
    L, Y = _mods()
    style = ctx.choice("style", ["classes", "implicit"])
    # how a layer registers its handlers is independent of the stack's depth: the dimension is explored on the shallow stacks
    HANDLER_STYLE[0] = ctx.choice("layers_receive_events_by", ["onEvent", "decorated", "inherited"]) if depth <= 2 else "onEvent"
    # a stack of the same layer classes built earlier in the process (a second account, a rebuilt stack): its layers see nothing of
    # this stack's events
    earlier = ctx.flag("an_earlier_stack_of_the_same_classes") if depth <= 2 else False
    try:
        st0 = _build(shape, style, False)[0] if earlier else None
        st, names, log = _build(shape, style, False)
    finally:
        HANDLER_STYLE[0] = "onEvent"
    del SEEN_BY[:]
    direction = ctx.choice("direction", ["emit", "broadcast"])
    detached = ctx.flag("detached")
    # emitter: -1 = the stack itself (emitEvent enters at the bottom, broadcastEvent at the top), else a plain position
    plain = [i for i, g in enumerate(shape) if g == 0]
    emitter = ctx.choice("emitter", ["stack"] + plain)
    all_names = [n for grp in names for n in grp]
    consumer = ctx.choice("consumer", ["nobody"] + all_names)
    consumers = set() if consumer == "nobody" else {consumer}
    _set_consumers(consumers)
    ev = L.YowLayerEvent("ev.test", detached=True) if detached else L.YowLayerEvent("ev.test")
    del log[:]
    if emitter == "stack":
        epos = -1 if direction == "emit" else depth
        (st.emitEvent if direction == "emit" else st.broadcastEvent)(ev)
    else:
        epos = emitter
        inst = st.getLayer(emitter)
        (inst.emitEvent if direction == "emit" else inst.broadcastEvent)(ev)
    expected = ref_event(names, epos, direction, consumers)
    seen_now = [e[1] for e in log if e[0] == "event"]
    obs = []
    if detached:
        obs.append(("detached: nothing is lost before the loop runs (prefix)", seen_now == expected[:len(seen_now)]))
        _run_loop_once(st)
    seen = [e[1] for e in log if e[0] == "event"]
    obs.append(("event seen exactly once, in stack order, until consumed (expected %s, got %s)" % (expected, seen), seen == expected))
    mine = set()
    for i in range(len(shape)):
        l = st.getLayer(i)
        mine.add(id(l))
        mine.update(id(x) for x in getattr(l, "sublayers", ()) or ())
    obs.append(("the handlers that ran belong to layers of THIS stack", all(id(x) in mine for x in SEEN_BY)))
    return obs


def h_emitter_in_group(ctx, depth, options):
    """a member of a parallel group emits: every layer beyond the group sees it exactly once in order until consumed;
    siblings at most once"""
    shape = _choose_shape(ctx, depth, options)
    L, Y = _mods()
    groups = [i for i, g in enumerate(shape) if g > 0]
    if not groups:
        return []
    st, names, log = _build(shape, "classes", False)
    gpos = ctx.choice("group", groups)
    member = ctx.choice("member", list(range(shape[gpos])))
    direction = ctx.choice("direction", ["emit", "broadcast"])
    others = [n for i, grp in enumerate(names) for n in grp if i != gpos]
    # a member of the emitter's own group (the emitter itself or a sibling) may claim the event too: it is not above / below the emitter,
    # so the layers beyond the group still have to see it
    consumer = ctx.choice("consumer", ["nobody"] + others + list(names[gpos]))
    _set_consumers(set() if consumer == "nobody" else {consumer})
    del log[:]
    sub = st.getLayer(gpos).sublayers[member]
    ev = L.YowLayerEvent("ev.test")
    (sub.emitEvent if direction == "emit" else sub.broadcastEvent)(ev)
    expected = ref_event(names, gpos, direction, set() if consumer == "nobody" or consumer in names[gpos] else {consumer})
    seen = [e[1] for e in log if e[0] == "event"]
    beyond = [n for n in seen if n not in names[gpos]]
    sib = [n for n in seen if n in names[gpos]]
    return [("beyond the group: exactly once, in order, until consumed (expected %s, got %s)" % (expected, beyond), beyond == expected),
            ("siblings see it at most once", len(sib) == len(set(sib)))]


BASIC = ("YowAuthenticationProtocolLayer", "YowMessagesProtocolLayer", "YowReceiptProtocolLayer", "YowAckProtocolLayer", "YowPresenceProtocolLayer", "YowIbProtocolLayer",
         "YowIqProtocolLayer", "YowNotificationsProtocolLayer", "YowContactsIqProtocolLayer", "YowChatstateProtocolLayer", "YowCallsProtocolLayer")
OPTIONAL = {"groups": "YowGroupsProtocolLayer", "media": "YowMediaProtocolLayer", "privacy": "YowPrivacyProtocolLayer", "profiles": "YowProfilesProtocolLayer"}
TRANSPORT = ["YowNetworkLayer", "YowNoiseSegmentsLayer", "YowNoiseLayer", "YowCoderLayer", "YowLoggerLayer"]
ENCRYPTION = ["AxolotlControlLayer", ["AxolotlSendLayer", "AxolotlReceivelayer"]]


def _describe(layers):
    """class names of a layer tuple (parallel groups as lists)"""
    L, Y = _mods()
    out = []
    for l in layers:
        if isinstance(l, L.YowParallelLayer):
            out.append([type(s).__name__ for s in l.sublayers])
        elif isinstance(l, tuple):
            out.append([c.__name__ for c in l])
        elif isinstance(l, type):
            out.append(l.__name__)
        else:
            out.append(type(l).__name__)
    return out


def _expected_default(flags):
    prot = list(BASIC) + [OPTIONAL[k] for k in ("groups", "media", "privacy", "profiles") if flags[k]]
    return TRANSPORT + ENCRYPTION + [prot]


def h_default_layers(ctx):
    L, Y = _mods()
    flags = {k: ctx.flag(k) for k in ("groups", "media", "privacy", "profiles")}
    layers = Y.YowStackBuilder.getDefaultLayers(**flags)
    got = _describe(layers)
    exp = _expected_default(flags)
    return [("default layers = transport + encryption + exactly the selected modules (got %s)" % (got[-1],), got[:-1] == exp[:-1] and sorted(got[-1]) == sorted(exp[-1])),
            ("no module twice", len(got[-1]) == len(set(got[-1])))]


def h_default_stack(ctx):
    L, Y = _mods()
    flags = {k: ctx.flag(k) for k in ("groups", "media", "privacy", "profiles")}
    axolotl = ctx.flag("axolotl")
    with_layer = ctx.flag("with_top_layer")
    top = _rec_class("TOP") if with_layer else None
    if top:
        top.LOG = []
    st = Y.YowStackBuilder.getDefaultStack(layer=top, axolotl=axolotl, **flags)
    n = 8 + (1 if with_layer else 0)
    insts = []
    for i in range(n):
        insts.append(st.getLayer(i))
    got = _describe(insts)
    exp = _expected_default(flags) + (["Rec_TOP"] if with_layer else [])
    obs = [("default stack = transport + encryption + selected modules (+ given layer)", got[:7] == exp[:7] and sorted(got[7]) == sorted(exp[7]) and got[8:] == exp[8:])]
    try:
        st.getLayer(n)
        obs.append(("no extra layer", False))
    except IndexError:
        obs.append(("no extra layer", True))
    return obs


def h_interface_of_subclassed_layer(ctx):
    """'interfaces ... are found by class': a stack that holds a layer class AND a subclass of it (an application extending a stock layer
    next to the stock one) hands out, for each class asked for, the interface of the layer of exactly that class"""
    L, Y = _mods()

    class IfaceX(L.YowLayerInterface):
        pass

    class X(L.YowLayer):
        def __init__(self):
            super(X, self).__init__()
            self.interface = IfaceX(self)

    class Sub(X):
        pass

    class Other(L.YowLayer):
        pass
    where = ctx.choice("subclass_position", ["below, plain", "above, plain", "below, in a group", "same group, listed first", "same group, listed second"])
    layers = {"below, plain": (Sub, Other, X), "above, plain": (X, Other, Sub), "below, in a group": ((Sub, Other), X),
              "same group, listed first": (Other, (Sub, X)), "same group, listed second": (Other, (X, Sub))}[where]
    st = Y.YowStack(layers, reversed=False)
    ix, isub = st.getLayerInterface(X), st.getLayerInterface(Sub)
    return [("asking for the base class yields the base class layer's interface", ix is not None and type(ix._layer) is X),
            ("asking for the subclass yields the subclass layer's interface", isub is not None and type(isub._layer) is Sub)]


def h_legacy_constants(ctx):
    """the plain tuples the package exports (yowsup.stacks.YOWSUP_*): the full stack is the five core layers below ONE parallel group of
    the protocol layers, upper layers first; building it yields that shape"""
    L, Y = _mods()
    import yowsup.stacks as S
    which = ctx.choice("constant", ["YOWSUP_FULL_STACK", "YOWSUP_PROTOCOL_LAYERS_FULL", "YOWSUP_CORE_LAYERS"])
    full = S.YOWSUP_FULL_STACK
    core = [c.__name__ for c in S.YOWSUP_CORE_LAYERS]
    obs = [("core layers, upper first", core == TRANSPORT[::-1])]
    prot = [c.__name__ for c in S.YOWSUP_PROTOCOL_LAYERS_FULL]
    obs.append(("all optional modules plus the basic ones (calls listed once)", sorted(set(prot)) == sorted(set(BASIC) | set(OPTIONAL.values())) and len(prot) == len(set(prot))))
    obs.append(("full stack = one group of protocol layers on top of the core layers", len(full) == 1 + len(S.YOWSUP_CORE_LAYERS) and isinstance(full[0], tuple)
                and [c.__name__ for c in full[0]] == prot and [c.__name__ for c in full[1:]] == core))
    if which == "YOWSUP_FULL_STACK":
        st = Y.YowStack(full)
        got = []
        for i in range(len(S.YOWSUP_CORE_LAYERS) + 1):
            inst = st.getLayer(i)
            got.append(sorted(type(x).__name__ for x in inst.sublayers) if isinstance(inst, L.YowParallelLayer) else type(inst).__name__)
        obs.append(("the built stack: core layers bottom-up, then one parallel group with every protocol layer", got == TRANSPORT + [sorted(prot)]))
    return obs


def h_builder(ctx, n_ops):
    L, Y = _mods()
    b = Y.YowStackBuilder()
    model = []
    k = 0
    for i in range(n_ops):
        op = ctx.choice("op%d" % i, ["push", "pop", "push-group", "push-implicit-group"])
        if op == "push":
            c = _rec_class("B%d" % k)
            k += 1
            r = b.push(c)
            model.append([c.NAME])
        elif op == "push-group":
            cs = (_rec_class("B%da" % k), _rec_class("B%db" % k))
            k += 1
            r = b.push(L.YowParallelLayer(cs))
            model.append([c.NAME for c in cs])
        elif op == "push-implicit-group":
            cs = (_rec_class("B%da" % k), _rec_class("B%db" % k))
            k += 1
            r = b.push(cs)                  # a plain tuple of classes: the stack wraps it into a parallel group
            model.append([c.NAME for c in cs])
        else:
            r = b.pop()
            if model:
                model.pop()
        if r is not b:
            return [("builder methods chain", False)]
    for c in _CLS_CACHE.values():
        c.LOG = []
    if not model:
        return [("empty builder builds an empty stack", _builds(b))]
    st = b.build()
    got = []
    for i in range(len(model)):
        try:
            inst = st.getLayer(i)
        except IndexError:
            break
        got.append([s.NAME for s in inst.sublayers] if isinstance(inst, L.YowParallelLayer) else [inst.NAME])
    deeper = True
    try:
        st.getLayer(len(model))
    except IndexError:
        deeper = False
    log = []
    for c in _CLS_CACHE.values():
        c.LOG, c.CONSUME = log, set()
    st.send(())
    arrivals = [e[2] + (e[1],) for e in log if e[0] == "send" and e[1] in model[0]]
    return [("built stack has the pushed layers in push order (bottom first), and no more", got == model and not deeper),
            ("data sent from the top of the built stack is offered to every member of every group and continues downward", arrivals == ref_down(model))]


def _builds(b):
    try:
        b.build()
        return True
    except Exception:
        return False


def finding_key(case, label, values, where):
    if case.startswith("default-stack") and label.startswith("raised TypeError"):
        return "C18|getDefaultStack raises TypeError for every argument combination"
    return None


def cases(tier):
    q = tier == "quick"
    opts = [0, 2, 3] if q else [0, 1, 2, 4]
    maxd = 4 if q else 6
    cs = []
    for d in range(1, maxd + 1):
        if d == 4:
            for first in opts:
                cs.append(dict(name="dataflow[depth=4,bottom=%d]" % first, fn=_with_first(h_dataflow, first), args=(d, opts), max_paths=200000, timeout_s=600 if q else 3000, weight=4 ** d, keep_samples=3))
                cs.append(dict(name="events[depth=4,bottom=%d]" % first, fn=_with_first(h_events, first), args=(d, opts), max_paths=400000, timeout_s=600 if q else 3000, weight=6 ** d, keep_samples=4))
                cs.append(dict(name="emitter-in-group[depth=4,bottom=%d]" % first, fn=_with_first(h_emitter_in_group, first), args=(d, opts), max_paths=400000, timeout_s=600 if q else 3000, weight=5 ** d, keep_samples=3))
        elif d < 4:
            cs.append(dict(name="dataflow[depth=%d]" % d, fn=h_dataflow, args=(d, opts), max_paths=200000, timeout_s=600 if q else 3000, weight=4 ** d, keep_samples=4))
            cs.append(dict(name="events[depth=%d]" % d, fn=h_events, args=(d, opts), max_paths=400000, timeout_s=600 if q else 3000, weight=6 ** d, keep_samples=6))
            cs.append(dict(name="emitter-in-group[depth=%d]" % d, fn=h_emitter_in_group, args=(d, opts), max_paths=400000, timeout_s=600 if q else 3000, weight=5 ** d, keep_samples=4))
        else:
            # deeper stacks: group size matters only at emitter/consumer positions -> two group sizes
            for first in ([0, 2]):
                cs.append(dict(name="dataflow[depth=%d,bottom=%d]" % (d, first), fn=_with_first(h_dataflow, first), args=(d, [0, 2]), max_paths=400000, timeout_s=3000, weight=3 ** d, keep_samples=3))
                cs.append(dict(name="events[depth=%d,bottom=%d]" % (d, first), fn=_with_first(h_events, first), args=(d, [0, 2]), max_paths=800000, timeout_s=3400, weight=4 ** d, keep_samples=3))
    for d in (1, 2, 3) if q else (1, 2, 3, 4):
        cs.append(dict(name="post-construct[depth=%d]" % d, fn=h_post_construct, args=(d, opts), max_paths=200000, timeout_s=600 if q else 3000, weight=4 ** d, keep_samples=4))
    cs.append(dict(name="legacy-constants", fn=h_legacy_constants))
    cs.append(dict(name="interface-by-class[a layer and a subclass of it in one stack]", fn=h_interface_of_subclassed_layer, keep_samples=6))
    cs.append(dict(name="default-layers", fn=h_default_layers, keep_samples=16))
    cs.append(dict(name="default-stack", fn=h_default_stack, keep_samples=16, max_paths=200))
    cs.append(dict(name="builder[ops<=4]", fn=h_builder, args=(4,), keep_samples=8))
    return cs


def _with_first(fn, first):
    def f(ctx, depth, options):
        class C2(object):
            def __init__(self, c):
                self.c = c

            def __getattr__(self, n):
                return getattr(self.c, n)

            def choice(self, name, opts):
                if name == "pos0":
                    return first
                return self.c.choice(name, opts)
        return fn(C2(ctx), depth, options)
    f.__name__ = fn.__name__
    return f
