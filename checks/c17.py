"""C17 -- contact identity keys are pinned: a changed key is never accepted silently.

Real AxolotlManager + real sqlite stores + real python-axolotl for three parties: me, the contact with identity A, the
contact after a reinstall with identity B.  The solver chooses the history (contact publishes a bundle under A/B,
first message arrives under A/B, outgoing message, restart of my process) and the auto-trust option; a ghost pin is
compared with the store and with who can actually decrypt what I send.  step[*]: the layers' reaction (getKeysFor /
handleEncMessage) with symbolic JIDs."""
import os, shutil, tempfile
from sx import core, hooks, harness as H
from checks import stanza_common as SC, stack_common as ST

PROPERTY = "C17"
LEVEL = "model_checking"
CODE = ["sx/symsql.py (pin-crash case)", "yowsup/axolotl/store/sqlite/liteidentitykeystore.py:isTrustedIdentity/saveIdentity", "yowsup/axolotl/manager.py:create_session/trust_identity/encrypt/decrypt_pkmsg",
        "yowsup/layers/axolotl/layer_base.py:getKeysFor", "yowsup/layers/axolotl/layer_receive.py:handleEncMessage (untrusted branch)", "yowsup/layers/axolotl/layer_send.py:on_get_keys_process_errors"]
BOUNDS = {"quick": "[+ flag: first group message of the reinstalled member] " 
                   "[+ 4 ways of building two stacks x which one switches the option on] " 
                   "[+ trust decision: 3 contact ids in [0,2^40) pairwise different, three 33-byte keys] " 
                   "all histories of <= 3 events over {bundle A, bundle B, first message A, first message B, outgoing message, restart} x auto-trust on/off, 3 parties",
          "thorough": "histories of <= 5 events"}
OUTSIDE = ["the ratchet internals of python-axolotl (real, concrete)", "more than one contact changing identity at once", "histories longer than the bound"]
ASSUMPTIONS = ["the contact's two identities are two real key stores generated per path",
               "random message padding fixed to 1 byte (python-axolotl's AESCipher cannot round-trip block-aligned plaintext: external library defect, see DESIGN.md)"]
EXPLANATION = "solver-driven bounded exploration of identity-change histories on the real manager, store and python-axolotl"

_TMP = os.environ.get("VERIF_TMP") or ("/dev/shm" if os.path.isdir("/dev/shm") else tempfile.gettempdir())
ME, BOB = "4915900000001", "4915900000002"


class _FixedRandom(object):
    """python-axolotl's AESCipher (external library) does not pad block-aligned plaintext but always unpads, so 1 in 16 of yowsup's
    randomly padded messages cannot be decrypted by the peer (observation recorded in DESIGN.md; outside the repository).
    A fixed padding length keeps the histories deterministic and away from that library defect."""

    @staticmethod
    def randint(a, b):
        return 1


def _manager(path, name):
    import yowsup.axolotl.manager as mm
    mm.random = _FixedRandom
    from yowsup.axolotl.manager import AxolotlManager
    from yowsup.axolotl.store.sqlite.liteaxolotlstore import LiteAxolotlStore
    AxolotlManager.COUNT_GEN_PREKEYS = 3
    AxolotlManager.THRESHOLD_REGEN = 2
    return AxolotlManager(LiteAxolotlStore(path), name)


def _bundle(mgr):
    from axolotl.state.prekeybundle import PreKeyBundle
    pk = (mgr.level_prekeys(force=True) or mgr._store.loadPreKeys())[0]
    spk = mgr.load_latest_signed_prekey(generate=True)
    return PreKeyBundle(mgr.registration_id, 1, pk.getId(), pk.getKeyPair().getPublicKey(), spk.getId(), spk.getKeyPair().getPublicKey(), spk.getSignature(), mgr.identity.getPublicKey())


def _stored_identity(mgr, who):
    """what a process started NOW would read: the committed state, through an independent connection"""
    import sqlite3
    c = sqlite3.connect(str(mgr._store))
    try:
        r = c.execute("SELECT public_key FROM identities WHERE recipient_id = ?", (who,)).fetchone()
    finally:
        c.close()
    return bytes(r[0]) if r else None


def _close(mgr):
    try:
        mgr._store.identityKeyStore.dbConn.close()
    except Exception:
        pass


def _can_decrypt(bob, ciphertext):
    from axolotl.protocol.whispermessage import WhisperMessage
    try:
        data = ciphertext.serialize()
        if isinstance(ciphertext, WhisperMessage):
            return bob.decrypt_msg(ME, data, True)
        return bob.decrypt_pkmsg(ME, data, True)
    except Exception:
        return None


@ST.deterministic("c17-h_history")
def h_history(ctx, n):
    from yowsup.axolotl import exceptions as yex
    from axolotl.untrustedidentityexception import UntrustedIdentityException as AxUntrusted
    d = tempfile.mkdtemp(prefix="c17_", dir=_TMP)
    try:
        autotrust = ctx.flag("autotrust")
        me = _manager(os.path.join(d, "me.db"), ME)
        bobs = {"A": _manager(os.path.join(d, "bobA.db"), BOB), "B": _manager(os.path.join(d, "bobB.db"), BOB)}
        ident = {k: bytes(m.identity.getPublicKey().serialize()) for k, m in bobs.items()}
        pinned = None
        obs, hist = [], []
        for step in range(n):
            ev = ctx.choice("e%d" % step, ["bundle-A", "bundle-B", "first-message-A", "first-message-B", "outgoing", "restart", "stop"])
            if ev == "stop":
                break
            hist.append(ev)
            tag = "#%d %s" % (step, ev)
            if ev.startswith("bundle-") or ev.startswith("first-message-"):
                X = ev[-1]
                changed = pinned is not None and pinned != X
                refused = False
                try:
                    if ev.startswith("bundle-"):
                        me.create_session(BOB, _bundle(bobs[X]), autotrust=autotrust)
                    else:
                        bobs[X].create_session(ME, _bundle(me))
                        ct = bobs[X].encrypt(ME, b"hello from " + X.encode())
                        try:
                            me.decrypt_pkmsg(BOB, ct.serialize(), True)
                        except AxUntrusted as e:
                            # what AxolotlReceivelayer.handleEncMessage does with it
                            if autotrust:
                                me.trust_identity(e.getName(), e.getIdentityKey())
                                me.decrypt_pkmsg(BOB, ct.serialize(), True)
                            else:
                                raise yex.UntrustedIdentityException(e.getName(), e.getIdentityKey())
                except yex.UntrustedIdentityException:
                    refused = True
                if not changed:
                    obs.append((tag + ": first / unchanged identity is accepted", not refused))
                    pinned = X
                elif autotrust:
                    obs.append((tag + ": changed identity accepted under auto-trust", not refused))
                    pinned = X
                else:
                    obs.append((tag + ": changed identity is refused", refused))
                obs.append((tag + ": remembered identity is the pinned one", _stored_identity(me, BOB) == (ident[pinned] if pinned else None)))
                other = "B" if pinned == "A" else "A"
                obs.append((tag + ": the other identity is not trusted", not me._store.isTrustedIdentity(BOB, bobs[other].identity.getPublicKey())))
            elif ev == "outgoing":
                if pinned is None or not me.session_exists(BOB):
                    continue
                ct = me.encrypt(BOB, b"secret text")
                other = "B" if pinned == "A" else "A"
                got_other = _can_decrypt(bobs[other], ct)
                obs.append((tag + ": nothing I send can be read under the identity that is not pinned", got_other is None))
                got = _can_decrypt(bobs[pinned], ct)
                obs.append((tag + ": messaging works with the pinned identity (messaging resumes after an accepted change)", got == b"secret text"))
            elif ev == "restart":
                _close(me)
                me = _manager(os.path.join(d, "me.db"), ME)
                obs.append((tag + ": pin survives the restart", _stored_identity(me, BOB) == (ident[pinned] if pinned else None)))
        ctx.note("history %s autotrust=%s" % (hist, autotrust))
        for m in [me] + list(bobs.values()):
            _close(m)
        return obs
    finally:
        shutil.rmtree(d, ignore_errors=True)


# ---- layer reaction with symbolic JIDs ------------------------------------------------------------------------------------------
@ST.deterministic("c17-h_step_getkeys")
def h_step_getkeys(ctx):
    """getKeysFor.onSuccess: an untrusted identity reported by the manager is an error for that jid and the message is not sent"""
    from yowsup.axolotl import exceptions as yex
    st, bottom, app, mgr = ST.build(enc=True, sessions=False, **ST.FLAG_SETS["all"])
    autotrust = ctx.flag("autotrust")
    from yowsup.layers.axolotl.props import PROP_IDENTITY_AUTOTRUST
    st.setProp(PROP_IDENTITY_AUTOTRUST, autotrust)
    untrusted = ctx.flag("manager_reports_untrusted")
    seen = []

    def create_session(rid, bundle, autotrust=False):
        seen.append((rid, autotrust))
        if untrusted and not autotrust:
            raise yex.UntrustedIdentityException(rid, None)
        mgr.sessions = True
    mgr.create_session = create_session
    from checks import c09, c09_templates as T
    text = T._cls("protocol_messages.protocolentities.message_text.TextMessageProtocolEntity")("hi", to=T.J)
    app.toLower(text)
    iq = [n for n in bottom.down if n.tag == "iq"][0]
    if ctx.flag("option_changed_while_the_keys_are_fetched"):
        # the application switches the option while the request is in flight: the decision uses the option as it is when the bundle arrives
        autotrust = not autotrust
        st.setProp(PROP_IDENTITY_AUTOTRUST, autotrust)
    found, _ = c09.discover()
    fx = [c09._load_fixture(m, c)[1] for m, c, _l, _d in found if c == "ResultGetKeysIqProtocolEntityTest"][0]
    user = fx.getChild("list").children[0]
    N = SC.N()
    bottom.inject(N("iq", {"id": hooks.dict_get(iq.attributes, "id"), "type": "result", "from": "s.whatsapp.net"}, [N("list", {}, [N("user", {"jid": T.J}, list(user.children))])]))
    msgs = [n for n in bottom.down if n.tag == "message"]
    refused = untrusted and not autotrust
    return [("auto-trust option is passed to the manager", seen == [(T.J.split("@")[0], autotrust)]),
            ("message is sent iff the identity was accepted (sent %d)" % len(msgs), (len(msgs) == 1) == (not refused)),
            ("no plaintext leaves in either case", all(m.getChild("proto") is None for m in msgs))]


def h_step_identity_notification(ctx):
    """the server announces that a contact's identity changed: the library fetches the contact's keys; the fetched bundle must go through
    the same trust decision (auto-trust option as configured, never forced): a changed key is not accepted silently on this route either"""
    from yowsup.axolotl import exceptions as yex
    st, bottom, app, mgr = ST.build(enc=True, sessions=True, **ST.FLAG_SETS["all"])
    autotrust = ctx.flag("autotrust")
    from yowsup.layers.axolotl.props import PROP_IDENTITY_AUTOTRUST
    st.setProp(PROP_IDENTITY_AUTOTRUST, autotrust)
    seen = []

    def create_session(rid, bundle, autotrust=False):
        seen.append((rid, autotrust))
        if not autotrust:
            raise yex.UntrustedIdentityException(rid, None)       # the bundle carries a key different from the pinned one
    mgr.create_session = create_session
    from checks import c09, c09_templates as T
    N = SC.N()
    bottom.inject(N("notification", {"id": "n7", "from": T.J, "type": "encrypt", "t": "1400000000"}, [N("identity")]))
    iqs = [n for n in bottom.down if n.tag == "iq"]
    obs = [("the notification is acknowledged and the contact's keys are requested", len([n for n in bottom.down if n.tag == "ack"]) == 1 and len(iqs) == 1)]
    if len(iqs) != 1:
        return obs
    found, _ = c09.discover()
    fx = [c09._load_fixture(m, c)[1] for m, c, _l, _d in found if c == "ResultGetKeysIqProtocolEntityTest"][0]
    user = fx.getChild("list").children[0]
    bottom.inject(N("iq", {"id": hooks.dict_get(iqs[0].attributes, "id"), "type": "result", "from": "s.whatsapp.net"}, [N("list", {}, [N("user", {"jid": T.J}, list(user.children))])]))
    obs.append(("the fetched bundle is submitted with the configured auto-trust option, not a forced one (%s)" % seen, seen == [(T.J.split("@")[0], autotrust)]))
    return obs


@ST.deterministic("c17-h_step_receive")
def h_step_receive(ctx):
    """AxolotlReceivelayer.handleEncMessage when the manager reports an untrusted identity: ignored unless the application
    switched auto-trust ON (option unset or off: refused; nothing is trusted behind the application's back)"""
    from axolotl.untrustedidentityexception import UntrustedIdentityException as AxUntrusted
    st, bottom, app, mgr = ST.build(enc=True, **ST.FLAG_SETS["all"])
    from yowsup.layers.axolotl.props import PROP_IDENTITY_AUTOTRUST
    opt = ctx.choice("autotrust_option", ["unset", False, True])
    if opt != "unset":
        st.setProp(PROP_IDENTITY_AUTOTRUST, opt)
    calls = []
    state = {"trusted": False}

    def decrypt_pkmsg(sender, data, unpad):
        calls.append(("decrypt", sender))
        if not state["trusted"]:
            raise AxUntrusted(sender, "NEWKEY")
        from yowsup.layers.protocol_messages.proto.e2e_pb2 import Message
        m = Message()
        m.conversation = "hi"
        return m.SerializeToString()

    def trust_identity(name, key):
        calls.append(("trust_identity", name))
        state["trusted"] = True
    mgr.decrypt_pkmsg, mgr.trust_identity = decrypt_pkmsg, trust_identity
    N = SC.N()
    mid, sender = H.zstr(ctx, "id"), H.zstr(ctx, "from")
    group = ctx.flag("first_group_message_of_the_reinstalled_member")
    if group:
        # the member's first message to a group after reinstalling: the new sender key travels in the pairwise envelope (under the new
        # identity), the text under the sender key -- one stanza, two envelopes
        from yowsup.layers.protocol_messages.proto.e2e_pb2 import Message

        def decrypt_pkmsg_skdm(sender_, data, unpad):
            calls.append(("decrypt", sender_))
            if not state["trusted"]:
                raise AxUntrusted(sender_, "NEWKEY")
            m = Message()
            m.sender_key_distribution_message.group_id = "4915900000009-1400000000@g.us"
            m.sender_key_distribution_message.axolotl_sender_key_distribution_message = b"\x01\x02"
            return m.SerializeToString()

        def group_decrypt(groupid=None, participantid=None, data=None, *a, **k):
            calls.append(("group_decrypt", participantid))
            m = Message()
            m.conversation = "hi"
            return m.SerializeToString()
        mgr.decrypt_pkmsg, mgr.group_decrypt = decrypt_pkmsg_skdm, group_decrypt
        mgr.group_create_session = lambda *a, **k: calls.append(("group_create_session",))
        bottom.inject(N("message", {"id": mid, "from": "4915900000009-1400000000@g.us", "participant": sender, "type": "text", "t": "1400000000"},
                        [N("enc", {"type": "pkmsg", "v": "2"}, None, b"\x33\x08ct"), N("enc", {"type": "skmsg", "v": "2"}, None, b"\x33\x08ct2")]))
    else:
        bottom.inject(N("message", {"id": mid, "from": sender, "type": "text", "t": "1400000000"}, [N("enc", {"type": "pkmsg", "v": "2"}, None, b"\x33\x08ct")]))
    accepted = opt is True
    trusted = [c for c in calls if c[0] == "trust_identity"]
    return [("new identity is stored only if the application switched auto-trust on (option %s)" % opt, (len(trusted) == 1) == accepted),
            ("message under the changed identity is delivered only under auto-trust", (len(app.up) == 1) == accepted),
            ("a refused message is not answered", accepted or len(bottom.down) == 0)]


def finding_key(case, label, values, where):
    if "messaging resumes after an accepted change" in label:
        return "C17|after an auto-trusted identity change no new session is built: messages stay encrypted for the old identity"
    return None


def h_pin_crash(ctx, n_ops):
    """the identities table under symbolic contact ids and keys on the symbolic SQL engine (shared with C13): the process dies at any
    statement/commit boundary while a contact's key is being (re)saved; after the restart the pin is the previous or the new key, never gone
    (a missing pin would make ANY key trusted on first use), and a different key is not trusted"""
    from checks import c13
    obs = c13.h_sym(ctx, "identities", n_ops)
    return [(l.replace("identities record", "pinned identity"), o) for l, o in obs if "identit" in l]


def _iff(a, b):
    import z3
    if isinstance(a, bool) and isinstance(b, bool):
        return a == b
    if isinstance(a, bool):
        return b if a else z3.Not(b)
    if isinstance(b, bool):
        return a if b else z3.Not(a)
    return a == b


def h_option_per_account(ctx):
    """the auto-trust option belongs to one account's stack: two stacks in one process (built from one builder, from two builders, or
    directly) -- switching it on for one leaves the other one refusing changed identities (its layers read the option through their stack)"""
    from yowsup.stacks.yowstack import YowStack, YowStackBuilder
    import yowsup.layers as L
    from yowsup.layers.axolotl.props import PROP_IDENTITY_AUTOTRUST

    class Probe(L.YowLayer):
        pass
    how = ctx.choice("stacks_built_by", ["one builder", "two builders", "YowStack directly", "one builder, props given"])
    if how == "one builder":
        b = YowStackBuilder().push(Probe)
        s1, s2 = b.build(), b.build()
    elif how == "two builders":
        s1, s2 = YowStackBuilder().push(Probe).build(), YowStackBuilder().push(Probe).build()
    elif how == "YowStack directly":
        s1, s2 = YowStack((Probe,)), YowStack((Probe,))
    else:
        b = YowStackBuilder().push(Probe)
        b.setProp("some.option", 1)
        s1, s2 = b.build(), b.build()
    first = ctx.choice("switched_on_for", ["first", "second"])
    on, other = (s1, s2) if first == "first" else (s2, s1)
    on.setProp(PROP_IDENTITY_AUTOTRUST, True)
    return [("the account that switched auto-trust on has it", on.getLayer(0).getProp(PROP_IDENTITY_AUTOTRUST, False) is True),
            ("the other account still refuses changed identities (its layers read no auto-trust option)", other.getLayer(0).getProp(PROP_IDENTITY_AUTOTRUST, False) is False)]


def h_trust_decision(ctx):
    """the trust decision as a function of what is pinned: two contacts with unconstrained ids (different) and unconstrained 32-byte keys are
    pinned (the account's own key is in the same table); an unconstrained key presented for the first contact is trusted exactly if it IS that
    contact's pinned key -- whoever else the key belongs to; a contact nobody pinned yet is trusted on first use.  Real store classes on the
    symbolic SQL engine, replayed on sqlite3"""
    from checks import c13
    b = c13.Boundary()
    env = c13.SymEnv(ctx, b)
    try:
        store = env.open()
        r1, r2, r3 = ctx.int("contact1", 0, 2 ** 40), ctx.int("contact2", 0, 2 ** 40), ctx.int("contact3", 0, 2 ** 40)
        k1, k2, k = H.symbytes(ctx, "KEY1", 33), H.symbytes(ctx, "KEY2", 33), H.symbytes(ctx, "PRESENTED", 33)
        if H.sym(ctx):
            ctx.assume(r1 != r2)
            ctx.assume(r3 != r1)
            ctx.assume(r3 != r2)
        elif len({r1, r2, r3}) != 3:
            raise core.Infeasible()
        store.saveIdentity(r1, c13.Rec(serialized=k1))
        store.saveIdentity(r2, c13.Rec(serialized=k2))
        if ctx.flag("restart_before_the_decision"):
            env.die()
            store = env.open()
        # another process (a second client on the profile, a backup tool) may hold the file while the decision is made: the lookup then
        # fails with "database is locked" -- a decision that could not be made is reported, it is not a yes
        import sqlite3 as _sqlite3
        busy = ctx.flag("store_busy_during_the_decision")
        if busy:
            b.armed, b.busy, b.crash_at, b.count = True, True, 0, 0
        try:
            got = store.isTrustedIdentity(r1, c13.Rec(serialized=k))
        except _sqlite3.OperationalError:
            b.armed = False
            return [("a lookup that failed is reported to the caller (no decision)", True)]
        b.armed = b.busy = False
        obs = [("a key presented for a pinned contact is trusted iff it is that contact's pinned key", _iff(core.eq(got, True), H.rope_eq(k, k1)))]
        obs.append(("a contact without a pin is trusted on first use", core.eq(store.isTrustedIdentity(r3, c13.Rec(serialized=k)), True)))
        return obs
    finally:
        env.restore()


def cases(tier):
    extra = [dict(name="pin-crash[symbolic store,ops<=%d]" % (2 if tier == "quick" else 3), fn=h_pin_crash, args=(2 if tier == "quick" else 3,), max_paths=200000, timeout_s=900, weight=30, keep_samples=8)]
    n = 3 if tier == "quick" else 5
    cs = []
    # split by first event for parallelism
    for first in ("bundle-A", "first-message-A", "bundle-B", "first-message-B"):
        cs.append(dict(name="history[first=%s,len<=%d]" % (first, n), fn=_with_first(first), args=(n,), max_paths=400000, timeout_s=900 if tier == "quick" else 3400, keep_samples=8, weight=100))
    cs.append(dict(name="step[getKeysFor]", fn=h_step_getkeys))
    cs.append(dict(name="step[handleEncMessage]", fn=h_step_receive))
    cs.append(dict(name="step[identity-change notification]", fn=h_step_identity_notification))
    cs.append(dict(name="option-per-account[two stacks in one process]", fn=h_option_per_account, keep_samples=8))
    cs.append(dict(name="trust-decision[symbolic contacts and keys]", fn=h_trust_decision, timeout_s=300, keep_samples=12))
    return cs + extra


def _with_first(first):
    def f(ctx, n):
        class C2(object):
            def __init__(self, c):
                self.c = c

            def __getattr__(self, k):
                return getattr(self.c, k)

            def choice(self, name, opts):
                if name == "e0":
                    return first
                return self.c.choice(name, opts)
        return h_history(C2(ctx), n)
    return f
