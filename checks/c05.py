"""C05 -- frame segmentation: any chunking of the byte stream yields the original frames.

Symbolic variables: frame lengths n_j in [1, 2^24), payload contents (abstract rope pieces), chunk cut
positions (anywhere, including inside the 3-byte headers), outgoing payload length.
Real code executed: YowNoiseSegmentsLayer.receive / send (instrumented from /repo)."""
from sx import core, hooks, harness as H
from sx.core import SymInt
from sx.vals import SymSeq

PROPERTY = "C05"
LEVEL = "model_checking"
CODE = ["yowsup/layers/noise/layer_noise_segments.py:YowNoiseSegmentsLayer.receive",
        "yowsup/layers/noise/layer_noise_segments.py:YowNoiseSegmentsLayer.send"]
BOUNDS = {"quick": "[+ k<=2 frames, 2 chunks with a pause of 0..10^7 s and one of 4 events between them] " 
                   "[+ caller reusing its read buffer (k<=2 frames, m<=3 chunks)] " 
                   "[+ call depth of every hand-over in the step; 1100 minimal frames (unconstrained bytes) in one read] " 
                   "streams of k<=3 frames cut into m<=3 chunks (every frame length 1..2^24-1, every cut position); "
                   "step harness: 1 pending + <=2 whole frames + partial next; send: every length 0..2^25; consumer failing on one delivery (k<=3 frames, m<=2 chunks)",
          "thorough": "[+ 4000 minimal frames in one read] streams of k<=4 frames cut into m<=5 chunks; same step and send harnesses"}
OUTSIDE = ["streams with more frames/chunks than the bound are covered only through the step harness, which assumes the "
           "layer's only state is its read buffer (checked structurally on each run)",
           "frames of length 0 (the property quantifies over non-empty frames)"]
ASSUMPTIONS = ["struct.pack/unpack('>I') modelled as exact big-endian arithmetic (validated against CPython in selftest)",
               "payload bytes are abstract: the layer only moves them (any branch on a payload byte would be reported Unsupported)"]
EXPLANATION = "bounded symbolic execution of the real segments layer; inputs are symbolic lengths/cuts, verdict per path by z3"


class _Stack:
    def __init__(self, enabled):
        self.enabled = enabled

    def getProp(self, k, d=None):
        return self.enabled


class Clock(object):
    """stands for the `time` module inside the layer's module, should it use one: instants are whatever the harness (the solver) advances
    them to -- non-decreasing for monotonic(), and for time() as well (a wall clock stepping backwards is left out)"""

    def __init__(self):
        self.now = 1700000000

    def time(self):
        return self.now

    monotonic = perf_counter = time

    def sleep(self, s):
        pass

    def __getattr__(self, n):
        import time as _t
        return getattr(_t, n)


CLOCK = [None]


def _layer(enabled=True):
    import sys
    from yowsup.layers.noise.layer_noise_segments import YowNoiseSegmentsLayer
    hooks.ROPE_BYTEARRAYS = True
    mod = sys.modules[YowNoiseSegmentsLayer.__module__]
    CLOCK[0] = Clock()
    if hasattr(mod, "time"):
        mod.time = CLOCK[0]
    layer = YowNoiseSegmentsLayer()
    layer.setStack(_Stack(enabled))
    up, down = [], []
    layer.toUpper = up.append
    layer.toLower = down.append
    return layer, up, down


def be24(ctx, n):
    if H.sym(ctx):
        n = n if isinstance(n, SymInt) else SymInt(core.toint(n))
        return SymSeq([(n >> 16) & 255, (n >> 8) & 255, n & 255], "bytes")
    return bytes([(n >> 16) & 255, (n >> 8) & 255, n & 255])


def cat(ctx, parts):
    if H.sym(ctx):
        out = SymSeq([], "bytes")
        for p in parts:
            out.extend(p)
        return out
    return b"".join(bytes(p) for p in parts)


def _frames(ctx, k):
    ns = [ctx.int("n%d" % j, 1, (1 << 24) - 1) for j in range(k)]
    payloads = [H.blob(ctx, "P%d" % j, n) for j, n in enumerate(ns)]
    stream = cat(ctx, [x for n, p in zip(ns, payloads) for x in (be24(ctx, n), p)])
    return ns, payloads, stream


def _cuts(ctx, total, m, lo=1):
    """m-1 strictly increasing cut positions in (0, total)"""
    cuts = []
    prev = 0
    for i in range(m - 1):
        c = ctx.int("c%d" % i)
        ctx.assume(c > prev)
        ctx.assume(c < total)
        cuts.append(c)
        prev = c
    return [0] + cuts + [total]


def _buffer_len(layer):
    b = getattr(layer, "_read_buffer", None)
    return None if b is None else H.length_of(b)


BETWEEN = ("nothing", "connect request while connected", "authenticated", "an event nobody knows")


def _between_chunks(ctx, layer, i):
    """what may happen between two reads without touching the byte stream: time passes (any amount), events travel through the stack"""
    CLOCK[0].now = CLOCK[0].now + ctx.int("pause%d" % i, 0, 10 ** 7)
    what = ctx.choice("between%d" % i, list(BETWEEN))
    if what != "nothing":
        from yowsup.layers import YowLayerEvent
        from yowsup.layers.network import YowNetworkLayer
        from yowsup.layers.auth import YowAuthenticationProtocolLayer
        name = {"connect request while connected": YowNetworkLayer.EVENT_STATE_CONNECT, "authenticated": YowAuthenticationProtocolLayer.EVENT_AUTHED,
                "an event nobody knows": "org.example.event"}[what]
        layer.onEvent(YowLayerEvent(name))


def h_stream(ctx, k, m, reuse=False, env=False):
    """reuse: the caller reads into ONE bytearray that it clears and refills for every read (a dispatcher with a receive buffer),
    so whatever the layer keeps must be its own copy"""
    layer, up, down = _layer(True)
    ns, payloads, stream = _frames(ctx, k)
    total = H.length_of(stream)
    bounds = _cuts(ctx, total, m)
    rest = stream
    buf = SymSeq([], "bytearray") if H.sym(ctx) else bytearray()
    for i in range(m):
        ln = bounds[i + 1] - bounds[i]
        chunk, rest = rest[:ln], rest[ln:]
        if env and i:
            _between_chunks(ctx, layer, i)
        if reuse:
            if H.sym(ctx):
                buf.items[:] = []
            else:
                del buf[:]
            buf.extend(chunk)
            layer.receive(buf)
        else:
            layer.receive(chunk)
    obs = [("count==%d" % k, len(up) == k), ("nothing-sent-down", len(down) == 0)]
    for j in range(min(k, len(up))):
        obs.append(("frame%d-intact" % j, H.rope_eq(up[j], payloads[j])))
        obs.append(("frame%d-is-bytes" % j, _is_bytes(up[j])))
    bl = _buffer_len(layer)
    if bl is not None:
        obs.append(("buffer-empty-at-end", core.eq(bl, 0)))
    return obs


class ConsumerFault(Exception):
    pass


def h_consumer_fault(ctx, k, m):
    """the layer above fails while it handles one of the frames (solver's choice): the frames handed upward, over the whole stream, are
    still exactly the frames the peer sent -- each at most once, in order, and every frame after the failed hand-over exactly once"""
    layer, up, down = _layer(True)
    ns, payloads, stream = _frames(ctx, k)
    total = H.length_of(stream)
    bounds = _cuts(ctx, total, m)
    fail_at = ctx.choice("failing_delivery", list(range(k)))
    seen = []

    def consumer(frame):
        seen.append(frame)
        if len(seen) - 1 == fail_at:
            raise ConsumerFault("upper layer failed on delivery %d" % fail_at)
    layer.toUpper = consumer
    rest = stream
    raised = 0
    for i in range(m):
        ln = bounds[i + 1] - bounds[i]
        chunk, rest = rest[:ln], rest[ln:]
        try:
            layer.receive(chunk)
        except ConsumerFault:
            raised += 1
    # one more (empty-handed) call cannot exist: the network layer only calls with data; a later chunk is what flushes
    obs = [("the consumer's failure is reported once", raised == 1 or len(seen) <= fail_at)]
    obs.append(("no frame is handed upward twice and none is invented (%d deliveries for %d frames)" % (len(seen), k), len(seen) <= k))
    for j in range(min(k, len(seen))):
        obs.append(("delivery %d is frame %d, intact" % (j, j), H.rope_eq(seen[j], payloads[j])))
    return obs


def h_reentrant(ctx, k, m):
    """the layer above reads on: while it handles one of the frames (solver's choice) the next read arrives and is pushed into the layer
    from inside the hand-over (an application that reconnects or pumps the socket from a callback): the frames handed upward are
    still exactly the frames of the stream, each once, in order"""
    layer, up, down = _layer(True)
    ns, payloads, stream = _frames(ctx, k)
    total = H.length_of(stream)
    bounds = _cuts(ctx, total, m)
    at = ctx.choice("delivery_during_which_the_next_reads_arrive", list(range(k)))
    how_many = ctx.choice("reads_pushed_from_inside", ["one", "all pending"])
    chunks, rest = [], stream
    for i in range(m):
        ln = bounds[i + 1] - bounds[i]
        chunks.append(rest[:ln])
        rest = rest[ln:]
    fed = [0]
    seen = []

    def consumer(frame):
        seen.append(frame)
        if len(seen) - 1 == at:
            n = 1 if how_many == "one" else m
            while n > 0 and fed[0] < m:
                c = chunks[fed[0]]
                fed[0] += 1
                n -= 1
                layer.receive(c)
    layer.toUpper = consumer
    while fed[0] < m:
        c = chunks[fed[0]]
        fed[0] += 1
        layer.receive(c)
    obs = [("every frame is handed upward exactly once (%d deliveries for %d frames)" % (len(seen), k), len(seen) == k)]
    for j in range(min(k, len(seen))):
        obs.append(("delivery %d is frame %d, intact" % (j, j), H.rope_eq(seen[j], payloads[j])))
    return obs


def _is_bytes(x):
    if isinstance(x, SymSeq):
        return x.kind == "bytes"
    return type(x) is bytes


def h_step(ctx, whole):
    """inductive step: arbitrary proper prefix of a pending frame is in the layer; one chunk brings the rest
    of it, `whole` further complete frames and a proper prefix (possibly empty) of the next one."""
    layer, up, down = _layer(True)
    k = 1 + whole + 1
    ns, payloads, stream = _frames(ctx, k)
    fresh = dict(layer.__dict__)
    p = ctx.int("prefix0", 0)                      # bytes of frame 0 already received: 0 <= p < 3 + n0
    ctx.assume(p < ns[0] + 3)
    q = ctx.int("prefix_last", 0)                  # bytes of the last frame arriving in this chunk: 0 <= q < 3 + n_last
    ctx.assume(q < ns[-1] + 3)
    A, rest = stream[:p], stream[p:]
    layer.receive(A)
    obs = [("prefix-delivers-nothing", len(up) == 0)]
    changed = [a for a in layer.__dict__ if a not in ("toUpper", "toLower") and layer.__dict__[a] is not fresh.get(a)]
    obs.append(("state-is-one-buffer", len(changed) <= 1))
    end_b = sum(ns[:-1]) + 3 * (k - 1) + q - p
    B, rest = rest[:end_b], rest[end_b:]
    depths = []

    def deliver(frame):
        up.append(frame)
        depths.append(_depth())
    layer.toUpper = deliver
    layer.receive(B)
    layer.toUpper = up.append
    obs.append(("step-delivers-%d" % (k - 1), len(up) == k - 1))
    # the call stack is state too: the step only extends to streams of any length if handing up frame j+1 does not
    # happen deeper in the stack than handing up frame j
    obs.append(("every frame of one read is handed up at the same call depth (%s)" % depths, len(set(depths)) <= 1))
    for j in range(min(k - 1, len(up))):
        obs.append(("frame%d-intact" % j, H.rope_eq(up[j], payloads[j])))
    bl = _buffer_len(layer)
    if bl is not None:
        obs.append(("invariant-restored(buffer==prefix of next)", core.eq(bl, q)))
    layer.receive(rest)
    obs.append(("completion-delivers-last", len(up) == k))
    if len(up) == k:
        obs.append(("last-intact", H.rope_eq(up[-1], payloads[-1])))
    return obs


def _depth():
    import sys
    f, n = sys._getframe(1), 0
    while f is not None:
        f, n = f.f_back, n + 1
    return n


def h_coalesced(ctx, count):
    """`count` minimal frames (1 payload byte each, unconstrained) arrive in ONE read: all are handed up, in order"""
    layer, up, down = _layer(True)
    payload = H.blob(ctx, "P", count)
    if H.sym(ctx):
        stream = SymSeq([], "bytes")
        for j in range(count):
            stream.extend(b"\x00\x00\x01")
            stream.extend(payload[j:j + 1])
    else:
        stream = b"".join(b"\x00\x00\x01" + bytes(payload[j:j + 1]) for j in range(count))
    layer.receive(stream)
    obs = [("count==%d (got %d)" % (count, len(up)), len(up) == count)]
    for j in (0, 1, count // 2, count - 2, count - 1):
        if j < len(up):
            obs.append(("frame%d-intact" % j, H.rope_eq(up[j], payload[j:j + 1])))
    bl = _buffer_len(layer)
    if bl is not None:
        obs.append(("buffer-empty-at-end", core.eq(bl, 0)))
    return obs


def h_send(ctx, enabled):
    layer, up, down = _layer(enabled)
    L = ctx.int("L", 0, (1 << 25))
    data = H.blob(ctx, "D", L)
    try:
        layer.send(data)
    except ValueError:
        return [("refused-only-if-too-large", core.eq(L >= (1 << 24), True)), ("nothing-written-on-refusal", len(down) == 0)]
    written = cat(ctx, down)
    expect = cat(ctx, [be24(ctx, L), data]) if enabled else cat(ctx, [data])
    return [("accepted-only-if-fits", core.eq(L < (1 << 24), True)),
            ("wire==be24(len)+payload" if enabled else "wire==payload", H.rope_eq(written, expect)),
            ("nothing-sent-up", len(up) == 0)]


def h_passthrough(ctx):
    layer, up, down = _layer(False)
    L = ctx.int("L", 0, 1 << 20)
    data = H.blob(ctx, "D", L)
    layer.receive(data)
    return [("disabled-passes-through", len(up) == 1 and H.rope_eq(up[0], data) is not False and True),
            ("same-bytes", H.rope_eq(up[0], data) if up else False)]


def cases(tier):
    km = [(1, 1), (1, 2), (1, 3), (2, 2), (2, 3), (3, 3)] if tier == "quick" else \
         [(1, 1), (1, 2), (1, 3), (1, 4), (2, 2), (2, 3), (2, 4), (3, 3), (3, 4), (3, 5), (4, 4), (4, 5)]
    cs = []
    for k, m in km:
        cs.append(dict(name="stream[k=%d,m=%d]" % (k, m), fn=h_stream, args=(k, m), weight=(k + 1) ** m,
                       timeout_s=120 if tier == "quick" else 2400, max_paths=200000))
    for k, m in ((1, 2), (2, 2)) if tier == "quick" else ((1, 2), (2, 2), (2, 3), (3, 3)):
        cs.append(dict(name="stream[k=%d,m=%d,time passing and events between the reads]" % (k, m), fn=h_stream, args=(k, m, False, True), weight=4 * (k + 1) ** m,
                       timeout_s=120 if tier == "quick" else 2400, max_paths=200000))
    for k, m in ((1, 2), (2, 2), (2, 3)) if tier == "quick" else ((1, 2), (2, 2), (2, 3), (3, 3), (3, 4)):
        cs.append(dict(name="stream[k=%d,m=%d,caller reuses its read buffer]" % (k, m), fn=h_stream, args=(k, m, True), weight=(k + 1) ** m,
                       timeout_s=120 if tier == "quick" else 2400, max_paths=200000))
    for k, m in ((2, 1), (2, 2), (3, 2)) if tier == "quick" else ((2, 1), (2, 2), (3, 2), (3, 3), (4, 2)):
        cs.append(dict(name="consumer-fault[k=%d,m=%d]" % (k, m), fn=h_consumer_fault, args=(k, m), weight=(k + 1) ** m, timeout_s=120 if tier == "quick" else 2400, max_paths=200000))
    for k, m in ((2, 2), (3, 2)) if tier == "quick" else ((2, 2), (3, 2), (3, 3), (4, 3)):
        cs.append(dict(name="reads-pushed-from-inside-a-delivery[k=%d,m=%d]" % (k, m), fn=h_reentrant, args=(k, m), weight=2 * (k + 1) ** m, timeout_s=300 if tier == "quick" else 2400, max_paths=200000))
    for w in (0, 1, 2):
        cs.append(dict(name="step[whole=%d]" % w, fn=h_step, args=(w,), weight=30 * (w + 1), timeout_s=120 if tier == "quick" else 1200))
    for n in (1100,) if tier == "quick" else (1100, 4000):
        cs.append(dict(name="coalesced[%d minimal frames in one read]" % n, fn=h_coalesced, args=(n,), weight=50, timeout_s=1200))
    cs.append(dict(name="send[enabled]", fn=h_send, args=(True,)))
    cs.append(dict(name="send[disabled]", fn=h_send, args=(False,)))
    cs.append(dict(name="receive[disabled]", fn=h_passthrough))
    return cs
