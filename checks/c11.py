"""C11 -- concurrent senders never corrupt the encrypted stream.

Interleavings are solver variables.  On every run the per-sender event traces (lock acquire/release of every layer,
cipher-nonce reads and writes, segment-queue put/get, socket writes) are EXTRACTED from the real default stack
(real consonance transport, real dissononce CipherState, recording dispatcher) by driving each kind of sender once;
the traces are instantiated for 2-3 threads x up to 2 stanzas and encoded as a partial order over integer time stamps
(program order, lock exclusion, FIFO queue, nonce read/write semantics).  z3 is asked for a schedule in which a foreign
write falls between a length header and its payload, the wire order differs from the nonce order, or two frames share a
nonce.  unsat = the property holds for every interleaving of those threads.  A sat schedule is replayed with real
threads gated at the recorded points and a strict in-order peer decrypting the socket bytes."""
import os
import threading
import z3
from sx import core, hooks, harness as H
from checks import stanza_common as SC, stack_common as ST

PROPERTY = "C11"
LEVEL = "model_checking"
CODE = ["yowsup/layers/__init__.py:YowLayer.toLower (lock held while the lower layer runs)", "yowsup/layers/noise/layer.py:send/_handle_stream_event/receive/_flush_incoming_buffer", "yowsup/layers/protocol_iq/layer.py:recvIq", "yowsup/layers/noise/layer_noise_segments.py:send",
        "yowsup/layers/coder/layer.py:send/write", "yowsup/layers/logger/layer.py", "yowsup/layers/protocol_iq/layer.py:sendIq", "yowsup/layers/interface/interface.py:send",
        "consonance.transport.WANoiseTransport.send + dissononce CipherState.encrypt_with_ad (real, traced)"]
BOUNDS = {"quick": "[+ lock order: receiving thread + 1..2 senders x 1..2 stanzas, every combination of per-thread cut points] [+ 7 iq entity kinds between two other stanzas] " 
                   "[+ socket-wire: network histories len<=6 after up+send with sends accepting all/half/nothing; second stack login pre-empted after k<=29 lines x 3 senders] " 
                   "[+ senders (4 selections) in the window between a reported close and its event, then reconnect; login with edge routing info (3 values)] " 
                   "2 threads x 2 stanzas and 3 threads x 1 stanza (application via the top layer, keep-alive via the iq layer, second application thread, senders at the coder layer); all interleavings of the extracted events; "
                   "races: 2 senders x 1 stanza, every shared written container, <=5 access positions of one sender x first access of the other per operation; 3 kinds of refused send before 2 concurrent senders; a peer drop followed by senders before the new handshake; frames of 64 KiB..3 MiB",
          "thorough": "up to 3 threads x 3 stanzas and 4 threads x 2 stanzas; lock order: receiver + 3 senders x 2 stanzas, receiver + 2 senders x 3 stanzas"}
OUTSIDE = ["the handshake thread (C04, not applicable)", "received stanzas other than a server ping (the reply path of other handlers)", "locks outside yowsup.layers and the noise layer module (consonance, queue internals)", "atomicity below the traced events (single byte-code operations inside consonance/dissononce under the GIL)",
           "shared state other than list/dict/bytearray/set objects touched by yowsup's own code on the send path (attribute rebinding, state inside consonance/dissononce beyond nonce and queue)",
           "more threads / stanzas than the bound"]
ASSUMPTIONS = ["control flow of a send is data independent (re-checked on each run by extracting every trace twice with different payloads)",
               "a thread switch can happen between any two traced events and nowhere else"]
EXPLANATION = "trace extraction from the real stack + z3 partial-order encoding of all interleavings; sat schedules replayed with gated real threads"


# ---- instrumented real stack ---------------------------------------------------------------------------------------------------
class Tracer(object):
    def __init__(self):
        self.events = []              # (thread name, kind, arg)
        self.gate = None              # optional scheduler: callable(thread name, index) blocking until it is this event's turn
        self.counts = {}
        self.phase = "build"
        self.nlocks = 0
        self.locks = []
        self.abort = False            # set after a replay was judged: threads still waiting for a lock give up

    def ev(self, kind, arg=None):
        t = threading.current_thread().name
        i = self.counts.get(t, 0)
        self.counts[t] = i + 1
        if self.gate is not None:
            self.gate(t, i)
        self.events.append((t, kind, arg))

    def held_now(self):
        t = threading.current_thread().name
        held = set()
        for (tn, k, a) in self.events:
            if tn == t and k == "acq":
                held.add(a)
            elif tn == t and k == "rel":
                held.discard(a)
        return held

    def new_lock(self, real, reentrant=False):
        self.nlocks += 1
        l = TLock("lock#%d" % self.nlocks, self, real, reentrant)
        self.locks.append(l)
        return l


class FakeThreading(object):
    """stands for the `threading` module inside yowsup.layers: every Lock() the layers create (at construction or lazily) is traced"""

    def __init__(self, tr, real):
        self._tr, self._real = tr, real

    def Lock(self):
        return self._tr.new_lock(self._real)

    def RLock(self):
        return self._tr.new_lock(self._real, reentrant=True)

    def __getattr__(self, n):
        return getattr(threading, n)


class TLock(object):
    """a traced lock; a re-entrant one reports its outermost acquire/release only"""

    def __init__(self, name, tr, real, reentrant=False):
        self.name, self.tr, self.real, self.reentrant = name, tr, real, reentrant
        self.l = (threading.RLock() if reentrant else threading.Lock()) if real else None
        self.held = False
        self.owner, self.depth = None, 0
        self.private = False
        if tr.phase == "send":
            # a lock created WHILE a stanza is being sent (lazy creation): if no pre-existing lock is held at that moment two
            # threads racing on first use each get their own object -> such a lock excludes nobody (worst case, see encode())
            shared_held = [h for h in tr.held_now() if h not in set(l.name for l in tr.locks if l.private)]
            self.private = not shared_held
            tr.ev("create", name)

    def _real_acquire(self):
        while not self.l.acquire(timeout=0.2):
            if self.tr.abort:
                raise RuntimeError("gave up waiting for %s after the replay was judged" % self.name)

    def acquire(self, *a, **k):
        me = threading.get_ident()
        if self.reentrant and self.owner == me:
            self.depth += 1
            if self.real:
                self.l.acquire()
            return True
        self.tr.ev("acq", self.name)
        if self.real:
            self._real_acquire()
        else:
            if self.held:
                raise RuntimeError("lock %s is acquired while it is still held (single-threaded extraction): a later sender would block for ever" % self.name)
        self.held = True
        self.owner, self.depth = me, 1
        return True

    def release(self):
        if self.reentrant and self.depth > 1:
            self.depth -= 1
            if self.real:
                self.l.release()
            return
        self.held = False
        self.owner, self.depth = None, 0
        if self.real:
            self.l.release()
        self.tr.ev("rel", self.name)

    def __enter__(self):
        self.acquire()
        return self

    def __exit__(self, *a):
        self.release()
        return False


def build(tr, real_locks):
    from yowsup.stacks.yowstack import YowStack, YowStackBuilder
    from yowsup.layers import YowLayer
    from yowsup.layers.noise.layer_noise_segments import YowNoiseSegmentsLayer
    from yowsup.layers.protocol_iq import YowIqProtocolLayer
    from yowsup.layers.interface import YowInterfaceLayer
    from consonance.transport import WANoiseTransport
    from dissononce.processing.impl.cipherstate import CipherState
    from dissononce.cipher.aesgcm import AESGCMCipher

    class RecCS(CipherState):
        """real CipherState whose nonce accesses are traced"""

        @property
        def _nonce(self):
            tr.ev("nonce_read")
            return self.__dict__["n"]

        @_nonce.setter
        def _nonce(self, v):
            if self.__dict__.get("armed"):
                tr.ev("nonce_write")
            self.__dict__["n"] = v

    class Disp(object):
        def __init__(self):
            self.out = []

        fail = None

        def sendData(self, d):
            if self.fail is not None:
                raise self.fail
            tr.ev("write", len(d))
            self.out.append(bytes(d))

    import yowsup.layers as LM
    import yowsup.layers.noise.layer as NL
    LM.threading = FakeThreading(tr, real_locks)
    NL.threading = LM.threading          # the lock the noise layer holds while it delivers received stanzas
    layers = YowStackBuilder.getDefaultLayers() + (YowInterfaceLayer,)
    st = YowStack(layers, reversed=False)
    insts = [st.getLayer(i) for i in range(len(layers))]
    for i, l in enumerate(insts):
        if isinstance(getattr(l, "lock", None), TLock):
            l.lock.name = "%d:%s" % (i, type(l).__name__)
        for attr, v in sorted(vars(l).items()):
            if isinstance(v, TLock) and attr != "lock":
                v.name = "%d:%s.%s" % (i, type(l).__name__, attr)
    net, seg, noise = insts[0], insts[1], insts[2]
    disp = Disp()
    net._dispatcher, net.connected, net.state = disp, True, net.STATE_CONNECTED
    key = bytes(range(32))
    send_cs, recv_cs = RecCS(AESGCMCipher()), CipherState(AESGCMCipher())
    send_cs.initialize_key(key)
    send_cs.__dict__["armed"] = True
    proto = noise._wa_noiseprotocol
    proto._machine.set_state("transport")
    proto._last_triggered_state = "transport"      # the state callback ran when the handshake finished, not at the first stanza
    proto._transport = WANoiseTransport(noise._stream, send_cs, recv_cs)
    noise._stream.set_events_callback(noise._handle_stream_event)
    q = noise._stream._writequeue
    oput, oget = q.put, q.get

    def put(x, *a, **k):
        tr.ev("q_put")
        return oput(x, *a, **k)

    def get(*a, **k):
        tr.ev("q_get")
        return oget(*a, **k)
    q.put, q.get = put, get
    st.setProp(YowNoiseSegmentsLayer.PROP_ENABLED, True)
    st.setProp(YowIqProtocolLayer.PROP_PING_INTERVAL, 0)
    st.setProp("profile", ST.StubProfile())
    mgr = ST.ManagerStub(True)
    ST.wire_manager(st, mgr)
    iq = [s for s in insts[-2].sublayers if type(s).__name__ == "YowIqProtocolLayer"][0]
    tr.phase = "send"
    return st, insts, disp, iq, key


def do_send(kind, insts, iq, variant=0):
    """one stanza sent by a sender of the given kind"""
    from yowsup.layers.protocol_presence.protocolentities import PresenceProtocolEntity
    from yowsup.layers.protocol_iq.protocolentities import PingIqProtocolEntity
    from yowsup.layers.protocol_chatstate.protocolentities import OutgoingChatstateProtocolEntity
    if kind == "app":
        insts[-1].send(PresenceProtocolEntity("available", "name-%d" % variant if variant else None))
    elif kind == "app2":
        insts[-1].send(OutgoingChatstateProtocolEntity("composing" if variant % 2 == 0 else "paused", "4915900000%03d@s.whatsapp.net" % variant))
    elif kind == "keepalive":
        iq.sendIq(PingIqProtocolEntity())
    elif kind == "receiver":
        # the receiving thread: an encrypted ping of the server arrives at the noise layer, is delivered upwards and answered by the
        # iq layer -- the pong is a stanza sent from inside the delivery, with whatever the receive path holds at that moment
        from yowsup.structs import ProtocolTreeNode
        from yowsup.layers.coder.encoder import WriteEncoder
        from yowsup.layers.coder.tokendictionary import TokenDictionary
        from dissononce.processing.impl.cipherstate import CipherState
        from dissononce.cipher.aesgcm import AESGCMCipher
        noise = insts[2]
        if not hasattr(noise, "_verif_peer"):
            noise._verif_peer = CipherState(AESGCMCipher())
            noise._verif_peer.initialize_key(bytes(range(32)))
            noise._wa_noiseprotocol._transport._recv_cipherstate.initialize_key(bytes(range(32)))
        node = ProtocolTreeNode("iq", {"type": "get", "xmlns": "urn:xmpp:ping", "id": "srv-ping-%d" % variant, "from": "s.whatsapp.net"})
        plain = WriteEncoder(TokenDictionary()).protocolTreeNodeToBytes(node)
        noise.receive(bytes(noise._verif_peer.encrypt_with_ad(b"", bytes(plain))))
    elif kind in ("coder", "coder2"):
        # a sender that hands stanzas to the coder layer itself (a stack without the protocol layers above it, as the property's
        # "through coder, noise, segment and network layers"): no upper layer's lock serialises such senders
        if kind == "coder":
            node = PresenceProtocolEntity("available", "direct-%d" % variant if variant else None).toProtocolTreeNode()
        else:
            node = OutgoingChatstateProtocolEntity("composing" if variant % 2 == 0 else "paused", "4915900000%03d@s.whatsapp.net" % variant).toProtocolTreeNode()
        insts[3].send(node)


def extract(kind):
    """traces of the FIRST and of a LATER send of this kind on a fresh stack: lists of (event kind, arg); extracted twice with
    different payloads (data independence).  Returns (first, later, independent, names of private locks)"""
    runs = []
    for variant in (0, 7):
        tr = Tracer()
        st, insts, disp, iq, key = build(tr, False)
        do_send(kind, insts, iq, variant)
        n1 = len(tr.events)
        do_send(kind, insts, iq, variant + 1)
        norm = lambda evs: [(k, a if k != "write" else ("hdr" if a == 3 else "payload")) for (_t, k, a) in evs]
        runs.append((norm(tr.events[:n1]), norm(tr.events[n1:]), set(l.name for l in tr.locks if l.private)))
    return runs[0][0], runs[0][1], runs[0][:2] == runs[1][:2], runs[0][2]


# ---- encoding -------------------------------------------------------------------------------------------------------------------
def encode(ctx, threads):
    """threads: list of (name, [op trace, ...]).  Returns (constraints, violation formula, event table)"""
    T = {}            # (thread idx, op idx, event idx) -> z3 Int
    evs = []
    cons = []
    for ti, (name, ops) in enumerate(threads):
        prev = None
        for oi, trace in enumerate(ops):
            for ei, (k, a) in enumerate(trace):
                v = ctx.int("t_%d_%d_%d" % (ti, oi, ei)).t if H.sym(ctx) else None
                T[(ti, oi, ei)] = v
                evs.append((ti, oi, ei, k, a))
                if prev is not None:
                    cons.append(prev < v)
                prev = v
    n = len(evs)
    allv = [T[(ti, oi, ei)] for (ti, oi, ei, k, a) in evs]
    cons.append(z3.Distinct(allv))
    cons += [z3.And(v >= 0, v < n) for v in allv]
    # locks: critical sections on the same lock never overlap
    sections = {}
    for (ti, oi, ei, k, a) in evs:
        if k == "acq":
            # matching release: next rel of the same lock in the same op
            for (tj, oj, ej, k2, a2) in evs:
                if tj == ti and oj == oi and ej > ei and k2 == "rel" and a2 == a:
                    sections.setdefault(a, []).append((T[(ti, oi, ei)], T[(tj, oj, ej)], ti, oi))
                    break
    for lock, secs in sections.items():
        for i in range(len(secs)):
            for j in range(i + 1, len(secs)):
                a0, r0, t0, _ = secs[i]
                a1, r1, t1, _ = secs[j]
                if t0 == t1:
                    continue          # same thread: ordered by program order
                cons.append(z3.Or(r0 < a1, r1 < a0))
    # lazily created private locks: the race is only real if every creator passed its "not yet created" test before another
    # creator's lock became visible, i.e. the step BEFORE each creation precedes every other creation of the same lock
    creates = {}
    for (ti, oi, ei, k, a) in evs:
        if k == "create" and "@T" in str(a):
            creates.setdefault(str(a).split("@T")[0], []).append((ti, oi, ei))
    for base, cl in creates.items():
        for (ti, oi, ei) in cl:
            for (tj, oj, ej) in cl:
                if ti != tj and ei > 0:
                    cons.append(T[(ti, oi, ei - 1)] < T[(tj, oj, ej)])
    ops = [(ti, oi) for ti, (name, tops) in enumerate(threads) for oi in range(len(tops))]

    def ev_of(ti, oi, kind, nth=0, arg=None):
        c = 0
        for (tj, oj, ej, k, a) in evs:
            if tj == ti and oj == oi and k == kind and (arg is None or a == arg):
                if c == nth:
                    return T[(tj, oj, ej)]
                c += 1
        return None
    # nonce: value seen by a read = value of the latest earlier write (0 if none); a write stores (its op's 2nd read) + 1
    reads = {(o, r): ev_of(o[0], o[1], "nonce_read", r) for o in ops for r in (0, 1)}
    writes = {o: ev_of(o[0], o[1], "nonce_write") for o in ops}
    val_r = {k: z3.Int("nv_%d_%d_%d" % (k[0][0], k[0][1], k[1])) for k in reads}
    val_w = {o: val_r[(o, 1)] + 1 for o in ops}
    for k, tr_ in reads.items():
        alts = [z3.And(z3.And([tw > tr_ for tw in writes.values()]), val_r[k] == 0)]
        for o, tw in writes.items():
            alts.append(z3.And(tw < tr_, z3.And([z3.Or(tw2 < tw, tw2 > tr_) for o2, tw2 in writes.items() if o2 != o]), val_r[k] == val_w[o]))
        cons.append(z3.Or(alts))
    nonce_of_seg = {o: val_r[(o, 0)] for o in ops}       # the segment an op encrypts carries the nonce of its first read
    # queue: FIFO; get_k returns the oldest element not yet taken: encode by a matching m(o) = index of the op whose put it takes
    puts = {o: ev_of(o[0], o[1], "q_put") for o in ops}
    gets = {o: ev_of(o[0], o[1], "q_get") for o in ops}
    idx = {o: i for i, o in enumerate(ops)}
    m = {o: z3.Int("m_%d_%d" % o) for o in ops}
    cons.append(z3.Distinct(list(m.values())))
    for o in ops:
        cons.append(z3.And(m[o] >= 0, m[o] < len(ops)))
        for p in ops:
            # taking p's segment requires it to be in the queue; FIFO: every segment put before p's was taken before this get
            cons.append(z3.Implies(m[o] == idx[p], z3.And(puts[p] < gets[o],
                                                          z3.And([z3.Implies(puts[p2] < puts[p], z3.Or([z3.And(m[o2] == idx[p2], gets[o2] < gets[o]) for o2 in ops if o2 != o]))
                                                                  for p2 in ops if p2 != p]))))
    nonce_sent = {o: z3.Int("ns_%d_%d" % o) for o in ops}      # nonce of the frame op o writes to the socket
    for o in ops:
        for p in ops:
            cons.append(z3.Implies(m[o] == idx[p], nonce_sent[o] == nonce_of_seg[p]))
    hdr = {o: ev_of(o[0], o[1], "write", 0, "hdr") for o in ops}
    pay = {o: ev_of(o[0], o[1], "write", 0, "payload") for o in ops}
    bad = []
    for o in ops:
        for o2 in ops:
            if o2 == o:
                continue
            for w in (hdr[o2], pay[o2]):
                bad.append(z3.And(hdr[o] < w, w < pay[o]))                       # foreign write between header and payload
            bad.append(z3.And(hdr[o] < hdr[o2], nonce_sent[o] >= nonce_sent[o2]))   # wire order vs nonce order / duplicate nonce
    return cons, z3.Or(bad), evs, T


def _threads(kinds, n_ops):
    """every thread's first stanza may be the first use of the stack (first-send trace), the following ones use the later-send trace;
    locks created lazily without holding a pre-existing lock are private to the creating thread"""
    out = []
    ok = True
    for i, k in enumerate(kinds):
        first, later, indep, private = extract(k)
        ok = ok and indep

        def ren(trace, i=i, private=private):
            return [(kk, ("%s@T%d" % (a, i)) if (kk in ("acq", "rel", "create") and a in private) else a) for (kk, a) in trace]
        out.append(("T%d:%s" % (i, k), [ren(first)] + [ren(later)] * (n_ops - 1)))
    return out, ok


def h_schedules(ctx, kinds, n_ops):
    if H.sym(ctx):
        threads, indep = _threads(kinds, n_ops)
        ctx.note("trace of one %s send: %s" % (kinds[0], threads[0][1][0]))
        cons, bad, evs, T = encode(ctx, threads)
        for c in cons:
            ctx.assume(c)
        ctx.note("later send: %s" % (threads[0][1][-1],))
        shape_ok = all(sum(1 for e in t[1][0] if e[0] == "write") == 2 and sum(1 for e in t[1][0] if e[0] == "nonce_write") == 1 and
                       sum(1 for e in t[1][0] if e[0] == "q_put") == 1 for t in threads)
        return [("extracted traces are data independent", indep), ("each send = 1 encryption, 1 queue hand-over, header+payload write", shape_ok),
                ("no interleaving corrupts the stream (header/payload adjacency, nonce order == wire order, no nonce reuse)", z3.Not(bad))]
    return replay_schedule(ctx, kinds, n_ops)


def replay_schedule(ctx, kinds, n_ops, lines=None):
    """run the solver's schedule with real threads gated at the traced events; a strict in-order peer decrypts the socket bytes
    (with `lines`: shared-state accesses are gate points too and the peer also decodes and compares the stanzas)"""
    if lines is None:
        threads, indep = _threads(kinds, n_ops)
    else:
        threads, indep = exact_threads(kinds, n_ops, lines), True
    order = []
    for ti, (name, ops) in enumerate(threads):
        k = 0
        for oi, trace in enumerate(ops):
            for ei in range(len(trace)):
                key = "t_%d_%d_%d" % (ti, oi, ei)
                order.append((ctx.values.get(key, 0), name, k))
                k += 1
    order.sort()
    tr = Tracer()
    st, insts, disp, iq, key = build(tr, True)
    handed = []
    if lines is not None:
        coder = insts[3]
        orig_send = coder.send

        def rec_send(node):
            handed.append(node)
            return orig_send(node)
        coder.send = rec_send
        threading.settrace(line_tracer(tr, lines))
    cond = threading.Condition()
    pos = [0]
    dead = [False]
    waiting = [0]
    live = [len(kinds)]

    def gate(tname, i):
        with cond:
            waiting[0] += 1
            cond.notify_all()
            # an event is released only when it is its turn AND every other live sender is parked at a gate (quiescence): what runs
            # between two gates of one thread is then never concurrent with another thread
            while not dead[0] and not (pos[0] < len(order) and order[pos[0]][1] == tname and order[pos[0]][2] == i and waiting[0] >= live[0]):
                if not cond.wait(timeout=5):
                    dead[0] = True       # schedule not realisable (e.g. blocked on a lock): fall through
                    cond.notify_all()
            waiting[0] -= 1
            pos[0] += 1
            cond.notify_all()
    tr.gate = gate
    errs = []

    def run(kind, n, variant):
        try:
            for j in range(n):
                do_send(kind, insts, iq, variant + j)
        except Exception as e:
            errs.append(e)
        finally:
            with cond:
                live[0] -= 1
                cond.notify_all()
    ths = [threading.Thread(target=run, name="T%d:%s" % (i, k), args=(k, n_ops, 10 * i)) for i, k in enumerate(kinds)]
    for t in ths:
        t.daemon = True
        t.start()
    for t in ths:
        t.join(30)
    if lines is not None:
        threading.settrace(None)
    # strict in-order peer
    from dissononce.processing.impl.cipherstate import CipherState
    from dissononce.cipher.aesgcm import AESGCMCipher
    peer = CipherState(AESGCMCipher())
    peer.initialize_key(key)
    stream = b"".join(disp.out)
    plains = []
    frames, ok, i = 0, True, 0
    try:
        while i < len(stream):
            n = int.from_bytes(stream[i:i + 3], "big")
            ct = stream[i + 3:i + 3 + n]
            if len(ct) != n:
                ok = False
                break
            pt = peer.decrypt_with_ad(b"", ct)
            plains.append(bytes(pt))
            frames += 1
            i += 3 + n
    except Exception:
        ok = False
    total = len(kinds) * n_ops
    if lines is not None:
        from yowsup.layers.coder.decoder import ReadDecoder
        from yowsup.layers.coder.tokendictionary import TokenDictionary
        left = list(handed)
        bad = []
        for pt in plains:
            try:
                node = ReadDecoder(TokenDictionary()).getProtocolTreeNode(bytearray(pt))
            except Exception as e:
                bad.append("undecodable plaintext (%s)" % type(e).__name__)
                continue
            hit = [x for x in left if SC.strict_eq(x, node)]
            if hit:
                left.remove(hit[0])
            else:
                bad.append("a stanza nobody sent (or sent once, received twice): <%s>" % node.tag)
        if dead[0] and not bad and not errs:
            return [("schedule not realisable with real threads (nothing to judge)", True)]
        ctx.note("%d sent, %d frames; %s; not received: %s" % (len(handed), frames, bad[:2], [x.tag for x in left][:3]))
        return [("every stanza handed to the coder layer reaches the peer exactly once, unchanged", ok and not bad and not left and not errs and len(handed) == total)]
    return [("extracted traces are data independent", indep),
            ("no interleaving corrupts the stream (header/payload adjacency, nonce order == wire order, no nonce reuse)", ok and frames == total and not errs and not dead[0] or (dead[0] and ok))]


# ---- lock order: the receiving thread answers from inside its delivery while other threads send --------------------------------------
def _flat(threads):
    return [[e for op in ops for e in op] for (_n, ops) in threads]


def encode_deadlock(ctx, threads):
    """a reachable state in which every thread has either finished or is about to acquire a lock another thread holds.
    cut_i = number of events thread i has executed; the executed prefixes must be schedulable under lock exclusion"""
    flat = _flat(threads)
    cons, T, cut = [], {}, []
    for ti, evs in enumerate(flat):
        c = ctx.int("cut_%d" % ti).t
        cut.append(c)
        cons.append(z3.And(c >= 0, c <= len(evs)))
        prev = None
        for ei in range(len(evs)):
            v = ctx.int("d_%d_%d" % (ti, ei)).t
            T[(ti, ei)] = v
            if prev is not None:
                cons.append(prev < v)
            prev = v
    allv = list(T.values())
    cons.append(z3.Distinct(allv))
    cons += [z3.And(v >= 0, v < len(allv)) for v in allv]
    sections = {}                      # lock -> [(thread, index of the acquire, index of the matching release)]
    for ti, evs in enumerate(flat):
        for ei, (k, a) in enumerate(evs):
            if k == "acq":
                rel = [ej for ej in range(ei + 1, len(evs)) if evs[ej] == ("rel", a)]
                sections.setdefault(a, []).append((ti, ei, rel[0] if rel else len(evs)))
    done = lambda ti, ei: cut[ti] > ei           # the event was executed
    for lock, secs in sections.items():
        for i in range(len(secs)):
            for j in range(i + 1, len(secs)):
                (t0, a0, r0), (t1, a1, r1) = secs[i], secs[j]
                if t0 == t1:
                    continue
                first0 = z3.And(done(t0, r0), T[(t0, r0)] < T[(t1, a1)]) if r0 < len(flat[t0]) else z3.BoolVal(False)
                first1 = z3.And(done(t1, r1), T[(t1, r1)] < T[(t0, a0)]) if r1 < len(flat[t1]) else z3.BoolVal(False)
                cons.append(z3.Implies(z3.And(done(t0, a0), done(t1, a1)), z3.Or(first0, first1)))
    blocked, finished = [], []
    for ti, evs in enumerate(flat):
        alts = []
        for ei, (k, a) in enumerate(evs):
            if k != "acq":
                continue
            holders = [z3.And(done(tj, aj), z3.Not(done(tj, rj)) if rj < len(flat[tj]) else z3.BoolVal(True))
                       for (tj, aj, rj) in sections.get(a, []) if tj != ti]
            if holders:
                alts.append(z3.And(cut[ti] == ei, z3.Or(holders)))
        blocked.append(z3.Or(alts) if alts else z3.BoolVal(False))
        finished.append(cut[ti] == len(evs))
    stuck = z3.And(z3.And([z3.Or(b, f) for b, f in zip(blocked, finished)]), z3.Or(blocked))
    return cons, stuck


def h_lock_order(ctx, kinds, n_ops):
    import yowsup.layers as LM
    import yowsup.layers.noise.layer as NL
    try:
        if H.sym(ctx):
            threads, indep = _threads(kinds, n_ops)
            cons, stuck = encode_deadlock(ctx, threads)
            for c in cons:
                ctx.assume(c)
            rtr = [t for (n, ops) in threads if n.endswith(":receiver") for t in ops]
            ctx.note("trace of the receiving thread: %s" % (rtr[:1],))
            answered = all(sum(1 for e in t if e[0] == "write") == 2 for t in rtr)
            return [("extracted traces are data independent", indep),
                    ("the received ping is answered from inside the delivery (header+payload written by the receiving thread)", answered),
                    ("no reachable state in which every unfinished thread waits for a lock that another waiting or finished thread holds "
                     "(receive path and send paths take their locks in compatible orders)", z3.Not(stuck))]
        return replay_lock_order(ctx, kinds, n_ops)
    finally:
        LM.threading = threading
        NL.threading = threading


def replay_lock_order(ctx, kinds, n_ops):
    """real threads on the real stack: the executed prefixes in the solver's order, then everybody runs freely; judged by who finishes"""
    threads, indep = _threads(kinds, n_ops)
    flat = _flat(threads)
    cuts = [min(max(int(ctx.values.get("cut_%d" % ti, len(evs))), 0), len(evs)) for ti, evs in enumerate(flat)]
    order = sorted((ctx.values.get("d_%d_%d" % (ti, ei), 0), threads[ti][0], ei) for ti in range(len(flat)) for ei in range(cuts[ti]))
    cutof = {threads[ti][0]: cuts[ti] for ti in range(len(flat))}
    tr = Tracer()
    st, insts, disp, iq, key = build(tr, True)
    cond = threading.Condition()
    pos, dead = [0], [False]

    def gate(tname, i):
        with cond:
            if i >= cutof.get(tname, 0):
                # beyond this thread's prefix: runs freely once every prefix is in place
                while not dead[0] and pos[0] < len(order):
                    if not cond.wait(timeout=5):
                        dead[0] = True
                        cond.notify_all()
                return
            while not dead[0] and not (pos[0] < len(order) and order[pos[0]][1] == tname and order[pos[0]][2] == i):
                if not cond.wait(timeout=5):
                    dead[0] = True
                    cond.notify_all()
            pos[0] += 1
            cond.notify_all()
    tr.gate = gate
    errs, finished = [], []

    def run(kind, n, variant):
        try:
            for j in range(n):
                do_send(kind, insts, iq, variant + j)
            finished.append(threading.current_thread().name)
        except Exception as e:
            errs.append(e)
    ths = [threading.Thread(target=run, name="T%d:%s" % (i, k), args=(k, n_ops, 10 * i)) for i, k in enumerate(kinds)]
    for t in ths:
        t.daemon = True
        t.start()
    import time
    end = time.time() + 12
    for t in ths:
        t.join(max(0.1, end - time.time()))
    alive = [t.name for t in ths if t.is_alive()]
    frames = _count_frames(disp, key)
    tr.abort = True                    # whoever still waits for a lock gives up now
    with cond:
        dead[0] = True
        cond.notify_all()
    for t in ths:
        t.join(5)
    tr.gate = None
    total = len(kinds) * n_ops
    ctx.note("finished %s, still waiting after 12 s: %s, frames on the wire %d of %d" % (finished, alive, frames, total))
    if dead[0] and not alive and pos[0] < len(order) and frames == total and not errs:
        return [("schedule not realisable with real threads (nothing to judge)", True)]
    return [("extracted traces are data independent", indep),
            ("no reachable state in which every unfinished thread waits for a lock that another waiting or finished thread holds "
             "(receive path and send paths take their locks in compatible orders)", not alive and not errs and frames == total)]


def _count_frames(disp, key):
    from dissononce.processing.impl.cipherstate import CipherState
    from dissononce.cipher.aesgcm import AESGCMCipher
    peer = CipherState(AESGCMCipher())
    peer.initialize_key(key)
    stream, i, frames = b"".join(disp.out), 0, 0
    try:
        while i < len(stream):
            n = int.from_bytes(stream[i:i + 3], "big")
            ct = stream[i + 3:i + 3 + n]
            if len(ct) != n:
                break
            peer.decrypt_with_ad(b"", ct)
            frames += 1
            i += 3 + n
    except Exception:
        pass
    return frames


# ---- data races on state shared by the senders ------------------------------------------------------------------------------------------
def _repo():
    return os.path.realpath((os.environ.get("YOWSUP_REPO") or "/repo"))


def discover_shared_lines(kinds):
    """source lines of the send path that access a container object which outlives a send (symbolic mode: the instrumented code reports
    every container access).  -> {(file, line): (object label, "r"|"w")}"""
    seen = {}            # id -> [object (kept alive: ids stay unique), set of send indices, {(file, line): rw}]
    cur = [0]

    def obs(obj, rw, frame):
        e = seen.setdefault(id(obj), [obj, set(), {}])
        e[1].add(cur[0])
        k = (os.path.realpath(frame.f_code.co_filename), frame.f_lineno)
        e[2][k] = "w" if rw == "w" or e[2].get(k) == "w" else "r"
    tr = Tracer()
    st, insts, disp, iq, key = build(tr, False)
    hooks.ACCESS_OBSERVER = obs
    try:
        for k in sorted(set(kinds)):
            for v in (0, 1):
                cur[0] += 1
                do_send(k, insts, iq, v)
    finally:
        hooks.ACCESS_OBSERVER = None
    lines = {}
    label = 0
    for oid, (obj, sends, where) in sorted(seen.items(), key=lambda kv: sorted(kv[1][2])[0] if kv[1][2] else ("", 0)):
        if len(sends) < 2 or not any(rw == "w" for rw in where.values()):
            continue              # created and dropped within one send, or never written: cannot be raced on
        label += 1
        for k, rw in where.items():
            lines[k] = ("obj%d:%s" % (label, type(obj).__name__), rw)
    return lines


def line_tracer(tr, lines):
    files = set(f for f, _ in lines)

    def local(frame, event, arg):
        if event == "line":
            k = (os.path.realpath(frame.f_code.co_filename), frame.f_lineno)
            if k in lines:
                tr.ev("acc", lines[k])
        return local

    def glob(frame, event, arg):
        return local if os.path.realpath(frame.f_code.co_filename) in files else None
    return glob


def exact_threads(kinds, n_ops, lines):
    """per-thread traces of exactly the stanzas the replay sends (variant 10*i+j), with the shared-state accesses as events"""
    import sys
    out = []
    for i, k in enumerate(kinds):
        tr = Tracer()
        st, insts, disp, iq, key = build(tr, False)
        ops = []
        old = sys.gettrace()
        sys.settrace(line_tracer(tr, lines))
        try:
            for j in range(n_ops):
                n0 = len(tr.events)
                do_send(k, insts, iq, 10 * i + j)
                ops.append([(kk, a if kk != "write" else ("hdr" if a == 3 else "payload")) for (_t, kk, a) in tr.events[n0:]])
        finally:
            sys.settrace(old)
        private = set(l.name for l in tr.locks if l.private)
        ops = [[(kk, ("%s@T%d" % (a, i)) if (kk in ("acq", "rel", "create") and a in private) else a) for (kk, a) in t] for t in ops]
        out.append(("T%d:%s" % (i, k), ops))
    return out


def h_races(ctx, kinds, n_ops):
    """for every pair of accesses to one shared container from two different senders, at least one of them a write, that NO lock orders
    (the solver finds a schedule in which they are adjacent), that schedule is executed with real threads: the peer must still receive
    exactly the stanzas that were sent.  Unordered accesses that do no harm (a dict insert under the interpreter lock) pass."""
    if H.sym(ctx):
        lines = discover_shared_lines(kinds)
        ctx.vars["race_lines"] = ("const", None, [[os.path.relpath(f, _repo()), l, lab, rw] for (f, l), (lab, rw) in sorted(lines.items())])
        threads = exact_threads(kinds, n_ops, lines)
        cons, bad, evs, T = encode(ctx, threads)
        for c in cons:
            ctx.assume(c)
        pairs = []
        by = {}
        for (ti, oi, ei, k, a) in evs:
            if k == "acc":
                by.setdefault(a[0], {}).setdefault(ti, []).append((oi, ei, a[1]))
        for lab, per in sorted(by.items()):
            for ti in sorted(per):
                for tj in sorted(per):
                    if ti == tj:
                        continue
                    A = per[ti]
                    picks = sorted(set([0, len(A) // 3, len(A) // 2, (2 * len(A)) // 3, len(A) - 1]))
                    firsts = {}
                    for (oj, ej, rw) in per[tj]:
                        firsts.setdefault(oj, (oj, ej, rw))
                    for p in picks:
                        oi, ei, rwa = A[p]
                        for (oj, ej, rwb) in firsts.values():
                            if "w" in (rwa, rwb):
                                pairs.append((lab, (ti, oi, ei), (tj, oj, ej)))
        ctx.note("%d shared containers, %d candidate access pairs" % (len(by), len(pairs)))
        if not pairs:
            return [("no container outlives a send and is written by the send path: nothing to race on", True)]
        which = ctx.choice("race", list(range(len(pairs))))
        lab, a, b = pairs[which]
        ctx.assume(T[b] == T[a] + 1)
        ctx.note("unordered pair on %s: %s then %s" % (lab, a, b))
        return [("a schedule exists in which two senders touch %s back to back without a common lock (its effect is judged on the real threads)" % lab, True)]
    lines = {(os.path.join(_repo(), f), l): (lab, rw) for f, l, lab, rw in ctx.values.get("race_lines", [])}
    return replay_schedule(ctx, kinds, n_ops, lines)


# ---- concurrent senders after a send that was refused -------------------------------------------------------------------------------
FAILS = ("stanza-with-unencodable-value", "frame-too-large", "socket-write-error")


def _failed_send(kind, insts, disp):
    """one send that fails below the sender; returns the exception (None if it did not fail)"""
    from yowsup.layers.protocol_presence.protocolentities import PresenceProtocolEntity
    try:
        if kind == "stanza-with-unencodable-value":
            insts[-1].send(PresenceProtocolEntity(_type=12345))
        elif kind == "frame-too-large":
            insts[3].toLower(bytes(1 << 24))
        elif kind == "socket-write-error":
            disp.fail = OSError(32, "Broken pipe")
            try:
                do_send("app", insts, None, 99)
            finally:
                disp.fail = None
    except Exception as e:
        return e
    return None


def h_after_failure(ctx, kinds):
    """a send is refused (the caller gets the error), then the senders run concurrently: every stanza must still get out"""
    fail = ctx.choice("failed_send", list(FAILS))
    if H.sym(ctx):
        tr = Tracer()
        st, insts, disp, iq, key = build(tr, False)
        err = _failed_send(fail, insts, disp)
        held = sorted(l.name for l in tr.locks if l.held)
        return [("the refused send reports its error", err is not None),
                ("no lock of the send path stays held after the refused send, so concurrent senders are not blocked for ever (held: %s)" % held, not held)]
    tr = Tracer()
    st, insts, disp, iq, key = build(tr, True)
    err = _failed_send(fail, insts, disp)
    n0 = len(disp.out)
    done = []

    def run(kind, variant):
        do_send(kind, insts, iq, variant)
        done.append(kind)
    ths = [threading.Thread(target=run, args=(k, 20 + i)) for i, k in enumerate(kinds)]
    for t in ths:
        t.daemon = True
        t.start()
    for t in ths:
        t.join(10)
    stream = b"".join(disp.out[n0:])
    frames, i = 0, 0
    while i + 3 <= len(stream):
        n = int.from_bytes(stream[i:i + 3], "big")
        i += 3 + n
        frames += 1
    return [("the refused send reports its error", err is not None),
            ("no lock of the send path stays held after the refused send, so concurrent senders are not blocked for ever (held: %d of %d senders finished, %d frames on the wire)"
             % (len(done), len(kinds), frames), len(done) == len(kinds) and frames == len(kinds))]


def h_after_peer_drop(ctx, kinds):
    """the peer drops the connection; the socket is connected again but the new handshake has not begun: a sender that runs now must not
    get anything onto the new connection under the previous session's cipher state (it is refused, or its stanza is dropped)"""
    from checks import c16
    tr = Tracer()
    st, insts, disp, iq, key = build(tr, False)
    net = insts[0]
    do_send("app", insts, iq, 1)                       # the session is in use
    n_before = len(disp.out)
    net.onDisconnected()                               # peer closed
    c16.run_loop(st)
    net.connected, net.state = True, net.STATE_CONNECTED      # TCP connected again; login (handshake) not started yet
    n0 = len(disp.out)
    refused = 0
    for i, k in enumerate(kinds):
        try:
            do_send(k, insts, iq, 30 + i)
        except Exception:
            refused += 1
    return [("the session was in use before the drop", n_before >= 2),
            ("after the peer dropped the connection nothing is written to the new connection with the old session (%d chunks written, %d sends refused)"
             % (len(disp.out) - n0, refused), len(disp.out) == n0)]


def h_send_in_close_window(ctx, kinds):
    """the dispatcher has reported the close (the network layer is disconnected) but the detached DISCONNECTED event has not been delivered
    yet: senders run in that window; then the event is delivered and the socket is connected again.  What the handshake writes first on the
    new connection must be the first thing on the wire -- nothing encrypted for the dead session may have been left waiting to go out"""
    from checks import c16
    tr = Tracer()
    st, insts, disp, iq, key = build(tr, False)
    net, noise = insts[0], insts[2]
    do_send("app", insts, iq, 1)
    n_before = len(disp.out)
    net.onDisconnected()
    refused = 0
    kinds = ctx.choice("senders_in_window", [kinds, kinds[:1], kinds[1:], ("app2", "app", "keepalive")])
    for i, k in enumerate(kinds):
        try:
            do_send(k, insts, iq, 40 + i)
        except Exception:
            refused += 1
    in_window = len(disp.out) - n_before
    c16.run_loop(st)
    net.connected, net.state = True, net.STATE_CONNECTED
    n0 = len(disp.out)
    hello = b"client-hello"
    noise._stream.write_segment(hello)                 # what the handshake worker does first (consonance writes through the layer's stream)
    new = b"".join(disp.out[n0:])
    want = len(hello).to_bytes(3, "big") + hello
    return [("nothing is written to a connection the dispatcher has reported closed (%d chunks)" % in_window, in_window == 0),
            ("the first bytes on the new connection are the handshake's first frame, not a frame of the dead session (%d bytes written, %d expected, %d sends refused)"
             % (len(new), len(want), refused), new == want)]


def h_second_stack_logs_in(ctx):
    """two stacks in one process, both built the default way (two accounts, or a fresh stack next to the old one): stack B logs in -- its
    noise layer switches ITS framing off for the prologue and back on -- on one thread, pre-empted after k of its lines inside the noise
    layer (solver's choice), while a sender uses logged-in stack A on another thread.  A's socket bytes stay whole frames that the strict
    peer cuts and decrypts"""
    import sys
    from checks import c16, preempt
    from dissononce.processing.impl.cipherstate import CipherState
    from dissononce.cipher.aesgcm import AESGCMCipher
    tr = Tracer()
    st, insts, disp, iq, key = build(tr, True)
    stB, wB, netB, dispB, appB, iqB, iqmodB = c16.build(True, True)
    k = ctx.choice("login_preempted_after_lines", list(range(0, 30)))
    sender = ctx.choice("sender", ["app", "keepalive", "coder"])
    appB.connect()

    def login():
        dispB.state = "up"
        netB.onConnected()
        c16.run_loop(stB)

    def send():
        do_send(sender, insts, iq, 7)
    fname = sys.modules[type(insts[2]).__module__].__file__
    r = preempt.run_preempted(login, send, fname, k)
    peer = CipherState(AESGCMCipher())
    peer.initialize_key(key)
    stream = b"".join(disp.out)
    frames, ok, i = 0, True, 0
    try:
        while i < len(stream):
            n = int.from_bytes(stream[i:i + 3], "big")
            ct = stream[i + 3:i + 3 + n]
            if len(ct) != n:
                ok = False
                break
            peer.decrypt_with_ad(b"", ct)
            frames += 1
            i += 3 + n
    except Exception:
        ok = False
    return [("both threads return (stuck %s, errors %s)" % (r["stuck"], {i_: repr(e)[:80] for i_, e in r["errors"].items()}), not r["stuck"] and not r["errors"]),
            ("stack A's socket bytes are whole frames the peer decrypts although stack B logs in meanwhile (%d frame(s), %d bytes)" % (frames, len(stream)), ok and frames == 1)]


def h_each_once(ctx):
    """'each stanza sent is transmitted exactly once': entities of the kinds that several sibling protocol layers could feel responsible for
    (iq stanzas by namespace) are sent from the top, one after the other; the strict peer cuts, decrypts and decodes the socket bytes and
    finds exactly one frame per entity, in order"""
    from dissononce.processing.impl.cipherstate import CipherState
    from dissononce.cipher.aesgcm import AESGCMCipher
    from yowsup.layers.coder.decoder import ReadDecoder
    from yowsup.layers.coder.tokendictionary import TokenDictionary
    from checks import c09_templates as T
    tr = Tracer()
    st, insts, disp, iq, key = build(tr, False)
    c = T._cls
    which = ctx.choice("entity", ["contact sync", "clean dirty", "last seen", "push config", "props", "group list", "ping"])
    ent = {"contact sync": lambda: c("protocol_contacts.protocolentities.iq_sync_get.GetSyncIqProtocolEntity")(["4915901234567"]),
           "clean dirty": lambda: c("protocol_ib.protocolentities.clean_iq.CleanIqProtocolEntity")("groups", "s.whatsapp.net"),
           "last seen": lambda: c("protocol_presence.protocolentities.iq_lastseen.LastseenIqProtocolEntity")("4915901234567@s.whatsapp.net"),
           "push config": lambda: c("protocol_iq.protocolentities.iq_push.PushIqProtocolEntity")(),
           "props": lambda: c("protocol_iq.protocolentities.iq_props.PropsIqProtocolEntity")(),
           "group list": lambda: c("protocol_groups.protocolentities.iq_groups_list.ListGroupsIqProtocolEntity")(),
           "ping": lambda: c("protocol_iq.protocolentities.iq_ping.PingIqProtocolEntity")(),
           "presence": lambda: c("protocol_presence.protocolentities.presence_available.AvailablePresenceProtocolEntity")()}[which]()
    do_send("app", insts, iq, 1)
    insts[-1].send(ent)
    do_send("app2", insts, iq, 2)
    peer = CipherState(AESGCMCipher())
    peer.initialize_key(key)
    stream = b"".join(disp.out)
    tags, i, ok = [], 0, True
    try:
        while i < len(stream):
            n = int.from_bytes(stream[i:i + 3], "big")
            pt = peer.decrypt_with_ad(b"", stream[i + 3:i + 3 + n])
            node = ReadDecoder(TokenDictionary()).getProtocolTreeNode(bytearray(pt))
            tags.append((node.tag, node["id"]))
            i += 3 + n
    except Exception:
        ok = False
    want = ent.toProtocolTreeNode()
    mine = [t for t in tags if t[0] == want.tag and t[1] == want["id"]]
    return [("the peer cuts, decrypts and decodes every frame", ok),
            ("three entities were sent: the peer finds exactly three stanzas, the one under test exactly once (%s)" % (tags,), len(tags) == 3 and len(mine) == 1)]


def h_socket_wire(ctx, n):
    """below the network layer: the real asyncore dispatcher over a socket double whose sends accept all, half or nothing of the data
    (back-pressure, solver's choice): the peer of each connection receives what was written to it in order -- a later write never overtakes
    the unsent tail of an earlier one, nothing of an earlier connection leaks into the next"""
    from checks import c16
    obs = c16.h_network(ctx, n, ("connect-request", "connect-completes", "send"))
    return [(l, o) for l, o in obs if "peer of connection" in l or "drains" in l or "nothing was ever written" in l]


def h_login_wire(ctx, second, edge=False):
    """the handshake thread's first write against the thread that starts it, and the first bytes of a later login on the same stack:
    the real noise and segments layers (C16's lifecycle stack), the handshake worker writing its first message as soon as it is started.
    edge: the profile's config carries edge routing info (its length 1..5 and the usual value) -- it goes out as a framed blob before the prologue"""
    from checks import c16
    prefix = ("connect-request", "connected") + (("peer-close", "connect-request", "connected") if second else ())
    if edge:
        c16.EDGE_INFO = ctx.choice("edge_routing_info", [b"\x08\x05\x08\x02", b"\x08", b"\x08\x02\x08\x05\x10"])
    try:
        obs = c16.h_history(ctx, len(prefix), prefix, True)
    finally:
        c16.EDGE_INFO = None
    return [(l, o) for l, o in obs if "on the wire" in l or "nothing was ever written" in l]


def h_big_frames(ctx):
    """stanzas around and above 1 MiB between small ones: the peer (strict, in order) still cuts and decrypts every frame"""
    from yowsup.structs import ProtocolTreeNode
    from dissononce.processing.impl.cipherstate import CipherState
    from dissononce.cipher.aesgcm import AESGCMCipher
    size = ctx.choice("body_size", [65536 + 5, (1 << 20) - 40, (1 << 20) + 4096, 3 * (1 << 20) + 17])
    tr = Tracer()
    st, insts, disp, iq, key = build(tr, False)
    do_send("app", insts, iq, 1)
    insts[3].send(ProtocolTreeNode("message", {"id": "big", "to": "4915900000001@s.whatsapp.net", "type": "media"}, None, H.pattern_bytes("BIG", size)))
    do_send("app2", insts, iq, 2)
    peer = CipherState(AESGCMCipher())
    peer.initialize_key(key)
    stream = b"".join(disp.out)
    frames, ok, i = 0, True, 0
    try:
        while i < len(stream):
            n = int.from_bytes(stream[i:i + 3], "big")
            ct = stream[i + 3:i + 3 + n]
            if len(ct) != n:
                ok = False
                break
            peer.decrypt_with_ad(b"", ct)
            frames += 1
            i += 3 + n
    except Exception:
        ok = False
    return [("every length header is followed by exactly its own payload: the peer decrypts all 3 frames (%d)" % frames, ok and frames == 3)]


def cases(tier):
    cs = [dict(name="after-peer-drop[app+keepalive]", fn=h_after_peer_drop, args=(("app", "keepalive"),)),
          dict(name="big-frames", fn=h_big_frames, keep_samples=8),
          dict(name="each-stanza-once[iq kinds through the parallel protocol layers]", fn=h_each_once, keep_samples=10),
          dict(name="second-stack-logs-in[one pre-emption]", fn=h_second_stack_logs_in, keep_samples=40),
          dict(name="socket-wire[asyncore dispatcher under back-pressure,len<=6]", fn=h_socket_wire, args=(6,), max_paths=200000, timeout_s=900, weight=30),
          dict(name="send-in-close-window[app+keepalive]", fn=h_send_in_close_window, args=(("app", "keepalive"),)),
          dict(name="login-wire[first login]", fn=h_login_wire, args=(False,)), dict(name="login-wire[second login on the same stack]", fn=h_login_wire, args=(True,)),
          dict(name="login-wire[first login, edge routing info configured]", fn=h_login_wire, args=(False, True)),
          dict(name="after-refused-send[app+keepalive]", fn=h_after_failure, args=(("app", "keepalive"),)),
          dict(name="races[app+app2,1 send]", fn=h_races, args=(("app", "app2"), 1), timeout_s=900, weight=20, keep_samples=64),
          dict(name="races[coder+coder2,1 send]", fn=h_races, args=(("coder", "coder2"), 1), timeout_s=900, weight=20, keep_samples=64),
          dict(name="threads[coder+coder2,2 sends]", fn=h_schedules, args=(("coder", "coder2"), 2), timeout_s=900, weight=10),
          dict(name="races[app+keepalive,1 send]", fn=h_races, args=(("app", "keepalive"), 1), timeout_s=900, weight=20, keep_samples=64),
          dict(name="threads[app+keepalive,2 sends]", fn=h_schedules, args=(("app", "keepalive"), 2), timeout_s=900, weight=10),
          dict(name="threads[app+app2,2 sends]", fn=h_schedules, args=(("app", "app2"), 2), timeout_s=900, weight=10),
          dict(name="threads[app+keepalive+app2,1 send]", fn=h_schedules, args=(("app", "keepalive", "app2"), 1), timeout_s=900, weight=10),
          dict(name="lock-order[receiver+app,2 stanzas]", fn=h_lock_order, args=(("receiver", "app"), 2), timeout_s=900, weight=10),
          dict(name="lock-order[receiver+keepalive+app,1 stanza]", fn=h_lock_order, args=(("receiver", "keepalive", "app"), 1), timeout_s=900, weight=10),
          dict(name="threads[receiver+app,1 stanza]", fn=h_schedules, args=(("receiver", "app"), 1), timeout_s=900, weight=10)]
    if tier != "quick":
        cs.append(dict(name="lock-order[receiver+keepalive+app+app2,2 stanzas]", fn=h_lock_order, args=(("receiver", "keepalive", "app", "app2"), 2), timeout_s=1800, weight=40))
        cs.append(dict(name="lock-order[receiver+coder+app,3 stanzas]", fn=h_lock_order, args=(("receiver", "coder", "app"), 3), timeout_s=1800, weight=40))
        cs.append(dict(name="threads[receiver+app+keepalive,2 stanzas]", fn=h_schedules, args=(("receiver", "app", "keepalive"), 2), timeout_s=3400, weight=100))
        cs.append(dict(name="races[coder+coder2,2 sends]", fn=h_races, args=(("coder", "coder2"), 2), timeout_s=1800, weight=40, keep_samples=128))
        cs.append(dict(name="races[coder+coder2+app,1 send]", fn=h_races, args=(("coder", "coder2", "app"), 1), timeout_s=1800, weight=40, keep_samples=128))
        cs.append(dict(name="races[app+keepalive+app2,1 send]", fn=h_races, args=(("app", "keepalive", "app2"), 1), timeout_s=1800, weight=40, keep_samples=128))
        cs.append(dict(name="threads[coder+coder2+app,2 sends]", fn=h_schedules, args=(("coder", "coder2", "app"), 2), timeout_s=3400, weight=100))
        cs.append(dict(name="threads[app+keepalive+app2,2 sends]", fn=h_schedules, args=(("app", "keepalive", "app2"), 2), timeout_s=3400, weight=100))
        cs.append(dict(name="threads[app+keepalive,3 sends]", fn=h_schedules, args=(("app", "keepalive"), 3), timeout_s=3400, weight=100))
        cs.append(dict(name="threads[app+keepalive+app2+app,1 send]", fn=h_schedules, args=(("app", "keepalive", "app2", "app"), 1), timeout_s=3400, weight=100))
        cs.append(dict(name="threads[app+keepalive+app2,3 sends]", fn=h_schedules, args=(("app", "keepalive", "app2"), 3), timeout_s=3400, weight=300, query_timeout_ms=1500000))
        cs.append(dict(name="threads[app+keepalive+app2+app,2 sends]", fn=h_schedules, args=(("app", "keepalive", "app2", "app"), 2), timeout_s=3400, weight=300, query_timeout_ms=1500000))
    return cs
