#!/usr/bin/env python3
"""regenerates MANIFEST.json from the table below (single source of truth for the check registry)"""
import json, os
V = os.path.dirname(os.path.dirname(os.path.abspath(__file__)))
ALL = ["C%02d" % i for i in range(1, 21)]
CHECKS = {
 "C01": dict(cat="model_checking", design="4/C01",
    text="Bounded symbolic execution of the real WriteEncoder/ReadDecoder/YowCoderLayer: payload length L in [0,2^24) at four tree positions, one unconstrained Latin-1 string per tree (tag, attribute key/value, data, JID user/server) of n<=3 (quick) / n<=5 (thorough) characters covering every code point combination, digit/nibble/hex strings of every packing length, every dictionary token via a symbolic index, list sizes across the 8/16-bit boundary and the integer read/write kernels over their full ranges. z3 discharges tree equality on every path; each path's model is replayed on the uninstrumented codec including the library's own __eq__.",
    note="Trusted: sx engine models (selftest-validated against CPython and the repo's own tests), z3. Payload bytes abstract. Unconstrained strings longer than the bound and several unconstrained slots at once are outside the claim.",
    technique="symbolic execution of the instrumented Python codec with z3 (LIA, div/mod lowering of bit operations), concrete replay of every model"),
 "C02": dict(cat="model_checking", design="4/C02",
    text="Differential symbolic execution of the library codec against ref/wabinary.py (independent encoder with explicit choice vector + decoder, frozen dictionary copy): every dictionary index both ways; ref_decode(lib_encode(t)) == t on the C01 families; lib_decode(ref_encode(t, choices)) == t for list16 / 20- and 31-bit length / literal / unpacked / no-JID / string-valued content choices; deflate checked with real zlib on every path witness. Also JID-valued node content with arbitrary Latin-1 user characters.",
    note="Trusted: the reference implementation and its frozen dictionary copy (extracted once from the pinned commit; no network), engine models, z3. zlib is not encoded (concrete on witnesses).",
    technique="differential symbolic execution (library vs independent reference) with z3, concrete replay of every model"),
 "C06": dict(cat="model_checking", design="4/C06",
    text="Every incoming stanza kind of the catalogue (fixtures + templates, fields unconstrained z3 strings/integers) is injected below the really assembled layer set; exactly one entity must reach the top and serialise back to the stanza, or nothing when the owning optional module is off; an unconstrained-tag/type/xmlns stanza is never delivered twice. Every sendable entity kind (built with symbolic fields) is sent from the top; exactly one equal stanza must leave at the bottom, messages as exactly one encrypted envelope without plaintext child. Module selections all/none/single-off (quick), all 16 x with/without encryption layers (thorough). While the stanza arrives one layer (solver's choice) has a request outstanding under an id that the stanza's symbolic id may equal: it must stay untouched. Retry receipts for unknown messages are part of the catalogue. Encrypted incoming messages (one or two envelopes) under the ideal manager; answers that arrive while the request is still travelling down.",
    note="Trusted: engine string model, ideal manager stub, template catalogue with realistic discriminators. iq replies are C08's subject, envelope contents C03's.",
    technique="symbolic execution of the assembled protocol + encryption layers with z3 string variables; concrete replay of every model"),
 "C07": dict(cat="model_checking", design="4/C07",
    text="One incoming stanza with solver-variable fields (id, from, participant, notify, t as unconstrained strings/integers; notification type unconstrained or each documented kind with its documented body; call kinds; ping id; concrete protobuf payloads of every unsupported kind, unknown mediatype as unconstrained string) is injected below the really assembled layer set (3 encryption layers with an ideal manager stub + all protocol layers of the selected modules). z3 decides on every path: exactly one ack/receipt/pong with equal id, class, type, to and participant. A second ping with an unconstrained id is answered as well. The stack is assembled by the library's builder for the module selection.",
    note="Trusted: engine string model, manager stub (only reached by encrypt notifications). One stanza per run; module selections all/none/single-off (quick), all 16 with and without encryption layers (thorough).",
    technique="symbolic execution of the assembled protocol layers with z3 string variables; concrete replay of every model"),
 "C08": dict(cat="model_checking", design="4/C08",
    text="Real YowInterfaceLayer on top of the assembled encryption + protocol layers. step: one outstanding request of each of 16 kinds (ping, last seen, picture, statuses, privacy, group operations, contact sync, media upload), a reply whose id is an unconstrained z3 string and whose type is result/error, delivered twice: success/error callback exactly once iff id matches, with the original request, replay invokes nothing. history: 2 (thorough 3) outstanding requests of solver-chosen kinds x 3 (4) deliveries to solver-chosen targets (incl. unknown ids) in any order. internal: key upload and key fetch registries of the encryption layers. nonreply: with an application request and the library's key upload outstanding, a receipt/ack/notification with an unconstrained id (possibly an outstanding id) runs no callback, is delivered as an ordinary stanza, and the genuine replies still work afterwards. sync-reply: the reply is delivered while the requesting thread is still inside its send. Both documented forms of the media-upload answer. Two stacks in one process (reply on the other connection); an error reply to the library's success-only group-info request; a server ping with an outstanding id.",
    note="Trusted: engine string model, manager stub, reply bodies of documented shape. Reply types other than result/error and histories beyond the bound are outside.",
    technique="symbolic execution of the request registries in the assembled stack (z3 string reply id, solver-chosen histories); concrete replay of every model"),
 "C10": dict(cat="model_checking", design="4/C10",
    text="The real AttributesConverter runs symbolically on attribute objects of all 11 content kinds (text, extended text, image, video, audio, document, sticker, location, contact, sender-key distribution, revoke) whose set fields are unconstrained z3 strings (incl. empty), integers over the protobuf range (incl. 0), reals and opaque byte blobs of symbolic length, with quoted/mentioning context nested to depth 2 (thorough 3); optional-field families all/none/each single (thorough: pairs). protobuf messages are a stub generated from the real DESCRIPTORs; z3 proves every field the sender set comes back equal and that a parsed payload re-serialises to the same modelled fields. Every model is replayed through real protobuf bytes; the stub is compared with the real runtime on each run. peer cases: a payload as a peer client sends it (independent reference mapping ref/e2e_ref.py, validated against the pinned converter) is parsed and re-serialised without losing a present field or changing a value; content together with a sender-key distribution; entities whose content changes after a first serialisation. The context info as composed (handed to the constructors) is compared with what comes back; context sub-families on all media kinds; two messages composed in one process (in-place mention, then a fresh message).",
    note="Trusted: proto2 stub (differentially validated), z3; protobuf's wire codec is only exercised concretely. Field subsets beyond the families rely on fields being mapped independently.",
    technique="symbolic execution of the hand-written field mapping with a descriptor-generated protobuf stub (z3 strings/ints/reals); concrete replay through real protobuf"),
 "C11": dict(cat="model_checking", design="4/C11",
    text="Per-sender event traces (acquire/release of every layer lock, cipher nonce reads/writes of the real dissononce CipherState, segment-queue put/get of the real consonance stream, socket writes) are extracted on every run from the real default stack in transport state; they are instantiated for 2 threads x 2 stanzas and 3 threads x 1 stanza (thorough 3 x 2; application via the top layer, keep-alive via the iq layer, second application thread) and encoded as a partial order over integer time stamps (program order, lock exclusion, FIFO queue, nonce semantics). z3 proves (unsat) that no interleaving puts a foreign write between a header and its payload, reorders frames against their nonces or reuses a nonce. A sat schedule is replayed with real threads gated at the traced points and a strict in-order peer decrypting the socket bytes. races: container objects that outlive a send and are written on the send path are found through the instrumented code's access reports; for every pair of accesses from two senders with at least one write z3 is asked for a schedule in which they are adjacent (no common lock); each such schedule runs with real threads gated at lock/queue/nonce/write events and at the accessing source lines, and the peer must decode exactly the stanzas handed to the coder layer. Senders entering at the coder layer itself are included; after a refused send the concurrent senders must all get through. after-peer-drop (nothing is written under the previous session once the peer closed), frames of 64 KiB .. 3 MiB against the strict peer. login-wire: first bytes of a first and of a second login on one stack (real segments + noise layers, handshake worker writing as soon as it is started).",
    note="Trusted: thread switches only between traced events (GIL-level atomicity below them), data-independent control flow of a send (re-checked per run). Handshake thread and deadlock-freedom are outside.",
    technique="trace extraction from the real code + SMT partial-order encoding of all interleavings (z3 LIA) incl. adjacency queries for unordered shared-container accesses; gated-thread replay of solver schedules against a decrypting and decoding peer"),
 "C12": dict(cat="fault_enumeration", design="4/C12",
    text="The real default stack (all core, encryption and protocol layers + application layer) with recording non-blocking locks on every YowLayer.lock and the noise flush lock. The solver enumerates failure kind (unencodable value, >=16 MiB frame with symbolic length, no transport session, undecodable frame, handler-rejected stanza, raising application callback) x position in a sequence of 3 (thorough 4) operations x follow-up (send / incoming frame / both); after the failure: error reached the caller, no lock held, every later operation completes. Also: socket write errors, a sender interrupted (KeyboardInterrupt) inside the network write, and the bytes handed to the socket must remain a sequence of whole frames after a refused frame. Also: the connection found dead by a write (disconnect reported from inside the send, application handler sends), a failing key request for a parked incoming message. A follow-up send only counts if the peer decodes exactly the stanza sent.",
    note="Trusted: Noise transport stub (transparent), manager stub; a lock found held stands for 'any later thread blocks forever' (OS-thread blocking itself is not executed).",
    technique="solver-driven fault enumeration over the real stack (symbolic execution engine, choice variables + symbolic frame length); concrete replay of every model"),
 "C16": dict(cat="model_checking", design="4/C16",
    text="Bounded exploration of connection-event histories on the real lifecycle layers (YowNetworkLayer, authentication + all protocol layers, AxolotlControlLayer, iq layer with the keep-alive thread body run inline, YowInterfaceLayer, YowStack.loop) with dispatcher and Noise/coder doubles. The solver enumerates every history up to length 6 (7 after an establishment prefix; thorough 7/9/10) over connect request, connected, socket error, peer close, late close callback, disconnect request, success, failure, three stream-error kinds, ping tick, pong, x reconnect option; a ghost model of the statement is asserted after every event (one up/one down announcement, one login attempt, authed once, delivery + close on failure/stream error, reconnect iff non-conflict and option on, keep-alive timeout iff a ping is unanswered, no write while down, state agreement). noise-layer histories: the REAL YowNoiseLayer (Noise protocol object and handshake worker replaced by state doubles) with handshake-done / handshake-failed events: one login attempt per connect, transport state reset on every close, no handshake state left over while down. Passive login with unconfirmed prekeys: key upload result ends it with exactly one automatic reconnect, later closes follow the ordinary rule. The real segments layer is part of the noise-layer histories: every login must put the raw prologue and then the handshake's first message as one whole frame on its connection.",
    note="Trusted: dispatcher double reports disconnect() through onDisconnected like the real dispatchers; loop runs after every event; handshake/transport are outside (C04).",
    technique="solver-driven bounded model checking of event histories on the real layers (choice variables decided by z3) against a ghost model; concrete replay"),
 "C17": dict(cat="model_checking", design="4/C17",
    text="Real AxolotlManager, real sqlite stores and real python-axolotl for three parties (me, the contact under identity A, the contact after reinstall under identity B). The solver enumerates every history of <=3 (thorough 4) events over bundle A/B, first message A/B, outgoing message, restart, x auto-trust; a ghost pin is compared after each step with the stored identity, with the trust decision for the other identity and with who can really decrypt what I send (refused change: key unchanged, nothing readable under the new identity; auto-trust: key replaced and messaging resumes; pin survives restart). A layer step checks getKeysFor / send behaviour for an untrusted identity. pin-crash: the identities table on the symbolic SQL engine (symbolic contact ids and keys): the process dies at any statement/commit boundary while a key is (re)saved; the pin is the previous or the new key afterwards, never gone; replayed on real sqlite3. identity-change notification step: the key fetch passes the configured auto-trust option. The auto-trust option may change while the key request is in flight.",
    note="Trusted: python-axolotl ratchets (real, concrete; random padding fixed to 1 byte to stay clear of python-axolotl's block-aligned padding defect), sqlite. Histories beyond the bound are outside.",
    technique="solver-driven bounded model checking of identity-change histories on the real manager/store/ratchets (choice variables decided by z3); concrete replay"),
 "C18": dict(cat="exploration", design="4/C18",
    text="Exhaustive solver-driven enumeration on the real YowStack / YowStackBuilder / YowLayer / YowParallelLayer with recording layers: every stack shape up to depth 4 (thorough 6) with plain layers and parallel groups, class / implicit-tuple / instance declaration, both order conventions; send/receive fan-out and order against a reference model; every emitter x consumer position for emitted and broadcast events, detached (through the real loop()) and normal; getLayerInterface by class; all 16 getDefaultLayers and 64 getDefaultStack argument combinations; builder push/pop sequences. A send refused by one layer (solver's choice) is reported and the next send travels the whole stack again (recording locks).",
    note="Trusted: reference model of the documented semantics (sibling delivery for events emitted inside a group is only required to be at-most-once). Group sizes 2,3 (quick) / 1,2,4 (thorough, deeper stacks 2 only).",
    technique="solver-driven exhaustive enumeration of finite configurations on the real classes (choice variables decided by z3), reference-model oracle, concrete replay"),
 "C13": dict(cat="fault_enumeration", design="4/C13",
    text="Real Lite*Store classes on the real sqlite3 library, one temporary database per path. The solver enumerates per table every sequence of <=2 (thorough 3) API operations over small operand pools (store A / store B = replace / delete / setAsSent ...) and every execute/commit boundary of the last operation as crash point (connection abandoned without commit), then a fresh store reopens the file: every record must hold its previous or its new value, never be missing, and the own identity/registration id is unchanged. A durability harness pushes real python-axolotl records through close/reopen and the public load API. symbolic cases: the same store classes run on sx/symsql.py, an SQL engine with sqlite3's API interpreting the statements the code issues with symbolic cells (validated against real sqlite3 by the self-test on every run): recipient/prekey/sender ids, group ids, record blobs, identity keys and registration id are solver variables, operation sequence and crash boundary solver choices; durable contents against a ghost mapping, read-back through the load API with transparent record classes; every model is replayed on the REAL sqlite3 library. Deaths are either kills or interruptions (the stack unwinds once: finally blocks of the store code run).",
    note="Trusted: sqlite's journal (an uncommitted transaction is rolled back on reopen), crash model = abandonment at statement/commit boundaries; record blobs are opaque tokens in the crash harness (sqlite only stores/compares them).",
    technique="symbolic execution of the real store classes over a symbolic SQL engine (ids, blobs and keys as z3 variables, crash boundary as choice) + solver-driven fault enumeration on real sqlite (process deaths at statement/commit boundaries, refused commits, real child-process deaths at the commit); concrete replay on real sqlite"),
 "C19": dict(cat="model_checking", design="4/C19",
    text="(a) DictKeyValTransform.transform/reverse executed symbolically on values of n<=3 (thorough 4) unconstrained Latin-1 characters under exactly the property's restriction: z3 proves the value survives the key=value text on every path. (b) solver-driven enumeration of ConfigManager.save -> real file -> load over 2 formats x 4 load paths (with/without extension, used profile, never-used profile) x field-subset families x 3 value families with real consonance key objects, compared field by field with byte-identical keys. (c) crash injection at every write boundary of save (open/truncate, write with a solver-chosen persisted prefix, close, rename): the profile must load as the previous or the new configuration. After an injected crash a later save of a shorter configuration must load back intact (leftovers of the crashed save must not leak); os.open/os.fdopen are crash boundaries too. The crash model has user-space buffering (a solver-chosen prefix of unflushed data survives); lone surrogates; ASCII locale. The expectation is the set of written values (not a Config object); present-but-empty values.",
    note="Trusted: json/base64 (real, concrete), file system below open/write/rename (rename atomic, write may persist any prefix), field-subset families instead of all 2^15 subsets (fields are filtered independently).",
    technique="symbolic execution of the key=value codec (z3, symbolic characters) + solver-driven configuration and crash-point enumeration on real files; concrete replay"),
 "C20": dict(cat="model_checking", design="4/C20",
    text="Token: AndroidYowsupEnv.getToken executed with SHA-1 as an uninterpreted incremental hash and the phone an abstract string of symbolic length 0..64: the result term equals b64(SHA1(opad||SHA1(ipad||sig||classes||phone))) built independently. Encoding: WARequest.urlencode/urlencodeParams on symbolic characters over all Unicode code points (UTF-8 length classes), bytes, ints, parameter lists <=3, equal to the independent reference encoder; exhaustive concrete single-code-point sweep with the real urllib. Encryption: encryptParams with X25519/AES-GCM/base64 as uninterpreted terms (DH commutativity): the server side decrypts to exactly the encoded parameter string, fresh ephemeral key per call. Every witness replayed with real hashlib/hmac, cryptography, python-axolotl. Two token requests in one process (digit strings of symbolic characters): the second token is the keyed hash of the second number. Parameter lists with repeated names. Regular expressions in the code under test are executed by the engine's regex model.",
    note="Trusted: models of sha1/X25519/AES-GCM/base64/urllib.quote (quote validated by the sweep); primitives themselves are outside. Strings longer than the bound rest on the encoder being per-character.",
    technique="symbolic execution with hashes/ciphers as uninterpreted functions and characters as z3 integers; differential concrete replay against independent references"),
 "C14": dict(cat="model_checking", design="4/C14",
    text="Kernel: AxolotlControlLayer.adjustId executed on a symbolic id over [0,2^32): z3 proves the bytes are the big-endian value, 3 bytes below 2^24 and 4 above. Histories: real AxolotlControlLayer + real AxolotlManager + real sqlite store + real key generation (batch 3, refill threshold 2) inside the lifecycle stack; the solver enumerates every history of <=6 (7 after a login prefix; thorough 8/9) events over connect, success, server key-count request, upload result, upload error, connection loss, restart; after each step a ghost set of confirmed ids is checked: no confirmed id offered again, unconfirmed ids offered at the next authenticated login, offered ids map to locally stored keys with the stored public key, 3-byte ids / 32-byte keys, identity, registration id and a signed prekey whose signature verifies (real Curve.verifySignature). Keys are identified by id and key material; the contact may consume the oldest or the newest offered key. flush_keys kernel with symbolic key bytes (one-time keys, signed key + signature, identity).",
    note="Trusted: python-axolotl key generation and signature verification (real, concrete), sqlite; small batch constants stand for 812/10. Consumption by an incoming first message is outside (C03/C17).",
    technique="symbolic execution of the id encoding (z3, digit decomposition) + solver-driven bounded model checking of upload histories on the real layer/manager/store; concrete replay"),
 "C15": dict(cat="model_checking", design="4/C15",
    text="Symbolic execution of the real mediacipher module with HKDF / AES-CBC / HMAC as uninterpreted terms (dec(enc(x))=x) and PKCS7 modelled exactly; the plaintext length L is a solver variable (0..80 quick, 0..4096 thorough; contents and key abstract). Obligations: decrypt(encrypt(p)) == p for every L and kind; the ciphertext term equals the independent reference layout (HKDF iv/key/mac key, always-padded CBC, 10-byte MAC over iv+ct); a flip at any symbolic position of ciphertext or tag, truncation, wrong key or wrong kind raises. Every model is replayed with the real cryptography library and compared byte for byte with ref/mediacipher_ref.py (own HKDF); the repository's fixture vector is checked against both. The same obligations for lengths up to 1 MiB (2 MiB thorough).",
    note="Trusted: crypto models (ideal-primitive assumption for tamper detection: different MAC inputs give different MACs), PKCS7 model, z3; the real primitives are only exercised on the solver's witnesses and (thorough) every length 0..80.",
    technique="symbolic execution with cryptographic primitives as uninterpreted functions (z3), symbolic length; concrete differential replay against an independent implementation"),
 "C09": dict(cat="model_checking", design="4/C09",
    text="For every entity class with a documented stanza (57 repository fixtures + hand-written templates for ~45 classes without fixture) the documented stanza becomes a template whose non-discriminator attributes are unconstrained z3 strings / integers (list children 0..3, optional attributes dropped); symbolic execution of fromProtocolTreeNode + toProtocolTreeNode must reproduce the template for all values (classes built from incoming stanzas), and stanzas of sendable classes (built through the constructor with symbolic arguments) must satisfy the codec's typing contract; every path witness also goes through the real encoder/decoder. media-stanza cases: message stanzas of every media kind whose protobuf payload fields are solver variables (built by an independent reference mapping, ref/e2e_ref.py) go through the media layer's dispatch and must be reproduced field by field; registration ids of retry receipts / key results are symbolic over 32 bits (number blobs). Short text leaves as arbitrary bytes (UTF-8 model); outgoing envelopes addressed to one group member keep their addressing. Receipts with 0..3 listed items.",
    note="Trusted: template catalogue (documented shapes, discriminators kept concrete, repeated fields tied, sibling jids distinct), engine string model (z3 Strings), z3. The protobuf payload of message stanzas is opaque here (C10).",
    technique="symbolic execution of each entity class's parser/serialiser on stanza templates with z3 string/integer variables; concrete replay of every model"),
 "C03": dict(cat="model_checking", design="4/C03",
    text="STEP OBLIGATIONS ONLY (the end-to-end clause over real ratchets is not claimed). python-axolotl is replaced at the AxolotlManager boundary by an ideal-functionality stub; the real AxolotlSendLayer / AxolotlReceivelayer / AxolotlControlLayer with the message and media layers on top run symbolically: 1:1 send with/without session, group send with and without sender key (group-info and key requests first), retry-queue bound, every decrypt outcome (ok / duplicate / invalid message / invalid key id / no session / untrusted) x envelope type x payload kind (text, key-distribution only, both), retry receipt -> re-encryption of the queued original. Message body is a blob of symbolic length whose term must not occur in anything sent down outside an envelope term (taint check); ids and JIDs are z3 strings. The real manager's padding code is proved to round-trip for every message and pad length 1..255. Added: retry-loop cases in which the retry request produced by the real receive layer is served by the real send layer (re-encrypted once, for the requester only), and a restart case with the REAL AxolotlManager, sqlite stores and python-axolotl ratchets for two parties (1:1 and group, either party's process dies between messages, deterministic entropy). Payload kinds incl. extended text with a merged sender key; messages with two envelopes (pkmsg+skmsg).",
    note="Trusted / outside: the real Signal ratchets, stores and restarts under whole conversations (NOT claimed); python-axolotl's AESCipher cannot round-trip block-aligned plaintext (1 in 16 randomly padded messages), recorded as an observation about the external library. Received plaintexts are concrete protobuf messages.",
    technique="symbolic execution of the real encryption layers under an ideal-functionality manager stub (z3 strings, symbolic-length ropes, term taint check); concrete replay"),
 "C05": dict(cat="model_checking", design="4/C05",
    text="Bounded symbolic execution of the real YowNoiseSegmentsLayer: frame lengths (1..2^24-1 each), payload contents and every chunk cut position are solver variables; z3 decides each path. Covers all streams of <=3 frames in <=3 chunks (quick) / <=4 frames in <=5 chunks (thorough), an inductive step from an arbitrary buffered prefix, and every outgoing length 0..2^25. Every path's model is replayed on the uninstrumented layer. A consumer that raises on one delivery (solver's choice): no frame is handed up twice or invented.",
    note="Trusted: CPython semantics of everything but the hooked constructs; sx engine models of struct.pack/unpack and bytearray slicing (self-validated); z3. Payload bytes are abstract (the layer only moves them). Longer streams rest on the step harness plus the checked assumption that the layer's only state is its read buffer.",
    technique="symbolic execution of the instrumented Python source with z3 (LIA + ropes with symbolic lengths), concrete replay of every model"),
}
NA = {
 "C04": "Noise handshake joins real X25519/AES-GCM/SHA-256 (FFI, hash loops) with two threads whose control flow depends on queue contents; no schedule-independent trace exists to encode and the crypto cannot be encoded. Its encodable glue is claimed under C05, C11, C12, C16, C19 (DESIGN.md section 5).",
}
# sentences added per round-5 addition (DESIGN.md section 4e)
ROUND5 = {
 "C03": "First group message with sessions to all members but one (stanza addressed to the whole group).",
 "C05": "The call depth at which each frame of one read is handed up is part of the step invariant; 1100 (thorough 4000) minimal frames with unconstrained payload bytes in one read.",
 "C06": "Answers to a group retry request (content merged with a sender-key distribution) among the encrypted incoming payloads.",
 "C08": "The same step cases with an application that declares catch-all handlers per stanza kind.",
 "C09": "The error iq with its optional backoff (any value >= 1).",
 "C10": "Every scalar handed to an attribute constructor is remembered by the harness and is the expectation for the parsed object's getter; peer payloads carry those raw values.",
 "C11": "Senders in the window between the dispatcher's close report and its detached event, then a reconnect (first bytes of the new connection); login with edge routing info configured.",
 "C12": "An incoming segment while the transport session is not ready (refusals repeated without progress = a loop that never returns); the two callers of the delivery loop on two threads with one pre-emption after a solver-chosen number of lines.",
 "C13": "PRAGMA statements are part of the SQL model; the premise of sqlite's crash atomicity (rollback journal or WAL kept on disk) is an obligation on every path, asked of the real connection in the replay.",
 "C14": "A contact may use a key of an upload whose answer never reached the client.",
 "C16": "Further environment events in dedicated cases: connect attempts refused synchronously, connect requests by broadcast event, the application's own pings and late answers to pings of an earlier connection.",
 "C18": "Layers added to an assembled stack (addPostConstructLayer, 1-2 layers on depth 1..3, thorough 1..4).",
 "C19": "Configurations written through YowProfile.write_config and read through YowProfile(name).config for profiles named after the phone number or by the user; working directory state (neutral, a directory named like the profile, the storage root).",
 "C20": "Tokens of environments derived from the Android one that override one or all of its three constants.",
}


# sentences added per round-6 addition (DESIGN.md section 4f)
ROUND6 = {
 "C03": "The content clause is checked through the payload mapping of the message kinds the statement names.",
 "C05": "A caller that reuses one bytearray for all its reads.",
 "C06": "Identity-change notifications; no answer to an incoming stanza is sent down twice.",
 "C07": "Empty mediatype; status texts as arbitrary bytes or cleared.",
 "C08": "The answer to the library's own keep-alive ping reaches the application as an ordinary stanza; ping histories under a recording lock.",
 "C09": "Two stanzas of one shape converted one after the other in one process.",
 "C11": "The real asyncore dispatcher over a socket double with back-pressure (bytes per connection in order, nothing stale); a second stack logging in on another thread with one pre-emption.",
 "C12": "The application failing on the keep-alive's pong; reconnecting after every kind of failure on the real network layer and dispatcher over a socket double.",
 "C13": "A COMMIT refused by sqlite as a fault; real process deaths: a child process with the real store dies at its commit with records up to 3.5 MB and the file is reopened through the store.",
 "C14": "Confirmed uploads of N keys for N around sqlite's statement limits.",
 "C15": "One cipher object shared by two threads with one pre-emption at a solver-chosen line.",
 "C16": "The real network layer with the real asyncore and socket dispatchers over a socket double: event histories with back-pressure, refused and failing connects, raising handlers.",
 "C17": "The trust decision over symbolic contact ids and keys (two pinned contacts, an unconstrained presented key).",
 "C18": "Implicit groups pushed through the builder; consumers inside the emitter's group.",
 "C19": "Extension-less file names whose last letters look like an extension.",
 "C20": "Both requests of one request object decrypt at the server; values shaped like percent escapes.",
}


# sentences added per round-7 addition (DESIGN.md section 4g)
ROUND7 = {
 "C01": "A well-formed stanza directly after one the same coder layer had to refuse.",
 "C02": "The frame written directly after a refused stanza; reference choice: server-only JID pairs.",
 "C03": "A relayed group message that still names its author; several messages parked until the sender's keys arrive.",
 "C05": "Time passing between the reads (a clock the solver advances) and events travelling through the stack.",
 "C06": "Entities sent after a send that failed below (recording locks); several parked encrypted messages.",
 "C07": "The server's ping while a request with any id is outstanding.",
 "C08": "A success-only request is finished by its error reply; a second reply runs nothing.",
 "C09": "Every incoming shape serialised twice; media entities edited through their setters and serialised again.",
 "C10": "Fractional durations (the schema's float field); the same objects sent again after a refused value.",
 "C11": "Each entity of the iq kinds reaches the decoding peer exactly once.",
 "C12": "Sends while a handshake is in progress (waiting for an event nothing sets is reported); reconnects judged at the new connection's peer.",
 "C13": "Two accounts whose store directories carry names of the user's choosing.",
 "C15": "Tampering against an instance that decrypted a genuine file before.",
 "C16": "The keep-alive's real run() on its own thread across several periods; sockets of ended connections are closed.",
 "C17": "The auto-trust option per account with two stacks in one process.",
 "C18": "Layers receiving events through own or inherited @EventCallback methods; the package's plain-tuple stack constants.",
 "C19": "Long values (300-byte routing info, a configuration past 1 KiB).",
 "C20": "Real request objects of the registration flow: national number and token for numbers that repeat the country code digits, three sends of one object.",
}


# sentences added per round-9 addition (DESIGN.md section 4i)
ROUND9 = {
 "C01": "Two packed values read by one decoder (odd-length X and X plus its padding character).",
 "C02": "Packed strings of exactly 255 characters in the quick tier.",
 "C05": "Reads pushed into the layer from inside a delivery.",
 "C06": "A group participants request followed by the server's documented answer.",
 "C07": "Contacts notifications the contacts layer cannot present are still acknowledged once.",
 "C08": "Reply types as run-time strings.",
 "C09": "Number-like free text (packed alphabets) in a presence name / group subject through the real codec.",
 "C10": "Content edited through setters after construction, every settable field of every attribute class.",
 "C12": "A damaged compressed frame as a fault; compressed frames among the follow-ups.",
 "C13": "A prekey stored under an id that is still in the store.",
 "C16": "The connection ends while the real keep-alive thread body is in its period (one pre-emption), then a new login.",
 "C17": "The store busy during the trust decision.",
 "C18": "An earlier stack of the same layer classes in the process.",
 "C20": "Phone strings as typed or pasted (blanks and line ends at the edges, plus sign, other scripts' digits).",
}
# sentences added per round-8 addition (DESIGN.md section 4h)
ROUND8 = {
 "C02": "List sizes across the 8/16-bit header boundary for the reference decoder; several frames, some deflated, through one decoder object.",
 "C03": "Retry answers for media originals keep the media kind; own registration ids with 1, 7 and 8 hex digits in retry requests.",
 "C06": "Two requests of different kinds outstanding with library-chosen ids; a text message stanza without content.",
 "C07": "Protocol messages without a message key; encrypted messages whose payload only has fields newer than the schema.",
 "C09": "Lists of 255..257 members through the real codec; media messages of an unlisted kind.",
 "C10": "Two replies in one process naming the same quoted stanza id.",
 "C11": "The receiving thread (a server ping answered from inside the delivery, the noise layer's own lock traced) among the threads; a stuck-state query over per-thread cut points (lock order of receive and send paths).",
 "C12": "The keep-alive's timeout as a fault (recording lock in the iq layer); the blocking socket dispatcher in the reconnect cases.",
 "C13": "Confirmed uploads with sparse, unordered ids; a store file whose records an older installation stored as text.",
 "C14": "Confirmation recorded through the manager with debug logging on; a store file with the prekeys table of the released version.",
 "C15": "Content handed over as a bytearray; the concrete sweep covers lengths around multiples of 64 KiB.",
 "C17": "The first group message (two envelopes) of a reinstalled member under auto-trust.",
 "C18": "Interface lookup with a layer class and a subclass of it in one stack; empty payloads.",
 "C19": "Binary values whose first or last byte is a whitespace character; a save that moves its file into place from a temporary directory on another file system (the move is a copy, every step a crash point).",
 "C20": "The environment selected by name over three selections.",
}


def main():
    checks = []
    for pid in ALL:
        if pid not in CHECKS: continue
        c = CHECKS[pid]
        checks.append({
            "property_id": pid,
            "quick_cmd": "bin/check %s --tier quick" % pid,
            "thorough_cmd": "bin/check %s --tier thorough" % pid,
            "evidence_file": "evidence/%s.json" % pid,
            "replay_cmd_template": "bin/check %s --replay {path}" % pid,
            "engine": "sx",
            "level_claimed": {"category": c["cat"], "text": (c["text"] + " " + ROUND5.get(pid, "") + " " + ROUND6.get(pid, "") + " " + ROUND7.get(pid, "") + " " + ROUND8.get(pid, "") + " " + ROUND9.get(pid, "")).strip(), "design_ref": "DESIGN.md section " + c["design"]},
            "level_note": c["note"],
            "technique": c["technique"],
        })
    na = []
    for pid in ALL:
        if pid in CHECKS: continue
        na.append({"property_id": pid, "reason": NA.get(pid, "check not built yet in this round (planned, see DESIGN.md section 4)")})
    m = {
     "version": 1,
     "setup_cmd": "bin/ensure_env.sh && bin/selftest",
     "hooks": {"guard": "YOWSUP_VERIF", "enable": "none needed: checks instrument /repo's sources at import time (sx.loader); no source hooks are committed in /repo",
               "baseline_off_cmd": "cd /repo && /venv/bin/python -m pytest -ra -q -p no:cacheprovider --timeout=900 --continue-on-collection-errors",
               "source_commits": [], "add_only": True},
     "engines": [{"name": "sx", "path": "sx/", "serves_properties": sorted(CHECKS), "kind_free_text": "own symbolic-execution engine for Python: AST-instrumenting import hook over /repo's yowsup sources + proxy values (z3 Int/String/arrays, byte ropes with symbolic lengths, uninterpreted crypto terms) + DFS path exploration by re-execution; every solver model replayed concretely on the uninstrumented code"}],
     "checks": checks,
     "not_applicable": na,
     "notes": "All checks: exit 0 held / exit 1 + VIOLATION line / exit 3 harness error. Known findings in known_findings.json. See DESIGN.md.",
    }
    json.dump(m, open(os.path.join(V, "MANIFEST.json"), "w"), indent=1)
if __name__ == "__main__":
    main()
