#!/usr/bin/env python3
"""regenerates MANIFEST.json from the table below (single source of truth for the check registry)"""
import json, os
V = os.path.dirname(os.path.dirname(os.path.abspath(__file__)))
ALL = ["C%02d" % i for i in range(1, 21)]
CHECKS = {
 "C01": dict(cat="model_checking", design="4/C01",
    text="Bounded symbolic execution of the real WriteEncoder/ReadDecoder/YowCoderLayer: payload length L in [0,2^24) at four tree positions, one unconstrained Latin-1 string per tree (tag, attribute key/value, data, JID user/server) of n<=3 (quick) / n<=5 (thorough) characters covering every code point combination, digit/nibble/hex strings of every packing length, every dictionary token via a symbolic index, list sizes across the 8/16-bit boundary and the integer read/write kernels over their full ranges. z3 discharges tree equality on every path; each path's model is replayed on the uninstrumented codec including the library's own __eq__.",
    note="Trusted: sx engine models (selftest-validated against CPython and the repo's own tests), z3. Payload bytes abstract. Unconstrained strings longer than the bound and several unconstrained slots at once are outside the claim.",
    technique="symbolic execution of the instrumented Python codec with z3 (LIA, div/mod lowering of bit operations), concrete replay of every model"),
 "C02": dict(cat="model_checking", design="4/C02",
    text="Differential symbolic execution of the library codec against ref/wabinary.py (independent encoder with explicit choice vector + decoder, frozen dictionary copy): every dictionary index both ways; ref_decode(lib_encode(t)) == t on the C01 families; lib_decode(ref_encode(t, choices)) == t for list16 / 20- and 31-bit length / literal / unpacked / no-JID / string-valued content choices; deflate checked with real zlib on every path witness.",
    note="Trusted: the reference implementation and its frozen dictionary copy (extracted once from the pinned commit; no network), engine models, z3. zlib is not encoded (concrete on witnesses).",
    technique="differential symbolic execution (library vs independent reference) with z3, concrete replay of every model"),
 "C06": dict(cat="model_checking", design="4/C06",
    text="Every incoming stanza kind of the catalogue (fixtures + templates, fields unconstrained z3 strings/integers) is injected below the really assembled layer set; exactly one entity must reach the top and serialise back to the stanza, or nothing when the owning optional module is off; an unconstrained-tag/type/xmlns stanza is never delivered twice. Every sendable entity kind (built with symbolic fields) is sent from the top; exactly one equal stanza must leave at the bottom, messages as exactly one encrypted envelope without plaintext child. Module selections all/none/single-off (quick), all 16 x with/without encryption layers (thorough).",
    note="Trusted: engine string model, ideal manager stub, template catalogue with realistic discriminators. iq replies are C08's subject, envelope contents C03's.",
    technique="symbolic execution of the assembled protocol + encryption layers with z3 string variables; concrete replay of every model"),
 "C07": dict(cat="model_checking", design="4/C07",
    text="One incoming stanza with solver-variable fields (id, from, participant, notify, t as unconstrained strings/integers; notification type unconstrained or each documented kind with its documented body; call kinds; ping id; concrete protobuf payloads of every unsupported kind, unknown mediatype as unconstrained string) is injected below the really assembled layer set (3 encryption layers with an ideal manager stub + all protocol layers of the selected modules). z3 decides on every path: exactly one ack/receipt/pong with equal id, class, type, to and participant.",
    note="Trusted: engine string model, manager stub (only reached by encrypt notifications). One stanza per run; module selections all/none/single-off (quick), all 16 with and without encryption layers (thorough).",
    technique="symbolic execution of the assembled protocol layers with z3 string variables; concrete replay of every model"),
 "C08": dict(cat="model_checking", design="4/C08",
    text="Real YowInterfaceLayer on top of the assembled encryption + protocol layers. step: one outstanding request of each of 16 kinds (ping, last seen, picture, statuses, privacy, group operations, contact sync, media upload), a reply whose id is an unconstrained z3 string and whose type is result/error, delivered twice: success/error callback exactly once iff id matches, with the original request, replay invokes nothing. history: 2 (thorough 3) outstanding requests of solver-chosen kinds x 3 (4) deliveries to solver-chosen targets (incl. unknown ids) in any order. internal: key upload and key fetch registries of the encryption layers.",
    note="Trusted: engine string model, manager stub, reply bodies of documented shape. Reply types other than result/error and histories beyond the bound are outside.",
    technique="symbolic execution of the request registries in the assembled stack (z3 string reply id, solver-chosen histories); concrete replay of every model"),
 "C10": dict(cat="model_checking", design="4/C10",
    text="The real AttributesConverter runs symbolically on attribute objects of all 11 content kinds (text, extended text, image, video, audio, document, sticker, location, contact, sender-key distribution, revoke) whose set fields are unconstrained z3 strings (incl. empty), integers over the protobuf range (incl. 0), reals and opaque byte blobs of symbolic length, with quoted/mentioning context nested to depth 2 (thorough 3); optional-field families all/none/each single (thorough: pairs). protobuf messages are a stub generated from the real DESCRIPTORs; z3 proves every field the sender set comes back equal and that a parsed payload re-serialises to the same modelled fields. Every model is replayed through real protobuf bytes; the stub is compared with the real runtime on each run.",
    note="Trusted: proto2 stub (differentially validated), z3; protobuf's wire codec is only exercised concretely. Field subsets beyond the families rely on fields being mapped independently.",
    technique="symbolic execution of the hand-written field mapping with a descriptor-generated protobuf stub (z3 strings/ints/reals); concrete replay through real protobuf"),
 "C11": dict(cat="model_checking", design="4/C11",
    text="Per-sender event traces (acquire/release of every layer lock, cipher nonce reads/writes of the real dissononce CipherState, segment-queue put/get of the real consonance stream, socket writes) are extracted on every run from the real default stack in transport state; they are instantiated for 2 threads x 2 stanzas and 3 threads x 1 stanza (thorough 3 x 2; application via the top layer, keep-alive via the iq layer, second application thread) and encoded as a partial order over integer time stamps (program order, lock exclusion, FIFO queue, nonce semantics). z3 proves (unsat) that no interleaving puts a foreign write between a header and its payload, reorders frames against their nonces or reuses a nonce. A sat schedule is replayed with real threads gated at the traced points and a strict in-order peer decrypting the socket bytes.",
    note="Trusted: thread switches only between traced events (GIL-level atomicity below them), data-independent control flow of a send (re-checked per run). Handshake thread and deadlock-freedom are outside.",
    technique="trace extraction from the real code + SMT partial-order encoding of all interleavings (z3 LIA); gated-thread replay of counterexample schedules"),
 "C12": dict(cat="fault_enumeration", design="4/C12",
    text="The real default stack (all core, encryption and protocol layers + application layer) with recording non-blocking locks on every YowLayer.lock and the noise flush lock. The solver enumerates failure kind (unencodable value, >=16 MiB frame with symbolic length, no transport session, undecodable frame, handler-rejected stanza, raising application callback) x position in a sequence of 3 (thorough 4) operations x follow-up (send / incoming frame / both); after the failure: error reached the caller, no lock held, every later operation completes.",
    note="Trusted: Noise transport stub (transparent), manager stub; a lock found held stands for 'any later thread blocks forever' (OS-thread blocking itself is not executed).",
    technique="solver-driven fault enumeration over the real stack (symbolic execution engine, choice variables + symbolic frame length); concrete replay of every model"),
 "C16": dict(cat="model_checking", design="4/C16",
    text="Bounded exploration of connection-event histories on the real lifecycle layers (YowNetworkLayer, authentication + all protocol layers, AxolotlControlLayer, iq layer with the keep-alive thread body run inline, YowInterfaceLayer, YowStack.loop) with dispatcher and Noise/coder doubles. The solver enumerates every history up to length 6 (7 after an establishment prefix; thorough 7/9/10) over connect request, connected, socket error, peer close, late close callback, disconnect request, success, failure, three stream-error kinds, ping tick, pong, x reconnect option; a ghost model of the statement is asserted after every event (one up/one down announcement, one login attempt, authed once, delivery + close on failure/stream error, reconnect iff non-conflict and option on, keep-alive timeout iff a ping is unanswered, no write while down, state agreement).",
    note="Trusted: dispatcher double reports disconnect() through onDisconnected like the real dispatchers; loop runs after every event; handshake/transport are outside (C04).",
    technique="solver-driven bounded model checking of event histories on the real layers (choice variables decided by z3) against a ghost model; concrete replay"),
 "C17": dict(cat="model_checking", design="4/C17",
    text="Real AxolotlManager, real sqlite stores and real python-axolotl for three parties (me, the contact under identity A, the contact after reinstall under identity B). The solver enumerates every history of <=3 (thorough 4) events over bundle A/B, first message A/B, outgoing message, restart, x auto-trust; a ghost pin is compared after each step with the stored identity, with the trust decision for the other identity and with who can really decrypt what I send (refused change: key unchanged, nothing readable under the new identity; auto-trust: key replaced and messaging resumes; pin survives restart). A layer step checks getKeysFor / send behaviour for an untrusted identity.",
    note="Trusted: python-axolotl ratchets (real, concrete; random padding fixed to 1 byte to stay clear of python-axolotl's block-aligned padding defect), sqlite. Histories beyond the bound are outside.",
    technique="solver-driven bounded model checking of identity-change histories on the real manager/store/ratchets (choice variables decided by z3); concrete replay"),
 "C18": dict(cat="exploration", design="4/C18",
    text="Exhaustive solver-driven enumeration on the real YowStack / YowStackBuilder / YowLayer / YowParallelLayer with recording layers: every stack shape up to depth 4 (thorough 6) with plain layers and parallel groups, class / implicit-tuple / instance declaration, both order conventions; send/receive fan-out and order against a reference model; every emitter x consumer position for emitted and broadcast events, detached (through the real loop()) and normal; getLayerInterface by class; all 16 getDefaultLayers and 64 getDefaultStack argument combinations; builder push/pop sequences.",
    note="Trusted: reference model of the documented semantics (sibling delivery for events emitted inside a group is only required to be at-most-once). Group sizes 2,3 (quick) / 1,2,4 (thorough, deeper stacks 2 only).",
    technique="solver-driven exhaustive enumeration of finite configurations on the real classes (choice variables decided by z3), reference-model oracle, concrete replay"),
 "C13": dict(cat="fault_enumeration", design="4/C13",
    text="Real Lite*Store classes on the real sqlite3 library, one temporary database per path. The solver enumerates per table every sequence of <=2 (thorough 3) API operations over small operand pools (store A / store B = replace / delete / setAsSent ...) and every execute/commit boundary of the last operation as crash point (connection abandoned without commit), then a fresh store reopens the file: every record must hold its previous or its new value, never be missing, and the own identity/registration id is unchanged. A durability harness pushes real python-axolotl records through close/reopen and the public load API.",
    note="Trusted: sqlite's journal (an uncommitted transaction is rolled back on reopen), crash model = abandonment at statement/commit boundaries; record blobs are opaque tokens in the crash harness (sqlite only stores/compares them).",
    technique="solver-driven fault enumeration (operation sequence x crash boundary as z3 choice variables) on the real stores over real sqlite; concrete replay"),
 "C19": dict(cat="model_checking", design="4/C19",
    text="(a) DictKeyValTransform.transform/reverse executed symbolically on values of n<=3 (thorough 4) unconstrained Latin-1 characters under exactly the property's restriction: z3 proves the value survives the key=value text on every path. (b) solver-driven enumeration of ConfigManager.save -> real file -> load over 2 formats x 4 load paths (with/without extension, used profile, never-used profile) x field-subset families x 3 value families with real consonance key objects, compared field by field with byte-identical keys. (c) crash injection at every write boundary of save (open/truncate, write with a solver-chosen persisted prefix, close, rename): the profile must load as the previous or the new configuration.",
    note="Trusted: json/base64 (real, concrete), file system below open/write/rename (rename atomic, write may persist any prefix), field-subset families instead of all 2^15 subsets (fields are filtered independently).",
    technique="symbolic execution of the key=value codec (z3, symbolic characters) + solver-driven configuration and crash-point enumeration on real files; concrete replay"),
 "C20": dict(cat="model_checking", design="4/C20",
    text="Token: AndroidYowsupEnv.getToken executed with SHA-1 as an uninterpreted incremental hash and the phone an abstract string of symbolic length 0..64: the result term equals b64(SHA1(opad||SHA1(ipad||sig||classes||phone))) built independently. Encoding: WARequest.urlencode/urlencodeParams on symbolic characters over all Unicode code points (UTF-8 length classes), bytes, ints, parameter lists <=3, equal to the independent reference encoder; exhaustive concrete single-code-point sweep with the real urllib. Encryption: encryptParams with X25519/AES-GCM/base64 as uninterpreted terms (DH commutativity): the server side decrypts to exactly the encoded parameter string, fresh ephemeral key per call. Every witness replayed with real hashlib/hmac, cryptography, python-axolotl.",
    note="Trusted: models of sha1/X25519/AES-GCM/base64/urllib.quote (quote validated by the sweep); primitives themselves are outside. Strings longer than the bound rest on the encoder being per-character.",
    technique="symbolic execution with hashes/ciphers as uninterpreted functions and characters as z3 integers; differential concrete replay against independent references"),
 "C14": dict(cat="model_checking", design="4/C14",
    text="Kernel: AxolotlControlLayer.adjustId executed on a symbolic id over [0,2^32): z3 proves the bytes are the big-endian value, 3 bytes below 2^24 and 4 above. Histories: real AxolotlControlLayer + real AxolotlManager + real sqlite store + real key generation (batch 3, refill threshold 2) inside the lifecycle stack; the solver enumerates every history of <=6 (7 after a login prefix; thorough 8/9) events over connect, success, server key-count request, upload result, upload error, connection loss, restart; after each step a ghost set of confirmed ids is checked: no confirmed id offered again, unconfirmed ids offered at the next authenticated login, offered ids map to locally stored keys with the stored public key, 3-byte ids / 32-byte keys, identity, registration id and a signed prekey whose signature verifies (real Curve.verifySignature).",
    note="Trusted: python-axolotl key generation and signature verification (real, concrete), sqlite; small batch constants stand for 812/10. Consumption by an incoming first message is outside (C03/C17).",
    technique="symbolic execution of the id encoding (z3, digit decomposition) + solver-driven bounded model checking of upload histories on the real layer/manager/store; concrete replay"),
 "C15": dict(cat="model_checking", design="4/C15",
    text="Symbolic execution of the real mediacipher module with HKDF / AES-CBC / HMAC as uninterpreted terms (dec(enc(x))=x) and PKCS7 modelled exactly; the plaintext length L is a solver variable (0..80 quick, 0..4096 thorough; contents and key abstract). Obligations: decrypt(encrypt(p)) == p for every L and kind; the ciphertext term equals the independent reference layout (HKDF iv/key/mac key, always-padded CBC, 10-byte MAC over iv+ct); a flip at any symbolic position of ciphertext or tag, truncation, wrong key or wrong kind raises. Every model is replayed with the real cryptography library and compared byte for byte with ref/mediacipher_ref.py (own HKDF); the repository's fixture vector is checked against both.",
    note="Trusted: crypto models (ideal-primitive assumption for tamper detection: different MAC inputs give different MACs), PKCS7 model, z3; the real primitives are only exercised on the solver's witnesses and (thorough) every length 0..80.",
    technique="symbolic execution with cryptographic primitives as uninterpreted functions (z3), symbolic length; concrete differential replay against an independent implementation"),
 "C09": dict(cat="model_checking", design="4/C09",
    text="For every entity class with a documented stanza (57 repository fixtures + hand-written templates for ~45 classes without fixture) the documented stanza becomes a template whose non-discriminator attributes are unconstrained z3 strings / integers (list children 0..3, optional attributes dropped); symbolic execution of fromProtocolTreeNode + toProtocolTreeNode must reproduce the template for all values (classes built from incoming stanzas), and stanzas of sendable classes (built through the constructor with symbolic arguments) must satisfy the codec's typing contract; every path witness also goes through the real encoder/decoder.",
    note="Trusted: template catalogue (documented shapes, discriminators kept concrete, repeated fields tied, sibling jids distinct), engine string model (z3 Strings), z3. The protobuf payload of message stanzas is opaque here (C10).",
    technique="symbolic execution of each entity class's parser/serialiser on stanza templates with z3 string/integer variables; concrete replay of every model"),
 "C03": dict(cat="model_checking", design="4/C03",
    text="STEP OBLIGATIONS ONLY (the end-to-end clause over real ratchets is not claimed). python-axolotl is replaced at the AxolotlManager boundary by an ideal-functionality stub; the real AxolotlSendLayer / AxolotlReceivelayer / AxolotlControlLayer with the message and media layers on top run symbolically: 1:1 send with/without session, group send with and without sender key (group-info and key requests first), retry-queue bound, every decrypt outcome (ok / duplicate / invalid message / invalid key id / no session / untrusted) x envelope type x payload kind (text, key-distribution only, both), retry receipt -> re-encryption of the queued original. Message body is a blob of symbolic length whose term must not occur in anything sent down outside an envelope term (taint check); ids and JIDs are z3 strings. The real manager's padding code is proved to round-trip for every message and pad length 1..255.",
    note="Trusted / outside: the real Signal ratchets, stores and restarts under whole conversations (NOT claimed); python-axolotl's AESCipher cannot round-trip block-aligned plaintext (1 in 16 randomly padded messages), recorded as an observation about the external library. Received plaintexts are concrete protobuf messages.",
    technique="symbolic execution of the real encryption layers under an ideal-functionality manager stub (z3 strings, symbolic-length ropes, term taint check); concrete replay"),
 "C05": dict(cat="model_checking", design="4/C05",
    text="Bounded symbolic execution of the real YowNoiseSegmentsLayer: frame lengths (1..2^24-1 each), payload contents and every chunk cut position are solver variables; z3 decides each path. Covers all streams of <=3 frames in <=3 chunks (quick) / <=4 frames in <=5 chunks (thorough), an inductive step from an arbitrary buffered prefix, and every outgoing length 0..2^25. Every path's model is replayed on the uninstrumented layer.",
    note="Trusted: CPython semantics of everything but the hooked constructs; sx engine models of struct.pack/unpack and bytearray slicing (self-validated); z3. Payload bytes are abstract (the layer only moves them). Longer streams rest on the step harness plus the checked assumption that the layer's only state is its read buffer.",
    technique="symbolic execution of the instrumented Python source with z3 (LIA + ropes with symbolic lengths), concrete replay of every model"),
}
NA = {
 "C04": "Noise handshake joins real X25519/AES-GCM/SHA-256 (FFI, hash loops) with two threads whose control flow depends on queue contents; no schedule-independent trace exists to encode and the crypto cannot be encoded. Its encodable glue is claimed under C05, C11, C12, C16, C19 (DESIGN.md section 5).",
}
def main():
    checks = []
    for pid in ALL:
        if pid not in CHECKS: continue
        c = CHECKS[pid]
        checks.append({
            "property_id": pid,
            "quick_cmd": "bin/check %s --tier quick" % pid,
            "thorough_cmd": "bin/check %s --tier thorough" % pid,
            "evidence_file": "evidence/%s.json" % pid,
            "replay_cmd_template": "bin/check %s --replay {path}" % pid,
            "engine": "sx",
            "level_claimed": {"category": c["cat"], "text": c["text"], "design_ref": "DESIGN.md section " + c["design"]},
            "level_note": c["note"],
            "technique": c["technique"],
        })
    na = []
    for pid in ALL:
        if pid in CHECKS: continue
        na.append({"property_id": pid, "reason": NA.get(pid, "check not built yet in this round (planned, see DESIGN.md section 4)")})
    m = {
     "version": 1,
     "setup_cmd": "bin/ensure_env.sh && bin/selftest",
     "hooks": {"guard": "YOWSUP_VERIF", "enable": "none needed: checks instrument /repo's sources at import time (sx.loader); no source hooks are committed in /repo",
               "baseline_off_cmd": "cd /repo && /venv/bin/python -m pytest -ra -q -p no:cacheprovider --timeout=900 --continue-on-collection-errors",
               "source_commits": [], "add_only": True},
     "engines": [{"name": "sx", "path": "sx/", "serves_properties": sorted(CHECKS), "kind_free_text": "own symbolic-execution engine for Python: AST-instrumenting import hook over /repo's yowsup sources + proxy values (z3 Int/String/arrays, byte ropes with symbolic lengths, uninterpreted crypto terms) + DFS path exploration by re-execution; every solver model replayed concretely on the uninstrumented code"}],
     "checks": checks,
     "not_applicable": na,
     "notes": "All checks: exit 0 held / exit 1 + VIOLATION line / exit 3 harness error. Known findings in known_findings.json. See DESIGN.md.",
    }
    json.dump(m, open(os.path.join(V, "MANIFEST.json"), "w"), indent=1)
if __name__ == "__main__":
    main()
