#!/bin/sh
# For every recorded original defect (regress/*.diff = reverse of a "fix:" commit) and every kept seeded change
# (seeded/<id>/patch.diff): apply it to /repo, run the property's quick check, expect exit 1 + VIOLATION, undo.
# usage: tools/regress.sh [pattern]
cd "$(dirname "$0")/.." || exit 2
fail=0
for p in regress/*${1:-}*.diff seeded/*${1:-}*/patch.diff; do
  [ -f "$p" ] || continue
  case "$p" in
    regress/*) pid=$(basename "$p" | cut -c1-3) ;;
    *) pid=$(python3 -c "import json,sys; print(json.load(open('$(dirname "$p")/meta.json'))['property'])") ;;
  esac
  if ! git -C /repo apply --check "$PWD/$p" 2>/dev/null; then echo "SKIP $p (does not apply)"; continue; fi
  git -C /repo apply "$PWD/$p"
  out=$(bin/check "$pid" --tier quick 2>&1); rc=$?
  git -C /repo checkout -- . ; git -C /repo clean -fdq
  if [ $rc -eq 1 ] && echo "$out" | grep -q "^VIOLATION property=$pid"; then echo "DETECTED $pid $p"; else echo "MISSED   $pid $p (rc=$rc)"; fail=1; fi
done
git -C /repo status --short | head -3
exit $fail
