#!/bin/sh
# run a property's check against one seeded change in a scratch worktree (outside /repo and /verif), then remove it
# usage: tools/tryseed.sh <seed-id> [extra bin/check args]
V=$(cd "$(dirname "$0")/.." && pwd)
id=$1; shift
P=${PROP:-$(echo $id | cut -d_ -f1)}
wt=/tmp/ts_$id.$$
git -C /repo worktree add -q --detach $wt HEAD >/dev/null 2>&1 || exit 3
git -C $wt apply $V/seeded/$id/patch.diff || { git -C /repo worktree remove --force $wt; exit 3; }
cd $V && YOWSUP_REPO=$wt VERIF_EVIDENCE_DIR=/tmp/ts_ev.$$ bin/check $P "$@"
rc=$?
git -C /repo worktree remove --force $wt; rm -rf $wt /tmp/ts_ev.$$
exit $rc
