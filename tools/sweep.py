#!/usr/bin/env python3
"""run every recorded defect (regress/*.diff) and every kept seeded change (seeded/<id>/patch.diff) against its property's check, each in its own
scratch worktree of /repo outside /repo and /verif (removed afterwards), several at a time.  Nothing touches /repo's working tree.
usage: tools/sweep.py [-j N] [--tier quick] [pattern]      exit 0 iff every change is detected (exit 1 of the check + VIOLATION line)"""
import sys, os, subprocess, json, glob, concurrent.futures, shutil, time

V = os.path.dirname(os.path.dirname(os.path.abspath(__file__)))


def run(item):
    name, pid, patch = item
    wt = "/tmp/sw_%s_%d" % (name.replace("/", "_"), os.getpid())
    ev = wt + ".ev"
    subprocess.run("git -C /repo worktree remove --force %s" % wt, shell=True, capture_output=True)
    r = subprocess.run("git -C /repo worktree add -q --detach %s HEAD" % wt, shell=True, capture_output=True)
    t = time.time()
    try:
        a = subprocess.run("git -C %s apply %s" % (wt, patch), shell=True, capture_output=True)
        if a.returncode != 0:
            return name, pid, "SKIP (does not apply)", 0
        env = dict(os.environ, YOWSUP_REPO=wt, VERIF_EVIDENCE_DIR=ev)
        p = subprocess.run([os.path.join(V, "bin/check"), pid, "--tier", TIER], env=env, stdout=subprocess.PIPE, stderr=subprocess.STDOUT, cwd=V)
        out = p.stdout.decode("utf-8", "replace")
        ok = p.returncode == 1 and ("VIOLATION property=%s" % pid) in out
        first = [l for l in out.splitlines() if l.startswith("  confirmed")][:1]
        return name, pid, ("DETECTED" if ok else "MISSED rc=%d" % p.returncode) + ("  " + first[0][:160] if first else ""), time.time() - t
    finally:
        subprocess.run("git -C /repo worktree remove --force %s" % wt, shell=True, capture_output=True)
        shutil.rmtree(wt, ignore_errors=True)
        shutil.rmtree(ev, ignore_errors=True)


if __name__ == "__main__":
    args = sys.argv[1:]
    j, TIER, pat = 6, "quick", ""
    while args:
        a = args.pop(0)
        if a == "-j":
            j = int(args.pop(0))
        elif a == "--tier":
            TIER = args.pop(0)
        else:
            pat = a
    items = []
    EXPECTED_MISS = set()          # changes recorded as not detected (meta.json: recorded_not_detected): reported, not counted as a failure of the sweep
    for p in sorted(glob.glob(os.path.join(V, "regress/*.diff"))):
        items.append(("regress/" + os.path.basename(p)[:-5], os.path.basename(p)[:3], p))
    for d in sorted(glob.glob(os.path.join(V, "seeded/*/"))):
        m = os.path.join(d, "meta.json")
        if os.path.exists(m) and json.load(open(m)).get("neutralised_by"):
            print("%-58s skipped: %s" % ("seeded/" + os.path.basename(d.rstrip("/")), json.load(open(m))["neutralised_by"][:90]))
            continue
        if os.path.exists(m):
            if json.load(open(m)).get("recorded_not_detected"):
                EXPECTED_MISS.add("seeded/" + os.path.basename(d.rstrip("/")))
            items.append(("seeded/" + os.path.basename(d.rstrip("/")), json.load(open(m))["property"], os.path.join(d, "patch.diff")))
    items = [i for i in items if pat in i[0]]
    bad = 0
    with concurrent.futures.ThreadPoolExecutor(j) as ex:
        for name, pid, res, dt in ex.map(run, items):
            print("%-58s %s %s (%.0fs)" % (name, pid, res, dt), flush=True)
            if not res.startswith("DETECTED"):
                if name in EXPECTED_MISS:
                    print("%-58s    (recorded as not detected in its meta.json)" % "", flush=True)
                else:
                    bad += 1
    subprocess.run("git -C /repo worktree prune", shell=True)
    print("%d changes, %d not detected" % (len(items), bad))
    sys.exit(1 if bad else 0)
