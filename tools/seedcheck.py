#!/usr/bin/env python3
"""verify a sub-agent's seeded change and run the property's check against it.

usage: tools/seedcheck.py <PROPERTY> <patch.diff> <demo.py> <notes.md> <seed-id> [--keep]
Steps (all in a scratch worktree of /repo outside /repo and /verif, removed afterwards):
  1. clean tree: demo exits 0, pinned suite reports 79 passed
  2. patched tree: demo exits non-zero, pinned suite still 79 passed
  3. property's quick check against the patched tree (YOWSUP_REPO) -> detected (exit 1 + VIOLATION) or missed
With --keep the change is stored as /verif/seeded/<seed-id>/ (patch.diff, demo.py, notes.md, meta.json)."""
import sys, os, subprocess, json, shutil, re, time

V = os.path.dirname(os.path.dirname(os.path.abspath(__file__)))


def sh(cmd, **kw):
    p = subprocess.run(cmd, shell=True, stdout=subprocess.PIPE, stderr=subprocess.STDOUT, **kw)
    return p.returncode, p.stdout.decode("utf-8", "replace")


def suite(wt):
    rc, out = sh("cd %s && /venv/bin/python -m pytest -q -p no:cacheprovider --continue-on-collection-errors 2>&1 | tail -2" % wt)
    m = re.search(r"(\d+) passed", out)
    f = re.search(r"(\d+) failed", out)
    return int(m.group(1)) if m else 0, int(f.group(1)) if f else 0


def main():
    pid, patch, demo, notes, sid = sys.argv[1:6]
    keep = "--keep" in sys.argv
    wt = "/tmp/sv_%s" % sid
    sh("git -C /repo worktree remove --force %s" % wt)
    rc, out = sh("git -C /repo worktree add --detach %s HEAD" % wt)
    res = {"property": pid, "seed": sid}
    try:
        rc0, o0 = sh("/tmp/yowenv/bin/python %s %s" % (demo, wt), timeout=600)
        res["demo_clean_rc"] = rc0
        res["suite_clean"] = suite(wt)
        rc, out = sh("git -C %s apply %s" % (wt, os.path.abspath(patch)))
        res["patch_applies"] = rc == 0
        if rc != 0:
            res["error"] = out[-400:]
            return res
        rc1, o1 = sh("/tmp/yowenv/bin/python %s %s" % (demo, wt), timeout=600)
        res["demo_patched_rc"] = rc1
        res["demo_patched_tail"] = o1[-300:]
        res["suite_patched"] = suite(wt)
        res["valid"] = rc0 == 0 and rc1 != 0 and res["suite_clean"] == (79, 0) and res["suite_patched"] == (79, 0)
        t = time.time()
        rc2, o2 = sh("cd %s && YOWSUP_REPO=%s VERIF_EVIDENCE_DIR=/tmp/sv_ev bin/check %s --tier quick" % (V, wt, pid), timeout=3600)
        res["check_rc"] = rc2
        res["check_wall_s"] = round(time.time() - t, 1)
        res["detected"] = rc2 == 1 and ("VIOLATION property=%s" % pid) in o2
        res["check_tail"] = [l[:300] for l in o2.splitlines() if l.startswith(("VIOLATION", "  confirmed", "HARNESS", "INCONCLUSIVE", "["))][:8]
    finally:
        sh("git -C /repo worktree remove --force %s" % wt)
        shutil.rmtree(wt, ignore_errors=True)
    if keep and res.get("valid"):
        d = os.path.join(V, "seeded", sid)
        os.makedirs(d, exist_ok=True)
        shutil.copy(patch, os.path.join(d, "patch.diff"))
        shutil.copy(demo, os.path.join(d, "demo.py"))
        if os.path.exists(notes):
            shutil.copy(notes, os.path.join(d, "notes.md"))
        meta = {"property": pid, "breaks": open(notes).read()[:1500] if os.path.exists(notes) else "", "origin": "independent sub-agent given only the property text and a scratch worktree",
                "confirmed": {"demo_exit_clean": res["demo_clean_rc"], "demo_exit_patched": res["demo_patched_rc"], "pinned_suite_clean": res["suite_clean"], "pinned_suite_patched": res["suite_patched"]},
                "ran": ["/tmp/yowenv/bin/python demo.py <scratch worktree> (clean and patched)", "/venv/bin/python -m pytest -q -p no:cacheprovider --continue-on-collection-errors (clean and patched)",
                        "YOWSUP_REPO=<patched worktree> bin/check %s --tier quick" % pid],
                "check_detects": res.get("detected"), "check_output": res.get("check_tail")}
        json.dump(meta, open(os.path.join(d, "meta.json"), "w"), indent=1)
    return res


if __name__ == "__main__":
    r = main()
    print(json.dumps(r, indent=1))
